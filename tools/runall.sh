#!/bin/bash
# usage: tools/runall.sh [quick|thorough] [extra args e.g. --update-ledger]   (sequential; summary lines only)
cd "$(dirname "$0")/.."
tier=${1:-quick}; shift
for id in $(python3 -c "import json; print(' '.join(c['property_id'] for c in json.load(open('MANIFEST.json'))['checks']))"); do
  out=$(./check $id --tier $tier "$@" 2>&1); rc=$?
  echo "$out" | grep -E "^(VIOLATION|UNDECIDED|CHECKER-ERROR|KNOWN-FINDING-STALE)" | cut -c1-300
  echo "$out" | tail -1 | cut -c1-200
  echo "   rc=$rc"
done
