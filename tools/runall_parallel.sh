#!/bin/bash
# usage: tools/runall_parallel.sh [N concurrent] [tier]  -- stress test: several checks at once, exit codes only
cd "$(dirname "$0")/.."
N=${1:-4}; tier=${2:-quick}
ids=$(python3 -c "import json; print(' '.join(c['property_id'] for c in json.load(open('MANIFEST.json'))['checks']))")
mkdir -p /tmp/par_logs
printf "%s\n" $ids | xargs -P $N -I{} sh -c "VERIF_SEED=1 ./check {} --tier $tier > /tmp/par_logs/{}.log 2>&1; echo {} rc=\$? \$(tail -1 /tmp/par_logs/{}.log | cut -c1-150)"
