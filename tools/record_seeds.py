#!/usr/bin/env python3
"""Copies confirmed seeded changes from /tmp/seed_out/<id>/ into /verif/seeded/<id>/ with a meta.json built from the
try_seed.sh logs (first run: /tmp/seedeval/<id>.log, after strengthening: /tmp/seedeval/r2/<id>.log)."""
import json, os, re, shutil, sys
SRC, LOGS, DST = os.environ.get('SEED_SRC', '/tmp/seed_out'), os.environ.get('SEED_LOGS', '/tmp/seedeval'), '/verif/seeded'
OFFSET = int(os.environ.get('SEED_OFFSET', '0'))      # wave 2 seeds C01_1 / C01_2 are recorded as C01_3 / C01_4


def parse(log):
    if not os.path.exists(log):
        return None
    t = [l for l in open(log).read().split('\n') if not l.startswith('WARNING')]
    out = {'suite': None, 'demo_with': None, 'demo_without': None, 'checks': []}
    sect = None
    for l in t:
        if l.startswith('== tests'):
            sect = 'tests'
        elif l.startswith('== demo with the'):
            sect = 'with'
        elif l.startswith('== demo without'):
            sect = 'without'
        elif l.startswith('== check'):
            sect = 'check'
        elif sect == 'tests' and ('passed' in l or 'failed' in l):
            out['suite'] = l.strip()
        elif sect == 'with' and l.startswith('exit ') and out['demo_with'] is None:
            out['demo_with'] = int(l.split()[1])
        elif sect == 'without' and l.startswith('exit '):
            out['demo_without'] = int(l.split()[1])
        elif sect == 'check' and re.match(r'^(VIOLATION|UNDECIDED|CHECKER-ERROR|C\d\d:)', l):
            out['checks'].append(l.strip()[:300])
    return out


for sid in sorted(os.listdir(SRC)):
    first = parse(os.path.join(LOGS, sid + '.log'))
    if first is None:
        continue
    second = parse(os.path.join(LOGS, 'r2', sid + '.log'))
    ok = first['suite'] and not re.search(r'\b\d+ (failed|error)', first['suite']) and first['demo_with'] == 1 and first['demo_without'] == 0
    if not ok:
        print('NOT CONFIRMED', sid, first)
        continue
    prop_, num_ = sid.split('_')
    sid_out = '%s_%d' % (prop_, int(num_) + OFFSET)
    d = os.path.join(DST, sid_out)
    os.makedirs(d, exist_ok=True)
    for f in ('patch.diff', 'demo.py', 'notes.md'):
        shutil.copy(os.path.join(SRC, sid, f), os.path.join(d, f))
    notes = open(os.path.join(d, 'notes.md')).read().strip().split('\n')
    title = next((l.lstrip('# ').strip() for l in notes if l.strip()), sid)
    meta = {'property': sid.split('_')[0], 'change': title[:300],
            'confirmed': {'suite_with_change': first['suite'], 'demo_exit_with_change': first['demo_with'],
                          'demo_exit_without_change': first['demo_without'],
                          'how': 'tools/try_seed.sh <seed dir> <property>: scratch git worktree of /repo HEAD outside /repo and /verif, patch applied with '
                                 'git apply, full pytest, demo with PYTHONPATH=worktree/src and with PYTHONPATH=/repo/src, ./check with PYVC_REPO=worktree; '
                                 'worktree removed afterwards'},
            'check_result_first_run': first['checks'],
            'author': 'independent sub-agent given only the property text and its own scratch worktree'}
    if second:
        meta['check_result_after_strengthening'] = second['checks']
    json.dump(meta, open(os.path.join(d, 'meta.json'), 'w'), indent=1)
    caught = any(c.startswith('VIOLATION') for c in (second or first)['checks'])
    print('%-7s -> %-7s %-8s %s' % (sid, sid_out, 'caught' if caught else 'MISSED', title[:100]))
