#!/usr/bin/env python3
"""Regenerates DESIGN.md section 13.1 / 13.2 (between the markers) from tools/claims.json and the evidence files,
so that DESIGN, MANIFEST and evidence say the same thing.  Usage: python3 tools/mkdesign13.py"""
import json, os, glob, re
V = os.path.dirname(os.path.dirname(os.path.abspath(__file__)))
claims = json.load(open(os.path.join(V, 'tools', 'claims.json')))
props = {json.loads(l)['id']: json.loads(l) for l in open(os.path.join(V, 'properties.jsonl'))}
ev = {}
for f in glob.glob(os.path.join(V, 'evidence', 'C??.json')):
    e = json.load(open(f))
    ev[e['property_id']] = e
out = []
out.append('### 13.1 Numbers (quick tier, from the committed evidence files)\n')
out.append('| id | level | functions under contract | obligations discharged | VC instances by back end | solver s | stand-ins (cases, quick tier) |')
out.append('|----|-------|---|---|---|---|---|')
for pid in sorted(claims):
    e = ev.get(pid)
    if not e:
        out.append('| %s | %s | (no evidence file yet) | | | | |' % (pid, claims[pid]['category']))
        continue
    c = e['coverage']
    be = ', '.join('%s %d' % (k, v) for k, v in sorted(c.get('backends', {}).items()))
    si = '; '.join('%s (%s)' % (s['name'], s.get('cases')) for s in c.get('bounded_standins', [])) or '-'
    out.append('| %s | %s | %d | %s/%s | %s | %.0f | %s |' % (pid, claims[pid]['category'], len(c.get('functions_under_contract', [])),
                                                            c.get('discharged'), c.get('obligations'), be, c.get('solver_time_s', 0), si))
out.append('')
out.append('### 13.2 Per property: what is under contract, what is bounded, what is assumed\n')
for pid in sorted(claims):
    out.append('**%s - %s** (%s)' % (pid, props[pid]['title'], claims[pid]['category']))
    out.append('')
    out.append('*Decided by contracts:* ' + claims[pid]['text'])
    out.append('')
    out.append('*Bounded / assumed / not decided:* ' + claims[pid]['level_note'])
    out.append('')
txt = '\n'.join(out)
p = os.path.join(V, 'DESIGN.md')
s = open(p).read()
a, b = '<!-- BEGIN GENERATED 13.1-13.2 -->', '<!-- END GENERATED 13.1-13.2 -->'
if a in s:
    s = s[:s.index(a) + len(a)] + '\n' + txt + '\n' + s[s.index(b):]
    open(p, 'w').write(s)
    print('DESIGN.md section 13.1-13.2 regenerated')
else:
    print('markers not found')
