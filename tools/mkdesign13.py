#!/usr/bin/env python3
"""Regenerates DESIGN.md section 13.1 / 13.2 (between the markers) from tools/claims.json and the evidence files,
so that DESIGN, MANIFEST and evidence say the same thing.  Usage: python3 tools/mkdesign13.py"""
import json, os, glob, re
V = os.path.dirname(os.path.dirname(os.path.abspath(__file__)))
claims = json.load(open(os.path.join(V, 'tools', 'claims.json')))
props = {json.loads(l)['id']: json.loads(l) for l in open(os.path.join(V, 'properties.jsonl'))}
ev = {}
for f in glob.glob(os.path.join(V, 'evidence', 'C??.json')):
    e = json.load(open(f))
    ev[e['property_id']] = e
out = []
out.append('### 13.1 Numbers (quick tier, from the committed evidence files)\n')
out.append('| id | level | functions under contract | obligations discharged | VC instances by back end | solver s | stand-ins (cases, quick tier) |')
out.append('|----|-------|---|---|---|---|---|')
for pid in sorted(claims):
    e = ev.get(pid)
    if not e:
        out.append('| %s | %s | (no evidence file yet) | | | | |' % (pid, claims[pid]['category']))
        continue
    c = e['coverage']
    be = ', '.join('%s %d' % (k, v) for k, v in sorted(c.get('backends', {}).items()))
    si = '; '.join('%s (%s)' % (s['name'], s.get('cases')) for s in c.get('bounded_standins', [])) or '-'
    out.append('| %s | %s | %d | %s/%s | %s | %.0f | %s |' % (pid, claims[pid]['category'], len(c.get('functions_under_contract', [])),
                                                            c.get('discharged'), c.get('obligations'), be, c.get('solver_time_s', 0), si))
out.append('')
out.append('### 13.2 Per property: what is under contract, what is bounded, what is assumed\n')
for pid in sorted(claims):
    out.append('**%s - %s** (%s)' % (pid, props[pid]['title'], claims[pid]['category']))
    out.append('')
    out.append('*Decided by contracts:* ' + claims[pid]['text'])
    out.append('')
    out.append('*Bounded / assumed / not decided:* ' + claims[pid]['level_note'])
    out.append('')
txt = '\n'.join(out)
p = os.path.join(V, 'DESIGN.md')
s = open(p).read()
a, b = '<!-- BEGIN GENERATED 13.1-13.2 -->', '<!-- END GENERATED 13.1-13.2 -->'
if a in s:
    s = s[:s.index(a) + len(a)] + '\n' + txt + '\n' + s[s.index(b):]
    print('DESIGN.md section 13.1-13.2 regenerated')
else:
    print('markers 13.1-13.2 not found')
# ---- 13.4: seeded changes and which check catches them (seeded/*/meta.json + seeded/MATRIX.json written by tools/seed_matrix.py)
mx = {}
mp = os.path.join(V, 'seeded', 'MATRIX.json')
if os.path.exists(mp):
    mx = json.load(open(mp))
rows = ['| seed | change | first run | now: caught by |', '|------|--------|-----------|----------------|']
n_total = n_vc = n_si = n_nat = n_miss = 0
for d in sorted(glob.glob(os.path.join(V, 'seeded', 'C*_*'))):
    sid = os.path.basename(d)
    m = json.load(open(os.path.join(d, 'meta.json')))
    first = m.get('check_result_first_run', [])
    f_caught = any(str(c).startswith('VIOLATION') for c in first)
    f_txt = 'caught' if f_caught else ('checker error' if any('CHECKER-ERROR' in str(c) for c in first) else 'missed')
    now = []
    for prop, r in sorted(mx.get(sid, {}).get('checks', {}).items()):
        for h in r['caught_by']:
            h = re.sub(r'^obligation \S+?\.py:', 'obligation ', h)
            now.append('%s: %s' % (prop, h))
        if not r['caught_by']:
            now.append('%s: exit %d, not caught' % (prop, r['exit']))
    caught = [x for x in now if 'not caught' not in x]
    n_total += 1
    if any('obligation' in x for x in caught):
        n_vc += 1
    elif any('native test' in x for x in caught):
        n_nat += 1
    elif caught:
        n_si += 1
    else:
        n_miss += 1
    change = re.sub(r'^C\d\d_\d\s*-\s*', '', m.get('change', ''))[:110].replace('|', '/')
    rows.append('| %s | %s | %s | %s |' % (sid, change, f_txt, '; '.join(now)[:330] if now else '(matrix not run)'))
rows.append('')
rows.append('Totals over %d seeded changes: %d caught by a failed obligation (deductive), %d by the native test of an assumed contract, '
            '%d only by a bounded stand-in, %d not caught.' % (n_total, n_vc, n_nat, n_si, n_miss))
a2, b2 = '<!-- BEGIN GENERATED 13.4 -->', '<!-- END GENERATED 13.4 -->'
if a2 in s:
    s = s[:s.index(a2) + len(a2)] + '\n' + '\n'.join(rows) + '\n' + s[s.index(b2):]
    print('DESIGN.md section 13.4 table regenerated')
open(p, 'w').write(s)
