#!/bin/bash
# tools/try_seed.sh <seed_dir> <PROPERTY> [more properties...]  — confirm a seeded change and run the checks against it
# (scratch worktree outside /repo and /verif, removed afterwards)
set -u
SEED=$1; shift
WT=/tmp/ts_$$
git -C /repo worktree add -q $WT HEAD || exit 2
cp /repo/src/TotalDepth/LIS/core/*.so $WT/src/TotalDepth/LIS/core/ 2>/dev/null
if ! git -C $WT apply $SEED/patch.diff; then echo "PATCH DOES NOT APPLY"; git -C /repo worktree remove --force $WT; exit 2; fi
echo "== tests with the change:"
(cd $WT && PYTHONPATH=$WT/src /venv/bin/python -m pytest -q -p no:cacheprovider --timeout=900 --continue-on-collection-errors 2>&1 | tail -1)
echo "== demo with the change (expect exit 1):"
(cd /tmp && PYTHONPATH=$WT/src timeout 300 /venv/bin/python $SEED/demo.py > /tmp/ts_demo_with.txt 2>&1; echo "exit $?"; tail -3 /tmp/ts_demo_with.txt | cut -c1-200)
echo "== demo without the change (expect exit 0):"
(cd /tmp && PYTHONPATH=/repo/src timeout 300 /venv/bin/python $SEED/demo.py > /tmp/ts_demo_without.txt 2>&1; echo "exit $?")
for P in "$@"; do
  echo "== check $P on the changed tree:"
  (cd /verif && PYVC_REPO=$WT ./check $P 2>&1 | grep -v "WARNING\|^KNOWN" | cut -c1-260 | tail -6)
done
git -C /repo worktree remove --force $WT

