#!/usr/bin/env python3
"""Runs the current checks against every seeded change of /verif/seeded (scratch worktree of /repo HEAD per seed, removed
afterwards; the test suite and the demos were confirmed when the seed was recorded) and writes seeded/MATRIX.json.
usage: python3 tools/seed_matrix.py [-jN] [seed ids...]   (N seeds at a time, default 3)"""
import json, os, re, subprocess, sys, time
V = os.path.dirname(os.path.dirname(os.path.abspath(__file__)))
EXTRA = {'C04_1': ['C04', 'C11'], 'C11_1': ['C11', 'C04'], 'C18_2': ['C16', 'C18'], 'C03_2': ['C03', 'C07'], 'C16_1': ['C16', 'C18'],
         'C13_4': ['C13', 'C07'], 'C03_4': ['C03', 'C07'], 'C15_3': ['C15', 'C04'],
         'C11_3': ['C11', 'C15', 'C04'], 'C15_5': ['C15', 'C04', 'C11'], 'C15_6': ['C15', 'C04'], 'C11_5': ['C11', 'C10'], 'C11_6': ['C11', 'C10'],
         'C07_5': ['C07', 'C03'], 'C07_6': ['C07', 'C03'], 'C11_4': ['C11', 'C10'], 'C10_3': ['C10', 'C11'], 'C10_4': ['C10', 'C11']}
args_ = [a for a in sys.argv[1:] if not a.startswith('-j')]
JOBS = int(([a[2:] for a in sys.argv[1:] if a.startswith('-j')] or ['3'])[0])
seeds = args_ or sorted(d for d in os.listdir(os.path.join(V, 'seeded')) if os.path.isdir(os.path.join(V, 'seeded', d)))
mpath = os.path.join(V, 'seeded', 'MATRIX.json')
matrix = json.load(open(mpath)) if os.path.exists(mpath) else {}
def run_seed(sid):
    wt = '/tmp/sm_%s_%d' % (sid, os.getpid())
    subprocess.run(['git', '-C', '/repo', 'worktree', 'add', '-q', wt, 'HEAD'], check=True)
    try:
        subprocess.run('cp /repo/src/TotalDepth/LIS/core/*.so %s/src/TotalDepth/LIS/core/ 2>/dev/null' % wt, shell=True)
        r = subprocess.run(['git', '-C', wt, 'apply', os.path.join(V, 'seeded', sid, 'patch.diff')], capture_output=True, text=True)
        if r.returncode != 0:
            print(sid, 'PATCH DOES NOT APPLY', flush=True)
            return sid, {'applies': False, 'error': r.stderr[-300:]}
        res = {}
        for prop in EXTRA.get(sid, [sid.split('_')[0]]):
            t0 = time.time()
            env = dict(os.environ, PYVC_REPO=wt)
            p = subprocess.run([os.path.join(V, 'check'), prop], capture_output=True, text=True, env=env, cwd=V)
            lines = [l for l in p.stdout.split('\n') if re.match(r'^(VIOLATION|UNDECIDED|CHECKER-ERROR)', l)]
            how = set()
            for l in lines:
                if l.startswith('VIOLATION'):
                    rp = l.split('replay=')[1].split()[0].split('/')[-1]
                    if '.crosscheck.' in rp:
                        how.add('native test of a contract')
                    elif re.search(r'\.py_', rp):
                        how.add('obligation ' + rp[:-3].replace('.py_', '.py:', 1))
                    else:
                        how.add('stand-in ' + rp[:-3])
            res[prop] = {'exit': p.returncode, 'caught_by': sorted(how), 'lines': [l[:240] for l in lines][:6], 'seconds': round(time.time() - t0)}
            print(sid, prop, 'exit', p.returncode, sorted(how), flush=True)
        return sid, {'applies': True, 'checks': res}
    finally:
        subprocess.run(['git', '-C', '/repo', 'worktree', 'remove', '--force', wt])


from concurrent.futures import ThreadPoolExecutor
with ThreadPoolExecutor(JOBS) as ex:
    for sid, r in ex.map(run_seed, seeds):
        matrix[sid] = r
        json.dump(matrix, open(mpath, 'w'), indent=1, sort_keys=True)
