#!/usr/bin/env python3
"""Regenerates /verif/MANIFEST.json from the table below (run after adding a property check)."""
import json, os
HERE = os.path.dirname(os.path.dirname(os.path.abspath(__file__)))
props = [json.loads(l) for l in open(os.path.join(HERE, 'properties.jsonl'))]
BASE = "cd /repo && /venv/bin/python -m pytest -ra -q -p no:cacheprovider --timeout=900 --continue-on-collection-errors"

# id -> (category, text, level_note, technique, design_ref)
CLAIMS = json.load(open(os.path.join(HERE, 'tools', 'claims.json')))
NA = json.load(open(os.path.join(HERE, 'tools', 'not_applicable.json')))

checks = []
for p in props:
    pid = p['id']
    if pid not in CLAIMS:
        continue
    c = CLAIMS[pid]
    checks.append({
        "property_id": pid,
        "quick_cmd": "./check %s --tier quick" % pid,
        "thorough_cmd": "./check %s --tier thorough" % pid,
        "evidence_file": "/verif/evidence/%s.json" % pid,
        "replay_cmd_template": "/venv/bin/python {path}",
        "engine": "pyvc",
        "level_claimed": {"category": c['category'], "text": c['text'], "design_ref": c.get('design_ref', 'DESIGN.md §7 ' + pid)},
        "level_note": c['level_note'],
        "technique": c['technique'],
    })
m = {
    "version": 1,
    "setup_cmd": "python3-vt -c 'import z3, sys; sys.path.insert(0, \"/verif\"); import pyvc.engine' && /venv/bin/python -c 'import sys; sys.path.insert(0, \"/verif\"); import pyvc.native'",
    "hooks": {"guard": "PAULROSS_TOTALDEPTH_VERIF", "enable": "no hooks: contracts are sidecar files under /verif/contracts, the repository is read with ast on every run",
              "baseline_off_cmd": BASE, "source_commits": [], "add_only": True},
    "engines": [{"name": "pyvc", "path": "/verif/pyvc", "serves_properties": [c['property_id'] for c in checks],
                 "kind_free_text": "self-built deductive verifier: ast of the real functions + sidecar contracts -> verification conditions -> z3 5.1 (python3-vt) with /usr/bin/cvc5 as second back end; replay and bounded stand-ins under /venv/bin/python"}],
    "checks": checks,
    "not_applicable": [{"property_id": p['id'], "reason": NA.get(p['id'], "check not built yet (build in progress)")} for p in props if p['id'] not in CLAIMS],
    "notes": "Exit codes of ./check: 0 all obligations discharged; 1 VIOLATION; 2 undecided (never a VIOLATION line); 3 checker error. Known findings: /verif/known_findings.jsonl.",
}
json.dump(m, open(os.path.join(HERE, 'MANIFEST.json'), 'w'), indent=1)
print('checks:', [c['property_id'] for c in checks])
