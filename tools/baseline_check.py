#!/usr/bin/env python3
"""Runs the repository's baseline suite on /repo (guard off) and compares with /root/.vp/BASELINE.json."""
import json, subprocess, sys, xml.etree.ElementTree as ET, tempfile, os
repo = sys.argv[1] if len(sys.argv) > 1 else '/repo'
out = tempfile.mktemp(suffix='.xml')
subprocess.run('cd %s && /venv/bin/python -m pytest -ra -q -p no:cacheprovider --timeout=900 --continue-on-collection-errors --junitxml=%s > %s.log 2>&1' % (repo, out, out), shell=True)
sp = set(json.load(open('/root/.vp/BASELINE.json'))['stable_pass'])
res = {}
for tc in ET.parse(out).iter('testcase'):
    res[tc.get('classname') + '::' + tc.get('name')] = not any(c.tag in ('failure', 'error', 'skipped') for c in tc)
missing = [n for n in sp if n not in res]
failed = [n for n in sp if n in res and not res[n]]
newfail = [n for n, ok in res.items() if not ok and n not in sp]
print('%d baseline tests: %d missing, %d failed; %d total passed' % (len(sp), len(missing), len(failed), sum(res.values())))
for n in (missing + failed)[:20]:
    print('  ', n)
os.unlink(out)
sys.exit(1 if missing or failed else 0)
