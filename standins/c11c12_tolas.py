#!/venv/bin/python
"""Bounded stand-in checks for properties C11 and C12 (conversion of RP66V1, LIS and BIT files to LAS).

Run as:  /venv/bin/python /verif/standins/c11c12_tolas.py --seed <int> --cases <int> [--part {c11,c12,both}]

Part c11 - conversion to LAS keeps exactly the selected frames, channels and values
    Every case builds one source file (RP66V1, LIS, BIT in turn) with the independent encoders of /verif/gen (see
    gen.c11_sources) and converts it several times with the REAL
        TotalDepth.RP66V1.ToLAS.single_rp66v1_file_to_las / TotalDepth.LIS.ToLAS.single_lis_file_to_las /
        TotalDepth.BIT.ToLAS.single_bit_path_to_las_path
    into a fresh directory, each time with another frame selection (Slice(start, stop, step) with start / stop None,
    negative, inside, beyond the end, step None, 1, > 1, > length, negative; Sample(N), N = 1 .. length + 2), channel
    subset (all, any subset of the non-index channels, with / without the index channel named, with a name that does not
    exist), reduction method (first, mean, median, min, max), field width (8 .. 32) and decimal format (.0f .. .10f,
    .3e, .6g ...).  Every output is parsed with TotalDepth.LAS.core.LASRead.LASRead and compared with what the generator
    wrote:
      * the result tuple says converted (no exception, not ignored), las_count = number of log passes, and the output
        directory holds exactly one LAS file per log pass under the expected name (an RP66V1 logical file without frame
        data may give a header-only LAS file);
      * curve section and data section list exactly the index channel + the requested channels, in source order, with
        the source units;
      * the data section has exactly the selected frames: for Slice the rows of Python list slicing, in that order; for
        Sample(N) at most N rows that are source frames in increasing order starting with frame 0;
      * EVERY value of EVERY row is within print precision of reduce(source values of that frame and channel): the
        difference (exact rational arithmetic) is at most half a unit of the last printed digit (+ half an ulp of the
        double LASRead makes of the text, + for mean / median the rounding of the reduction in the channel's number type);
      * well section: STRT = X of the first row written, STOP = X of the last row written, STEP = (last - first) / (rows -
        1) when there is more than one row (exactly as doubles where the converter prints repr, within print precision
        where it prints with the decimal format).

    Deliberate limits of the generated inputs (not findings): mnemonics, units, frame array names and header texts are
    LAS-safe (letters, digits, '/'; no '.', ':', blanks); the X axis is strictly monotonic and the decimal format of a
    conversion is re-drawn until it keeps all X values distinct (LASRead refuses duplicate index values); no NaN / infinity;
    RP66V1 VSINGL and LIS code 70 values stay in the ranges the readers decode correctly (findings of C03 / C06 / C07); BIT
    reduction is always 'first' (all BIT channels are scalar); an RP66V1 ORIGIN set carries the complete standard template.

Part c12 - batch conversion isolates bad files and is independent of job scheduling
    Every case builds a directory of 3 .. 8 files: valid RP66V1 / LIS / BIT files and damaged ones (truncated at a random
    byte, 1 .. 3 bits flipped anywhere, bits flipped in the first 100 bytes, header bytes overwritten, empty, foreign
    formats: LAS text, XML, PDF / ZIP magic, random bytes, plain text) under random names (so good and bad files come in any
    order both alphabetically and by size) and converts it with one of the three converters
      (a) sequentially: WriteLAS.convert_dir_or_file_to_las(directory),
      (b) with convert_dir_or_file_to_las_multiprocessing(jobs = 1, 2, 4, 16),
      (c) file by file: convert_dir_or_file_to_las(file) for each file into a fresh directory.
    Checked: no call raises or hangs; every result dict has exactly the input paths as keys and result.path_input = key;
    a file that is certainly not convertible (empty, foreign, other format than the converter's) is reported failed or
    ignored; a valid file of the converter's format is reported converted with the expected number of LAS files,
    whatever stands before or after it; result tuples (type, sizes, count, flags) and the output tree (relative names and
    contents without the CREA. line) are identical in (a), every (b) and (c).

Last line of stdout: {"cases": .., "nontrivial": .., "bad": [..]}; exit status 1 iff bad is not empty.
"""
import os
import sys

sys.path[:0] = ['/verif', os.path.join(os.environ.get('PYVC_REPO', '/repo'), 'src')]

import argparse
import decimal
import json
import logging
import math
import random
import signal
import tempfile
import time
import traceback
import warnings
from fractions import Fraction

logging.disable(logging.CRITICAL)
warnings.simplefilter('ignore')

import numpy as np  # noqa: E402

from gen import c11_sources as S  # noqa: E402

import TotalDepth  # noqa: E402
from TotalDepth.LAS.core import LASRead, WriteLAS  # noqa: E402
from TotalDepth.common import Slice  # noqa: E402
import TotalDepth.RP66V1.ToLAS as RP66V1_ToLAS  # noqa: E402
import TotalDepth.LIS.ToLAS as LIS_ToLAS  # noqa: E402
import TotalDepth.BIT.ToLAS as BIT_ToLAS  # noqa: E402

# ----------------------------------------------------------------------------------------------------------------------
# Input classes on which the UNCHANGED repository violates the property (each confirmed natively; minimal witnesses in the
# comments).  An entry switches off exactly the named class; remove an entry (or run with --no-known) to see the failures.
# One entry per converter and symptom.
# ----------------------------------------------------------------------------------------------------------------------
KNOWN_FINDINGS = [
    # ---- RP66V1 ------------------------------------------------------------------------------------------------------
    # RP66V1/ToLAS._add_start_stop_step_to_dictionary takes STOP from iflr_data[frame_slice.last(n)] and STEP from
    # (STOP - STRT) / (count - 1).  Slice.last(n) = step * (stop // step) - 1 and Sample.last(n) = n - N are not the last
    # selected index in general.  13 frames, Slice(None, None, 3): rows 0, 3, 6, 9, 12 are written, STOP is the X of frame
    # 11 and STEP (x[11] - x[0]) / 4.  Sample(2) of 7 frames: rows 0, 3, STOP is x[5].  Slice(None, None, -1): rows
    # reversed, STOP is x[n - 2].  Excluded: the STOP and STEP comparison of RP66V1 conversions whose selection has
    # Slice.last / Sample.last (the formulas above, re-implemented here) different from the last selected index.
    'rp66v1-stop-step-from-slice-last',
    # An empty selection (Slice(5, 2), Slice(n, None), ...) is not converted to a LAS file without data rows: the
    # converter raises (ExceptionFrameArray 'Number of frames must be > 0' from populate_frame_array, or IndexError in
    # _add_start_stop_step_to_dictionary when first(n) == n) and the result says exception.  Excluded: empty selections on
    # RP66V1 (the conversion is still run; it must give the exception result or a LAS file without data rows).
    'rp66v1-empty-selection-raises',
    # ---- LIS ---------------------------------------------------------------------------------------------------------
    # LIS/ToLAS.write_well_information_section reads log_pass.null_value; TotalDepth.LIS.core.LogPass.LogPass has only
    # nullValue: AttributeError for EVERY LIS file that has a log pass (also /repo/example_data/LIS/data/*.LIS), the result
    # says exception, the LAS file stops after the ~Version section.  Excluded: with this entry a LIS conversion that
    # reports exception with las_count 0 is accepted as is; a LIS conversion that does succeed is checked in full.
    # (repaired in /repo by 'fix: LIS ToLAS reads LogPass.nullValue': the exclusion lis-null-value-attribute is no longer active)
    # A non-empty channel set is handed to LogPass.setFrameSet(theChList=...) which wants a list of channel indexes:
    # AttributeError "'set' object has no attribute 'append'" (FrameSet), result says exception.  Excluded: LIS conversions
    # with a non-empty channel set (run; the exception result is accepted).
    'lis-channel-subset-raises',
    # STRT / STOP are the first / last X of the whole log pass whatever the frame selection (xAxisFirstValOptical /
    # xAxisLastValOptical): 20 frames X = 3684.5, 3682.0 ..., Slice(2, None, 3) writes rows 3679.5 .. 3642.0 under
    # STRT 3684.5 STOP 3637.0.  Excluded: STRT comparison when the first row is not frame 0, STOP comparison when the last
    # row is not the last frame.
    'lis-strt-stop-ignore-selection',
    # The frames are read with slice(first, last + 1, step) where last = Slice.last(n) / Sample.last(n) (see above): 10
    # frames, Slice(None, None, 3) gives rows 0, 3, 6 and drops 9.  Excluded: LIS conversions whose selection differs from
    # range(first, last + 1, step) with the repository's last(); then only "rows are a prefix of the selection" is checked.
    'lis-frames-from-slice-last',
    # A negative step raises ExceptionFrameSetPlan ('Negative frame step'), the result says exception; when the selection
    # takes at most one frame from each data record (9 frames in records of 5 and 4, Slice(None, 0, -6): frames 8, 2) no
    # step is ever applied inside a record, nothing raises and the rows hold values read from the wrong place (TI -9336.0
    # where the source has -25.0).  Excluded: LIS conversions with a negative step (run; not judged).
    'lis-negative-step-raises',
    # single_lis_file_to_las starts a new LAS file only at a CONS table: a logical file (header, DFSR, data, trailer)
    # without a CONS table is merged into the previous one and LisLogicalFile.add_index keeps the FIRST log pass, so the
    # log pass is silently dropped (file of two logical files, the second without CONS table: one LAS file, las_count 1).
    # Excluded: the generator gives every LIS logical file a CONS table.
    'lis-log-pass-without-cons-table-dropped',
    # A log pass whose frames are all in ONE data record: Rle.frameSpacing() is None (it is derived from the X values at
    # the head of the first and the last record), xAxisLastFrame() is None, and the well section says STOP 0.000 and
    # STEP 0.000 (3 frames X = 5783.875, 5783.625, 5783.375 in one record: STRT 5783.875 STOP 0.000 STEP 0.000).
    # Excluded: STOP and STEP comparison of LIS log passes with a single data record.
    'lis-stop-step-single-data-record',
    # Implied X axis, stepped selection: X of frames of a data record (not the first loaded) whose first selected frame is
    # not the record's first frame is extrapolated from the previous record (finding of C06, LogPass.setFrameSet).
    # Excluded: the X column comparison of exactly those rows (and STOP when the last row is one of them).
    'lis-implied-x-stepped-slice-record-entry',
    # Data columns are written as f'{text:>{field_width}}' without a separator: a value whose text is as wide as the field
    # runs into its left neighbour (field width 8, values 1234.125 and -5000.250 -> '1234.125-5000.250').  Excluded: LIS
    # conversions in which the text of some value after the first column is at least field_width characters wide.
    'lis-columns-run-together',
    # ---- batch (C12) -------------------------------------------------------------------------------------------------
    # WriteLAS._add_x_axis_to_channels_to_write adds the index channel's name to the caller's channel set IN PLACE and
    # convert_dir_or_file_to_las hands the same set object to every file: in a sequential batch with a non-empty channel
    # set every file after the first is converted with a larger set than the one requested (worker processes get a pickled
    # copy per file, so jobs=N is not affected).  Visible (a) always: the comment line '# Requested Channels in this LAS
    # file [n]: ...' lists the index channel from the second file on (sizes differ by a few bytes); (b) RP66V1, two files,
    # the first with index channel DEPT, the second with index TIME and an ordinary channel DEPT, channels={'GR'}: the
    # second LAS file has a DEPT column in the sequential batch and none when converted alone or by worker processes.
    # Excluded: channel names are unique across the files of a directory (so (b) cannot happen), and for sequential
    # batches with a non-empty channel set that comment line and result.size_output are not compared.
    # (repaired in /repo by 'fix: sequential directory conversion ... own copy of the channel set': the exclusion
    # batch-channel-set-grows-across-files is no longer active)
    # ---- BIT ---------------------------------------------------------------------------------------------------------
    # bit_frame_array_to_las_file slices every channel with array[first : last + 1 : step], last = Slice.last(n) /
    # Sample.last(n): 4 frames, Slice(None, None, 3) writes row 0 only (rows 0, 3 selected).  Excluded: BIT conversions
    # whose selection differs from range(first, last + 1, step) with the repository's last(); then only "rows are a prefix
    # of the selection" is checked (STRT / STOP / STEP against the rows actually written stay checked).
    'bit-frames-from-slice-last',
    # A negative step: first > last, the sliced arrays are empty, IndexError in x_axis.array[0]; result says exception.
    # Excluded: BIT conversions with a negative step (run; the exception result is accepted).
    'bit-negative-step-raises',
    # The step line of the well section has the mnemonic STRP instead of STEP.  With this entry STRP is read as STEP.
    'bit-step-mnemonic-strp',
    # ReadBIT.gen_floats divides the 24 bit mantissa by 0xffffff instead of 0x1000000 (finding of C07 / C13): every non-zero
    # frame value is 1 + 2**-24 times too large.  With this entry the value comparison of BIT channels allows |v| * 2**-23.
    'bit-gen-floats-divisor',
]
ACTIVE = set(KNOWN_FINDINGS)

MAX_BAD = 5
REDUCTIONS = ['first', 'mean', 'median', 'min', 'max']
CONVERTERS = {
    'RP66V1': RP66V1_ToLAS.single_rp66v1_file_to_las,
    'LIS': LIS_ToLAS.single_lis_file_to_las,
    'BIT': BIT_ToLAS.single_bit_path_to_las_path,
}
EXTENSION = {'RP66V1': '.dlis', 'LIS': '.lis', 'BIT': '.bit'}


class Mismatch(Exception):
    def __init__(self, what, **detail):
        super().__init__(what)
        self.what, self.detail = what, detail


class Skip(Exception):
    """The conversion belongs to a class excluded by KNOWN_FINDINGS."""
    def __init__(self, finding):
        super().__init__(finding)
        self.finding = finding


def jsonable(v):
    if isinstance(v, (bytes, bytearray)):
        return 'hex:' + bytes(v[:64]).hex()
    if isinstance(v, Fraction):
        return repr(float(v))
    if isinstance(v, float):
        return repr(v)
    if isinstance(v, (list, tuple, set, frozenset)):
        return [jsonable(x) for x in list(v)[:16]]
    if isinstance(v, dict):
        return {str(k): jsonable(x) for k, x in v.items()}
    if isinstance(v, (int, str, bool)) or v is None:
        return v
    return repr(v)[:160]


# ----------------------------------------------------------------------------------------------------------------------
# frame selections
class Selection:
    """A frame selection: what to hand to the converter and which rows Python semantics select."""
    def __init__(self, kind, args):
        self.kind, self.args = kind, args

    def make(self):
        return Slice.Slice(*self.args) if self.kind == 'slice' else Slice.Sample(*self.args)

    def rows(self, n):
        """Slice: the selected frame indexes (Python list slicing).  Sample: None (any increasing sequence from 0)."""
        if self.kind == 'slice':
            return list(range(n))[slice(*self.args)]
        return None

    def step_sign(self):
        return -1 if self.kind == 'slice' and self.args[2] is not None and self.args[2] < 0 else 1

    def repo_first_last_step(self, n):
        """first(n), last(n), step(n) by the formulas of common/Slice.py (re-implemented: used only to delimit the input
        classes of the KNOWN_FINDINGS that come from last())."""
        if self.kind == 'slice':
            a, b, c = slice(*self.args).indices(n)
            return a, c * (b // c) - 1, c
        size = self.args[0]
        if size >= n:
            return 0, n - 1, 1
        return 0, n - size, n // size

    def describe(self):
        return '%s(%s)' % ('Slice' if self.kind == 'slice' else 'Sample', ','.join(str(a) for a in self.args))


def random_selection(rnd, n):
    k = rnd.random()
    if k < 0.1:
        return Selection('slice', (None, None, None))
    if k < 0.3:
        return Selection('sample', (rnd.randint(1, n + 2),))
    if k < 0.45:
        return Selection('slice', (rnd.choice([None, 0]), None, rnd.randint(2, n + 1)))
    bounds = [None] + list(range(-n - 2, n + 3))
    a = rnd.choice([None, 0, rnd.choice(bounds), rnd.randint(0, n)])
    b = rnd.choice([None, n, rnd.choice(bounds), rnd.randint(0, n), rnd.randint(0, n)])
    c = rnd.choice([None, 1, 1, 1, 2, 3, rnd.randint(1, n + 1), rnd.randint(1, n + 1), -1, -rnd.randint(1, n + 1)])
    return Selection('slice', (a, b, c))


def random_subset(rnd, p):
    """A channel set for the converter: empty (= all) or names."""
    keys = [c.key for c in p.channels[1:] if c.key is not None]
    k = rnd.random()
    if k < 0.4 or not p.channels:
        return set()
    sub = set(rnd.sample(keys, rnd.randint(0, len(keys)))) if keys else set()
    if rnd.random() < 0.3 and p.channels[0].key is not None:
        sub.add(p.channels[0].key)
    if rnd.random() < 0.25 or not sub:
        sub.add('NOSUCH')
    return sub


FORMATS = ['.3f', '.3f', '.0f', '.1f', '.2f', '.4f', '.6f', '.10f', '.3e', '.8e', '.6g', '.12g']


def format_unit(fmt, p):
    """Half a unit of the last digit that format `fmt` prints for a number near the double p, as a Fraction."""
    digits = int(fmt[1:-1])
    kind = fmt[-1]
    if kind == 'f':
        return Fraction(1, 2 * 10 ** digits)
    if p == 0 or math.isinf(p) or math.isnan(p):
        return Fraction(0)
    adj = decimal.Decimal(p).adjusted()           # floor(log10(|p|))
    if kind == 'e':
        e = adj - digits
    else:                                         # 'g': digits significant digits (0 counts as 1)
        e = adj - (max(digits, 1) - 1)
    return Fraction(10) ** e / 2


# ----------------------------------------------------------------------------------------------------------------------
# reduction oracle (exact)
def reduce_exact(values, method):
    """values: list of Fraction.  Returns (exact result, True when the result is one of the values)."""
    if method == 'first':
        return values[0], True
    if method == 'min':
        return min(values), True
    if method == 'max':
        return max(values), True
    if method == 'mean':
        return sum(values) / len(values), len(values) == 1
    s = sorted(values)
    m = len(s)
    if m % 2:
        return s[m // 2], True
    return (s[m // 2 - 1] + s[m // 2]) / 2, False


def value_tolerance(kind, chan, values, exact_pick, fmt, parsed, integer_format):
    """Allowed |parsed - exact| as a Fraction."""
    f = '.0f' if integer_format else fmt
    tol = format_unit(f, parsed)
    if not (math.isinf(parsed) or math.isnan(parsed)):
        tol += Fraction(math.ulp(parsed)) / 2
    big = max(abs(v) for v in values)
    if not exact_pick:
        eps = chan.rel_eps if not chan.integer else 2.0 ** -52
        tol += big * Fraction(eps) * (len(values) + 1)
    if kind == 'BIT' and 'bit-gen-floats-divisor' in ACTIVE and chan.key != 'X   ':
        tol += big * Fraction(1, 2 ** 23)
    return tol


# ----------------------------------------------------------------------------------------------------------------------
# reading a LAS file back
def read_las(path):
    try:
        return LASRead.LASRead(path)
    except Exception as err:
        with open(path, errors='replace') as f:
            text = f.read()
        raise Mismatch('LAS file is not readable by LASRead', exception=repr(err)[:200], file=os.path.basename(path), tail=text[-400:])


def las_table(las):
    """(names, units, rows): rows is a list of lists of float."""
    fa = las.frame_array if las.has_section('A') else None
    if fa is None or len(fa.channels) == 0:
        return [], [], []
    names = [str(c.ident).strip() for c in fa.channels]
    units = [str(c.units).strip() for c in fa.channels]
    n = len(fa.x_axis.array) if len(fa.channels) else 0
    rows = []
    for i in range(n):
        row = []
        for c in fa.channels:
            if c.array.shape[0] != n:
                raise Mismatch('LAS channels of different length', channel=str(c.ident), got=int(c.array.shape[0]), expected=n)
            row.append(float(np.asarray(c.array[i]).reshape(-1)[0]))
        rows.append(row)
    return names, units, rows


def well_value(las, mnem):
    if not las.has_section('W'):
        return None
    w = las['W']
    try:
        return w[mnem].valu
    except Exception:
        return None


# ----------------------------------------------------------------------------------------------------------------------
def lis_text_width(v, fmt):
    return len(format(float(v), fmt))


def check_pass(kind, p, las_path, sel, subset, reduction, width, fmt, stats):
    """Complete comparison of one LAS file with the log pass model p."""
    las = read_las(las_path)
    n = p.nframes
    ctx = dict(las_file=os.path.basename(las_path))
    names, units, rows = las_table(las)
    if n == 0:
        if rows:
            raise Mismatch('data rows for a logical file without frame data', rows=len(rows), **ctx)
        return
    rows_exp = sel.rows(n)
    empty = rows_exp is not None and len(rows_exp) == 0
    # ---- columns
    want = [p.channels[0]] + [c for c in p.channels[1:] if not subset or c.key in subset]
    if kind == 'LIS':
        want = list(p.channels)           # (a non-empty subset does not get here while 'lis-channel-subset-raises' is listed)
        if subset:
            want = [c for c in p.channels if c.key is None or c.key in subset or c is p.channels[0]]
    if empty:
        if rows:
            raise Mismatch('rows written for an empty selection', rows=len(rows), **ctx)
        stats['empty_selections'] += 1
        return
    if names != [c.name for c in want]:
        raise Mismatch('LAS channels differ from index channel + requested channels', got=names, expected=[c.name for c in want],
                       requested=sorted(subset), **ctx)
    if kind != 'BIT' and units != [c.units for c in want]:
        raise Mismatch('LAS channel units differ', got=units, expected=[c.units for c in want], **ctx)
    if las.has_section('C'):
        curve = [str(m).strip() for m in las['C'].mnemonics()]
        if curve != [c.name for c in want]:
            raise Mismatch('curve section differs from index channel + requested channels', got=curve,
                           expected=[c.name for c in want], **ctx)
    else:
        raise Mismatch('no curve section', **ctx)
    # ---- which frames
    prefix_only = False
    if rows_exp is not None:
        first, last, step = sel.repo_first_last_step(n)
        repo_rows = list(range(n))[first:last + 1:step] if step > 0 else None
        if kind == 'LIS' and 'lis-frames-from-slice-last' in ACTIVE and repo_rows != rows_exp:
            prefix_only = True
        if kind == 'BIT' and 'bit-frames-from-slice-last' in ACTIVE and repo_rows != rows_exp:
            prefix_only = True
        if prefix_only:
            stats['known:frames-from-slice-last'] += 1
            if len(rows) > len(rows_exp):
                raise Mismatch('more rows than selected frames', got=len(rows), expected=len(rows_exp), **ctx)
            frame_of_row = rows_exp[:len(rows)]
        else:
            if len(rows) != len(rows_exp):
                raise Mismatch('number of data rows differs from number of selected frames', got=len(rows), expected=len(rows_exp),
                               selected=rows_exp, got_x=[r[0] for r in rows][:20], **ctx)
            frame_of_row = rows_exp
    else:
        size = sel.args[0]
        if len(rows) > size:
            raise Mismatch('Sample(N) wrote more than N rows', got=len(rows), N=size, **ctx)
        if len(rows) == 0:
            raise Mismatch('Sample(N) wrote no rows', N=size, **ctx)
        frame_of_row = None
    # ---- known class of LIS implied X
    skip_x = set()

    def lis_x_known(frames):
        if not (kind == 'LIS' and p.implied and 'lis-implied-x-stepped-slice-record-entry' in ACTIVE):
            return set()
        out = set()
        by_rec = {}
        for i, f in enumerate(frames):
            by_rec.setdefault(p.rec_of[f], []).append(i)
        for r in sorted(by_rec)[1:]:
            if frames[by_rec[r][0]] != p.rec_first[r]:
                out.update(by_rec[r])
        return out

    # ---- values
    def row_matches(row, f, with_x=True):
        """None when row equals frame f in every column, else a description of the first difference."""
        for j, c in enumerate(want):
            if j == 0 and not with_x:
                continue
            vals = c.frames[f]
            exact, pick = reduce_exact(vals, reduction if kind != 'BIT' else 'first')
            integer_format = c.integer and kind != 'LIS'
            tol = value_tolerance(kind, c, vals, pick, fmt, row[j], integer_format)
            if math.isnan(row[j]) or math.isinf(row[j]) or abs(Fraction(row[j]) - exact) > tol:
                return dict(column=c.name, frame=f, got=repr(row[j]), expected=repr(float(exact)), tolerance=repr(float(tol)),
                            source_values=[repr(float(v)) for v in vals][:8])
        return None

    if frame_of_row is None:
        # Sample: greedy match of the rows to an increasing sequence of frames, the first row to frame 0
        frame_of_row = []
        nxt = 0
        for i, row in enumerate(rows):
            found = None
            for f in ([0] if i == 0 else range(nxt, n)):
                loose_x = kind == 'LIS' and p.implied and 'lis-implied-x-stepped-slice-record-entry' in ACTIVE and i > 0
                if row_matches(row, f, with_x=not loose_x) is None:
                    found = f
                    break
            if found is None:
                raise Mismatch('Sample(N): a row is not a source frame after the previous row\'s frame' if i else
                               'Sample(N): the first row is not the first frame', row=i, got=row[:8], after_frame=nxt - 1,
                               first_frame_difference=row_matches(row, 0) if i == 0 else None, **ctx)
            frame_of_row.append(found)
            nxt = found + 1
        stats['sample_conversions'] += 1
    skip_x = lis_x_known(frame_of_row)
    for i, (row, f) in enumerate(zip(rows, frame_of_row)):
        d = row_matches(row, f, with_x=i not in skip_x)
        if d is not None:
            raise Mismatch('value differs from the source by more than the print precision', row=i, rows_selected=frame_of_row[:20], **d,
                           **ctx)
        stats['values'] += len(want)
    stats['rows'] += len(rows)
    if skip_x:
        stats['known:lis-implied-x'] += 1
    # ---- well section
    if not rows:
        return
    xs = p.channels[0].frames
    x_first, x_last = xs[frame_of_row[0]][0], xs[frame_of_row[-1]][0]
    strt, stop = well_value(las, 'STRT'), well_value(las, 'STOP')
    step = well_value(las, 'STEP')
    if step is None and kind == 'BIT' and 'bit-step-mnemonic-strp' in ACTIVE:
        step = well_value(las, 'STRP')
        stats['known:bit-strp'] += 1
    by_format = kind == 'LIS'           # LIS prints the three numbers with the decimal format, the others with repr()

    def close(got, exact, what, extra=Fraction(0)):
        if isinstance(got, bool) or not isinstance(got, (int, float)):
            raise Mismatch('well section %s is not a number' % what, got=repr(got), expected=repr(float(exact)), **ctx)
        g = float(got)
        tol = Fraction(abs(float(exact))) * Fraction(1, 10 ** 12) + extra
        if by_format:
            tol += format_unit(fmt, g) + Fraction(math.ulp(g)) / 2
        if math.isnan(g) or math.isinf(g) or abs(Fraction(g) - exact) > tol:
            raise Mismatch('well section %s differs from the rows written' % what, got=repr(g), expected=repr(float(exact)),
                           first_row_x=repr(float(x_first)), last_row_x=repr(float(x_last)), rows=len(rows),
                           frames_of_rows=frame_of_row[:20], **ctx)

    check_strt = check_stop = check_step = True
    if kind == 'LIS' and 'lis-strt-stop-ignore-selection' in ACTIVE:
        if frame_of_row[0] != 0:
            check_strt = False
        if frame_of_row[-1] != n - 1:
            check_stop = False
        if not (check_strt and check_stop):
            stats['known:lis-strt-stop'] += 1
    if kind == 'LIS' and (len(rows) - 1) in skip_x:
        check_stop = False
    if kind == 'LIS' and 'lis-stop-step-single-data-record' in ACTIVE and len(p.info['frames_per_record']) == 1:
        check_stop = check_step = False
        stats['known:lis-single-record'] += 1
    if kind == 'RP66V1' and 'rp66v1-stop-step-from-slice-last' in ACTIVE:
        _first, last, _step = sel.repo_first_last_step(n)
        if last % n != frame_of_row[-1]:          # (a negative last() indexes the frame list from the end)
            check_stop = check_step = False
            stats['known:rp66v1-stop'] += 1
    if check_strt:
        close(strt, x_first, 'STRT')
    if check_stop:
        close(stop, x_last, 'STOP')
    if check_step and len(rows) > 1:
        mean = (x_last - x_first) / (len(rows) - 1)
        # the converters compute the mean spacing in the number type of the X channel
        close(step, mean, 'STEP', extra=abs(mean) * Fraction(max(1e-9, 4 * p.channels[0].rel_eps)))
    stats['well_sections'] += 1


def convert_and_check(kind, src, path_in, out_dir, sel, subset, reduction, width, fmt, stats):
    """One conversion of the whole source file and the comparison of every LAS file it has to produce."""
    fn = CONVERTERS[kind]
    path_out = os.path.join(out_dir, os.path.basename(path_in))
    try:
        res = fn(path_in, reduction, path_out, sel.make(), set(subset), width, fmt)
    except Exception as err:
        tb = traceback.extract_tb(err.__traceback__)
        raise Mismatch('the converter raised', exception=repr(err)[:200],
                       at=['%s:%d %s' % (os.path.basename(f.filename), f.lineno, f.name) for f in tb[-3:]])
    written = sorted(os.listdir(out_dir)) if os.path.isdir(out_dir) else []
    if kind == 'LIS' and 'lis-negative-step-raises' in ACTIVE and sel.step_sign() < 0:
        # negative steps are not supported by the LIS frame set plan: usually ExceptionFrameSetPlan, but a selection that
        # takes at most one frame per data record gets through and reads the wrong bytes (see KNOWN_FINDINGS)
        stats['known:lis-negative-step-raises'] += 1
        raise Skip('lis-negative-step-raises')
    # ---- classes in which the known symptom is "the result says exception"
    if res.exception:
        def accept(finding):
            stats['known:' + finding] += 1
            raise Skip(finding)
        if kind == 'LIS':
            if 'lis-null-value-attribute' in ACTIVE and res.las_count == 0:
                accept('lis-null-value-attribute')
            if 'lis-channel-subset-raises' in ACTIVE and subset:
                accept('lis-channel-subset-raises')
            if 'lis-negative-step-raises' in ACTIVE and sel.step_sign() < 0:
                accept('lis-negative-step-raises')
        if kind == 'BIT' and 'bit-negative-step-raises' in ACTIVE and sel.step_sign() < 0:
            accept('bit-negative-step-raises')
        if kind == 'BIT' and 'bit-frames-from-slice-last' in ACTIVE and sel.step_sign() > 0:
            # array[first : last + 1 : step] is empty although frames are selected: IndexError in x_axis.array[0]
            for p in src.passes:
                first, last, step = sel.repo_first_last_step(p.nframes)
                if sel.kind == 'slice' and sel.rows(p.nframes) and not list(range(p.nframes))[first:last + 1:step]:
                    accept('bit-frames-from-slice-last')
        if kind == 'RP66V1' and 'rp66v1-empty-selection-raises' in ACTIVE and sel.kind == 'slice' \
                and any(p.nframes and not sel.rows(p.nframes) for p in src.passes):
            accept('rp66v1-empty-selection-raises')
        if kind == 'RP66V1' and 'rp66v1-stop-step-from-slice-last' in ACTIVE:
            # Slice.last(n) is not even an index of the frame list: iflr_data[last] raises IndexError
            # (1 frame, Slice(None, -2, -1): frame 0 is selected, last() is -2)
            for p in src.passes:
                if p.nframes and not -p.nframes <= sel.repo_first_last_step(p.nframes)[1] < p.nframes:
                    accept('rp66v1-stop-step-from-slice-last')
        raise Mismatch('the conversion of a valid file reports an exception', result=list(res)[1:5], written=written)
    if res.ignored:
        raise Mismatch('a valid file is ignored', file_type=res.binary_file_type)
    if res.path_input != path_in:
        raise Mismatch('result.path_input', got=res.path_input, expected=path_in)
    required, optional = {}, {}
    for p in src.passes:
        name = os.path.basename(p.suffix(path_out) if callable(p.suffix) else path_out + p.suffix)
        (required if p.nframes else optional)[name] = p
    missing = [nm for nm in required if nm not in written]
    extra = [nm for nm in written if nm not in required and nm not in optional]
    if missing or extra:
        raise Mismatch('LAS files written differ from one per log pass', missing=missing, unexpected=extra, written=written,
                       las_count=res.las_count)
    if res.las_count != len(written):
        raise Mismatch('result.las_count differs from the number of files written', got=res.las_count, written=written)
    if kind == 'LIS' and 'lis-columns-run-together' in ACTIVE:
        for p in src.passes:
            for c in p.channels[2:] if p.implied else p.channels[1:]:      # columns that have a left neighbour without a blank
                for vals in c.frames:
                    exact, _pick = reduce_exact(vals, reduction)
                    if lis_text_width(exact, fmt) >= width:
                        stats['known:lis-columns-run-together'] += 1
                        raise Skip('lis-columns-run-together')
    for name in written:
        p = required.get(name) or optional[name]
        try:
            check_pass(kind, p, os.path.join(out_dir, name), sel, subset, reduction, width, fmt, stats)
        except Mismatch as m:
            m.detail.setdefault('log_pass', p.summary())
            raise
    stats['conversions'] += 1


def format_resolves_x(kind, src, fmt):
    """True when all X values of every log pass stay distinct when printed with the format."""
    for p in src.passes:
        if not p.nframes:
            continue
        x = p.channels[0]
        f = '.0f' if (x.integer and kind != 'LIS') else fmt
        texts = set(float(format(float(v[0]), f)) for v in x.frames)
        if len(texts) != p.nframes:
            return False
    return True


def run_c11_case(seed, case, stats, tmp):
    rnd = random.Random('c11:%d:%d' % (seed, case))
    kind = ('RP66V1', 'LIS', 'BIT')[case % 3]
    if kind == 'RP66V1':
        src = S.dlis_source(rnd)
    elif kind == 'LIS':
        src = S.lis_source(rnd, cons='always' if 'lis-log-pass-without-cons-table-dropped' in ACTIVE else 'mostly')
    else:
        src = S.bit_source(rnd)
    stem = ''.join(rnd.choice(S.LETTERS) for _ in range(6))
    case_dir = os.path.join(tmp, 'c11_%d' % case)
    os.makedirs(os.path.join(case_dir, 'in'))
    path_in = os.path.join(case_dir, 'in', stem + EXTENSION[kind])
    with open(path_in, 'wb') as f:
        f.write(src.data)
    live = [p for p in src.passes if p.nframes]
    n_conv = 8
    fails = []
    checked = 0
    for k in range(n_conv):
        ref = rnd.choice(live) if live else None
        n = ref.nframes if ref else 1
        if k == 0:
            sel, subset, reduction, width, fmt = Selection('slice', (None, None, None)), set(), 'first', 16, '.3f'
        else:
            sel = random_selection(rnd, n)
            subset = random_subset(rnd, ref) if ref else set()
            reduction = rnd.choice(REDUCTIONS)
            width = rnd.choice([8, 10, 12, 16, 16, 20, 24, 32])
            fmt = rnd.choice(FORMATS)
        # LASRead refuses a LAS file with two equal index values: the decimal format has to resolve the X axis
        for _ in range(20):
            if format_resolves_x(kind, src, fmt):
                break
            fmt = rnd.choice(FORMATS)
        else:
            fmt = '.12g'
        out_dir = os.path.join(case_dir, 'out%d' % k)
        os.makedirs(out_dir)
        describe = dict(selection=sel.describe(), channels=sorted(subset), reduction=reduction, field_width=width, float_format=fmt)
        try:
            convert_and_check(kind, src, path_in, out_dir, sel, subset, reduction, width, fmt, stats)
            checked += 1
        except Skip:
            pass
        except Mismatch as m:
            w = dict(property='C11', seed=seed, case=case, format=kind, what=m.what, conversion=describe)
            w.update(jsonable(m.detail))
            w['source'] = dict(bytes=len(src.data), hex=src.data.hex() if len(src.data) <= 600 else src.data[:120].hex() + '...',
                               passes=[p.summary() for p in src.passes][:4], info=jsonable(src.info))
            fails.append(w)
            break
        except Exception as err:       # a fault of this script or of LASRead on a strange file: report, never hide
            tb = traceback.extract_tb(err.__traceback__)
            fails.append(dict(property='C11', seed=seed, case=case, format=kind, what='unexpected exception in the check',
                              exception=repr(err)[:200], conversion=describe,
                              at=['%s:%d %s' % (os.path.basename(f.filename), f.lineno, f.name) for f in tb[-3:]]))
            break
    return fails, checked > 1 and bool(live)


# ----------------------------------------------------------------------------------------------------------------------
# C12
FOREIGN = ['empty', 'las', 'xml', 'pdf', 'zip', 'random', 'text', 'zeros']


def foreign_bytes(rnd, what):
    if what == 'empty':
        return b''
    if what == 'las':
        return (b'~Version Information Section\nVERS.   2.0 : CWLS Log ASCII Standard - VERSION 2.0\nWRAP.   NO  : One line per depth step\n'
                b'~Curve Information Section\nDEPT.M  : Depth\nGR  .API : Gamma\n~A\n' +
                b''.join(b'%d.0 %d.5\n' % (1000 + i, rnd.randint(0, 150)) for i in range(rnd.randint(1, 6))))
    if what == 'xml':
        return b'<?xml version="1.0" encoding="UTF-8"?>\n<logs><log uid="%d"/></logs>\n' % rnd.randint(0, 999)
    if what == 'pdf':
        return b'%PDF-1.4\n' + bytes(rnd.randrange(256) for _ in range(rnd.randint(10, 300)))
    if what == 'zip':
        return b'PK\x03\x04' + bytes(rnd.randrange(256) for _ in range(rnd.randint(10, 300)))
    if what == 'random':
        return bytes(rnd.randrange(256) for _ in range(rnd.randint(1, 600)))
    if what == 'zeros':
        return b'\x00' * rnd.randint(1, 600)
    return b'Just some text, line %d\n' % rnd.randint(0, 99) * rnd.randint(1, 10)


def damage(rnd, data, how):
    b = bytearray(data)
    if how == 'truncate':
        return bytes(b[:rnd.randrange(0, len(b))])
    if how == 'truncate-late':
        return bytes(b[:len(b) - rnd.randint(1, min(40, len(b)))])
    if how == 'bitflip':
        for _ in range(rnd.randint(1, 3)):
            i = rnd.randrange(len(b))
            b[i] ^= 1 << rnd.randrange(8)
        return bytes(b)
    if how == 'bitflip-head':
        for _ in range(rnd.randint(1, 3)):
            i = rnd.randrange(min(100, len(b)))
            b[i] ^= 1 << rnd.randrange(8)
        return bytes(b)
    if how == 'header':
        k = rnd.randint(1, min(80, len(b)))
        ofs = rnd.randrange(0, min(40, len(b) - k + 1))
        fill = rnd.choice(['zero', 'ff', 'random'])
        for i in range(ofs, ofs + k):
            b[i] = 0 if fill == 'zero' else 0xff if fill == 'ff' else rnd.randrange(256)
        return bytes(b)
    raise ValueError(how)


DAMAGES = ['truncate', 'truncate', 'truncate-late', 'bitflip', 'bitflip', 'bitflip-head', 'header']


class Alarm(Exception):
    pass


def _on_alarm(_sig, _frm):
    raise Alarm()


def tree(root):
    """{relative path: content without the creation time line}."""
    out = {}
    for d, _dirs, files in os.walk(root):
        for fn in files:
            fp = os.path.join(d, fn)
            with open(fp, 'rb') as f:
                lines = f.read().split(b'\n')
            out[os.path.relpath(fp, root)] = b'\n'.join(ln for ln in lines if not ln.startswith(b'CREA.'))
    return out


def result_key(r):
    return (r.path_input, r.binary_file_type, r.size_input, r.size_output, r.las_count, bool(r.exception), bool(r.ignored))


def run_c12_case(seed, case, stats, tmp):
    rnd = random.Random('c12:%d:%d' % (seed, case))
    kind = ('RP66V1', 'BIT', 'LIS')[case % 3]
    fn = CONVERTERS[kind]
    case_dir = os.path.join(tmp, 'c12_%d' % case)
    dir_in = os.path.join(case_dir, 'in')
    os.makedirs(dir_in)
    # 'batch-channel-set-grows-across-files' listed: channel names are unique in the directory; not listed: names come
    # from a pool of 8, so that the index channel of one file is an ordinary channel of another
    pool = None if 'batch-channel-set-grows-across-files' in ACTIVE else S.mnemonics(rnd, 8, 2, 4)
    makers = {'RP66V1': lambda: S.dlis_source(rnd, max_frames=8, name_pool=pool), 'LIS': lambda: S.lis_source(rnd, cons='always'),
              'BIT': lambda: S.bit_source(rnd, max_frames=8)}
    n_files = rnd.randint(3, 8)
    files = []       # dict(name, role, kind, passes)
    stems = set()
    for i in range(n_files):
        while True:
            stem = ''.join(rnd.choice(S.LETTERS) for _ in range(rnd.randint(1, 5)))
            if stem not in stems:
                stems.add(stem)
                break
        k = rnd.random()
        if i > 0 and files and rnd.random() < 0.2:
            # a second copy of an earlier file under another name: files of equal size (and content) are ordinary in a
            # directory of logs, each must still get its own result and its own output
            prev = rnd.choice(files)
            data, role, fkind, passes = prev['data'], prev['role'], prev['kind'], prev['passes']
        elif i == 0 or k < 0.3:
            src = makers[kind]()
            data, role, fkind, passes = src.data, 'good', kind, src.passes
        elif k < 0.42:
            other = rnd.choice([x for x in CONVERTERS if x != kind])
            src = makers[other]()
            data, role, fkind, passes = src.data, 'other-format', other, src.passes
        elif k < 0.8:
            src = makers[kind]() if rnd.random() < 0.8 else makers[rnd.choice(list(CONVERTERS))]()
            how = rnd.choice(DAMAGES)
            data, role, fkind, passes = damage(rnd, src.data, how), 'damaged:' + how, src.kind, src.passes
        else:
            what = rnd.choice(FOREIGN)
            data, role, fkind, passes = foreign_bytes(rnd, what), 'foreign:' + what, None, []
        name = stem + rnd.choice([EXTENSION.get(fkind, '.dat'), EXTENSION.get(fkind, '.bin'), '.dat', ''])
        files.append(dict(name=name, role=role, kind=fkind, passes=passes, size=len(data), data=data))
        with open(os.path.join(dir_in, name), 'wb') as f:
            f.write(data)
    paths = sorted(os.path.join(dir_in, f['name']) for f in files)
    by_path = {os.path.join(dir_in, f['name']): f for f in files}
    # arguments: selections that select at least one frame of any log pass
    # (C12 is not about selections: they are taken from the classes in which C11 holds on the unchanged repository, i.e.
    # no stepped slices for BIT, see 'bit-frames-from-slice-last')
    sels = [Selection('slice', (None, None, None)), Selection('slice', (None, None, None)), Selection('sample', (rnd.randint(1, 9),)),
            Selection('slice', (None, rnd.randint(1, 9), None))]
    if kind != 'BIT' or 'bit-frames-from-slice-last' not in ACTIVE:
        sels += [Selection('slice', (0, None, 2)), Selection('slice', (None, None, 3))]
    sel = rnd.choice(sels)
    subset = set()
    if rnd.random() < 0.4 and (kind != 'LIS' or 'lis-channel-subset-raises' not in ACTIVE):
        pool = [c.key for f in files if f['kind'] == kind for p in f['passes'] for c in p.channels if c.key]
        if pool:
            subset = set(rnd.sample(pool, rnd.randint(1, min(4, len(pool)))))
    reduction = rnd.choice(REDUCTIONS)
    width = rnd.choice([12, 16, 20])
    fmt = rnd.choice(['.3f', '.3f', '.1f', '.6f'])
    args = lambda: (False, reduction, sel.make(), set(subset), width, fmt)       # noqa: E731
    info = dict(property='C12', seed=seed, case=case, converter=kind, selection=sel.describe(), channels=sorted(subset),
                reduction=reduction, field_width=width, float_format=fmt,
                files=[[f['name'], f['role'], f['kind'], f['size']] for f in sorted(files, key=lambda f: f['name'])])

    def witness(what, **kw):
        w = dict(info, what=what)
        w.update(jsonable(kw))
        small = [f for f in files if f['size'] <= 300]
        w['small_file_hex'] = {f['name']: f['data'].hex() for f in small[:3]}
        return w

    runs = {}       # mode -> (results, tree)
    modes = [('sequential', None)] + [('jobs=%d' % j, j) for j in (1, 2, 4, 16)]
    old = signal.signal(signal.SIGALRM, _on_alarm)
    try:
        for mode, jobs in modes:
            out = os.path.join(case_dir, 'out_' + mode.replace('=', ''))
            if jobs is None or jobs == 1 or case % 2:
                os.makedirs(out)
            else:
                # the output directory does not exist yet: every worker that finishes reading its file creates it, several at
                # about the same time (a check-then-create sequence loses that race for valid inputs)
                out = os.path.join(out, 'new', 'tree')
            a = args()
            signal.alarm(60)
            try:
                if jobs is None:
                    res = WriteLAS.convert_dir_or_file_to_las(dir_in, out, a[0], a[1], a[2], a[3], a[4], a[5], fn)
                else:
                    res = WriteLAS.convert_dir_or_file_to_las_multiprocessing(dir_in, out, a[0], a[1], a[2], a[3], a[4], a[5], jobs, fn)
            except Alarm:
                return [witness('batch conversion did not finish in 60 s', mode=mode)], False
            except Exception as err:
                tb = traceback.extract_tb(err.__traceback__)
                return [witness('batch conversion raised: one file aborts the conversion of the others', mode=mode,
                                exception=repr(err)[:300],
                                at=['%s:%d %s' % (os.path.basename(f.filename), f.lineno, f.name) for f in tb[-4:]])], False
            finally:
                signal.alarm(0)
            runs[mode] = (res, tree(out))
        # each file on its own
        own_res, own_tree = {}, {}
        out = os.path.join(case_dir, 'out_own')
        os.makedirs(out)
        for pth in paths:
            a = args()
            signal.alarm(60)
            try:
                r = WriteLAS.convert_dir_or_file_to_las(pth, os.path.join(out, os.path.basename(pth)), a[0], a[1], a[2], a[3], a[4], a[5], fn)
            except Alarm:
                return [witness('conversion of a single file did not finish in 60 s', file=os.path.basename(pth))], False
            except Exception as err:
                tb = traceback.extract_tb(err.__traceback__)
                return [witness('conversion of a single file raised instead of returning a failed result', file=os.path.basename(pth),
                                role=by_path[pth]['role'], exception=repr(err)[:300],
                                at=['%s:%d %s' % (os.path.basename(f.filename), f.lineno, f.name) for f in tb[-4:]])], False
            finally:
                signal.alarm(0)
            own_res.update(r)
        own_tree = tree(out)
        runs['own'] = (own_res, own_tree)
    finally:
        signal.signal(signal.SIGALRM, old)
    # ---- one result per input file, keyed by its path
    for mode, (res, _t) in runs.items():
        if sorted(res.keys()) != paths:
            return [witness('result keys differ from the input files', mode=mode, got=sorted(os.path.basename(k) for k in res),
                            expected=[os.path.basename(k) for k in paths])], False
        for k, r in res.items():
            if r.path_input != k:
                return [witness('result.path_input differs from its key', mode=mode, key=k, got=r.path_input)], False
    # ---- per file verdicts (on the sequential run; equality with the other runs follows below)
    seq = runs['sequential'][0]
    good = 0
    for pth in paths:
        f, r = by_path[pth], seq[pth]
        if f['role'] == 'good':
            if r.exception and kind == 'LIS' and 'lis-null-value-attribute' in ACTIVE and r.las_count == 0:
                stats['known:lis-null-value-attribute'] += 1
                continue
            if r.exception or r.ignored:
                return [witness('a valid file is reported failed / ignored in a batch', file=f['name'], result=list(result_key(r))[1:])], False
            want = len([p for p in f['passes'] if p.nframes])
            opt = len([p for p in f['passes'] if not p.nframes])
            if not want <= r.las_count <= want + opt:
                return [witness('las_count of a valid file in a batch', file=f['name'], got=r.las_count, expected=want)], False
            good += 1
        elif f['role'] == 'other-format' or (f['role'].startswith('foreign') and f['role'] not in ('foreign:random', 'foreign:zeros')):
            # (random bytes and zeros are not certainly foreign: 45 random bytes can pass the LIS detector, which accepts
            # whatever it can index; such a file is then 'converted' to zero LAS files)
            if not (r.exception or r.ignored):
                return [witness('a file that is not of the converter\'s format is reported converted', file=f['name'], role=f['role'],
                                result=list(result_key(r))[1:])], False
            if r.las_count:
                return [witness('LAS files counted for a foreign file', file=f['name'], role=f['role'], got=r.las_count)], False
        else:
            stats['c12_damaged_' + ('failed' if r.exception else 'ignored' if r.ignored else 'converted')] += 1
    # ---- identical results and output trees
    ref_res, ref_tree = runs['own']
    for mode, (res, t) in runs.items():
        if mode == 'own':
            continue
        grows = mode == 'sequential' and subset and 'batch-channel-set-grows-across-files' in ACTIVE
        if grows:
            stats['known:batch-channel-set-grows'] += 1
            drop = lambda text: b'\n'.join(ln for ln in text.split(b'\n') if not ln.startswith(b'# Requested Channels in this LAS file'))   # noqa: E731
            t = {k: drop(v) for k, v in t.items()}
            ref_tree_cmp = {k: drop(v) for k, v in ref_tree.items()}
        else:
            ref_tree_cmp = ref_tree
        if sorted(t) != sorted(ref_tree_cmp):
            return [witness('set of output files differs', mode=mode, got=sorted(t), own=sorted(ref_tree_cmp))], False
        for name in sorted(t):
            if t[name] != ref_tree_cmp[name]:
                a, b = t[name].split(b'\n'), ref_tree_cmp[name].split(b'\n')
                diff = [i for i, (x, y) in enumerate(zip(a, b)) if x != y] + ([min(len(a), len(b))] if len(a) != len(b) else [])
                i = diff[0]
                return [witness('content of an output file differs between a batch and the conversion of the file on its own', mode=mode,
                                output=name, first_differing_line=i, differing_lines=len(diff),
                                batch=[(x if isinstance(x, bytes) else b'').decode('latin-1')[:140] for x in a[i:i + 1] + a[diff[-1]:diff[-1] + 1]],
                                own=[(x if isinstance(x, bytes) else b'').decode('latin-1')[:140] for x in b[i:i + 1] + b[diff[-1]:diff[-1] + 1]])], False
        for pth in paths:
            a_key, b_key = result_key(res[pth]), result_key(ref_res[pth])
            if grows:
                a_key, b_key = a_key[:3] + a_key[4:], b_key[:3] + b_key[4:]        # without size_output
            if a_key != b_key:
                return [witness('result of a file differs between a batch and its own conversion', mode=mode, file=os.path.basename(pth),
                                role=by_path[pth]['role'], batch=list(result_key(res[pth]))[1:], own=list(result_key(ref_res[pth]))[1:])], False
    stats['c12_files'] += len(files)
    stats['c12_good_files_converted'] += good
    stats['c12_output_files'] += len(ref_tree)
    return [], len(files) >= 3 and any(not f['role'] == 'good' for f in files)


# ----------------------------------------------------------------------------------------------------------------------
class Stats(dict):
    def __missing__(self, key):
        return 0


def main():
    ap = argparse.ArgumentParser()
    ap.add_argument('--seed', type=int, default=0)
    ap.add_argument('--cases', type=int, default=50)
    ap.add_argument('--part', choices=['c11', 'c12', 'both'], default='both')
    ap.add_argument('--only', type=int, default=None, help='run only this case index')
    ap.add_argument('--no-known', action='store_true', help='do not apply the KNOWN_FINDINGS exclusions')
    ap.add_argument('--without', action='append', default=[], help='drop one KNOWN_FINDINGS entry (repeatable)')
    ap.add_argument('--verbose', action='store_true')
    a = ap.parse_args()
    if a.no_known:
        ACTIVE.clear()
    for name in a.without:
        ACTIVE.discard(name)
    t0 = time.time()
    stats = Stats()
    bad, nbad, nontrivial, ncases = [], 0, 0, 0
    with tempfile.TemporaryDirectory(prefix='c11c12_') as tmp:
        for case in range(a.cases):
            if a.only is not None and case != a.only:
                continue
            ncases += 1
            fails, nt = [], False
            if a.part in ('c11', 'both'):
                f, nt1 = run_c11_case(a.seed, case, stats, tmp)
                fails += f
                nt = nt or nt1
            if a.part in ('c12', 'both'):
                f, nt2 = run_c12_case(a.seed, case, stats, tmp)
                fails += f
                nt = nt or nt2
            if nt:
                nontrivial += 1
            if fails:
                nbad += 1
                for w in fails:
                    if a.verbose:
                        print('FAIL', json.dumps(w))
                    if len(bad) < MAX_BAD:
                        bad.append(w)
            # keep the temporary directory small
            for d in os.listdir(tmp):
                import shutil
                shutil.rmtree(os.path.join(tmp, d), ignore_errors=True)
    print('tree under test: %s' % os.path.dirname(TotalDepth.__file__))
    print('part=%s seed=%d: failing cases: %d; %.1f s' % (a.part, a.seed, nbad, time.time() - t0))
    print('stats: %s' % json.dumps(dict(sorted(stats.items()))))
    print('known findings excluded: %s' % ', '.join(k for k in KNOWN_FINDINGS if k in ACTIVE))
    print(json.dumps(dict(cases=ncases, nontrivial=nontrivial, bad=bad)))
    return 1 if bad else 0


if __name__ == '__main__':
    sys.exit(main())
