#!/venv/bin/python
"""Bounded stand-in checks for properties C09 and C10 (LAS read, LAS write/read-back).

Run as:  /venv/bin/python /verif/standins/c09c10_las.py --seed <int> --cases <int> [--part {c09,c10,both}]

Part c09 - LAS files parse to their content, independent of layout
    A content model (gen.las.Content: version, well, curve, parameter, other sections; 1..k curves; 1..n frames of text
    tokens) is generated and rendered to LAS text in several layouts (unwrapped and wrapped; random section titles and
    section order; random space padding in every gap of each header line; blank/tab separation in data lines; comment
    and blank lines between any two lines; LF/CRLF; last line terminated or not; from memory or from a file).  Each text
    is read with TotalDepth.LAS.core.LASRead.LASRead and compared COMPLETELY with the model: for each of V/W/C/P every
    line's (mnemonic, units, typed value, description) by position and by mnemonic look-up, the O lines, the null
    value, and the frame array: one channel per curve in curve order (ident, units, shape (n, 1)), every value equal to
    the double the token denotes, tokens that are not numbers -> null value.  The oracle is the model, never the reader.

Part c10 - LAS written by TotalDepth reads back as the same log
    A TotalDepth.common.LogPass.FrameArray is built (1..k channels of float32/float64/int8..int64/uint8..uint64, dimensions
    (), (1,), (m,), (a,b), (a,b,c); 1..n frames; values from tiny to wider than the field, dtype extremes), written with
    TotalDepth.LAS.core.WriteLAS (the combined writer, or the section writers separately, or data in two chunks) for
    every reduction method / channel subset / field width / decimal format, then
      (a) the written text is examined directly: curve section lines, the ~A heading and every data row list exactly
          first channel + requested subset, in frame array order; n rows;
      (b) it is read back with LASRead (behind a two line ~V section) and names, units, order, frame count and every
          value are compared with the source: the value read is the double nearest to the printed text and
          |printed text - reduce(source)| <= half a unit of the last printed decimal (+ for mean/median of multi-valued
          channels the rounding of the reduction in the channel's own precision), evaluated in exact decimal/rational
          arithmetic; reduce() is computed here, not by numpy.

Last line of stdout: {"cases": .., "nontrivial": .., "bad": [..]}; exit status 1 iff bad is not empty.
"""
import argparse
import io
import json
import logging
import math
import os
import random
import sys
import tempfile
import time
import warnings
from decimal import Decimal
from fractions import Fraction

sys.path.insert(0, os.path.join(os.environ.get('PYVC_REPO', '/repo'), 'src'))
sys.path.insert(0, os.path.dirname(os.path.dirname(os.path.abspath(__file__))))

warnings.simplefilter('ignore')
logging.disable(logging.CRITICAL)

import numpy as np  # noqa: E402

from gen import las as genlas  # noqa: E402

from TotalDepth.LAS.core import LASRead, WriteLAS  # noqa: E402
from TotalDepth.common import LogPass, Slice  # noqa: E402

# ----------------------------------------------------------------------------------------------------------------------
# Input classes on which the UNCHANGED repository violates the property as stated.  Each name excludes exactly the
# input class described; remove a name to see the failures.
# ----------------------------------------------------------------------------------------------------------------------
KNOWN_FINDINGS = [
    # C09: WRAP YES and only one curve (the index).  LASSectionArray._add_member_with_wrap_mode never completes a frame
    # on the index line, so the second frame raises "array overflow; frame length 2 which should be length 1".
    # Minimal: "~V\nVERS. 2.0:\nWRAP. YES:\n~C\nDEPT.M :\n~A\n1.0\n2.0\n".  Excluded: wrapped renderings with k == 1.
    # (repaired in /repo by 'fix: LASRead wrap mode: a frame of a single (index) curve ...': exclusion c09-wrapped-single-curve removed)
    # C09: the ~W NULL value is not given to the array section ("TODO: Pass in NULL"): tokens that are not numbers become
    # -999.25 whatever NULL says (NULL. -9999 -> LASRead.null_value == -9999 but the array holds -999.25).
    # Excluded: contents that declare NULL != -999.25 AND contain a non-numeric data token.
    'c09-null-not-from-well-section',
    # C09: line_to_sect_line applies string_to_value to ALL four fields, so a mnemonic, unit or description spelt like a
    # number or yes/no comes back as int/float/bool ("NO .  5 : NO" -> mnem False, desc False; unit "1000" -> 1000) and
    # section[mnemonic] look-up by the written name fails.  Excluded: contents with such a field (one flag each).
    'c09-lookalike-mnem',
    'c09-lookalike-unit',
    'c09-lookalike-desc',
    # C10: integer channels are printed with format '.0f', i.e. through a double, so int64/uint64 values beyond 2**53 are
    # written (and read, LAS channels are float64) up to 1024 off: np.uint64(2**64 - 1) -> "18446744073709551616",
    # np.int64(2**53 + 1) -> "9007199254740992".  Excluded: frame arrays with a written channel holding an integer of magnitude > 2**53.
    'c10-int-beyond-2^53',
    # C10: write_array_section_header_to_las pads the first heading with width field_width - 2, so field_width 0 or 1
    # raises ValueError('Sign not allowed in string format specifier').  Excluded: field_width < 2.
    'c10-field-width-below-2',
]

MAX_WITNESSES = 5


def _rng(seed: int, part: str, index: int, what: str = '') -> random.Random:
    return random.Random('%d:%s:%d:%s' % (seed, part, index, what))


def _short(text: str, limit: int = 1200) -> str:
    return text if len(text) <= limit else text[:limit] + '...[%d more]' % (len(text) - limit)


# ======================================================================================================================
# C09
# ======================================================================================================================
def _same(got, exp) -> bool:
    """Equal and of the same type (True != 1, 2 != 2.0)."""
    if type(got) is not type(exp):
        return False
    if isinstance(exp, float):
        return got == exp and math.copysign(1.0, got) == math.copysign(1.0, exp)
    return got == exp


def c09_compare(content: genlas.Content, las, wrap: bool) -> list:
    """Complete comparison of what was read with the model; returns a list of discrepancies."""
    bad = []
    present = content.sections_present() + 'A'
    for s in 'VWCPOA':
        if las.has_section(s) != (s in present):
            bad.append('section %s present: %s, expected %s' % (s, las.has_section(s), s in present))
    if bad:
        return bad
    if len(las) != len(present):
        bad.append('%d sections read, expected %d' % (len(las), len(present)))
    for s in 'VWCP':
        if s not in present:
            continue
        exp = content.expected_section(s, wrap)
        sect = las[s]
        got = list(sect.members)
        if len(got) != len(exp):
            bad.append('section %s has %d lines, expected %d' % (s, len(got), len(exp)))
            continue
        for i, (g, e) in enumerate(zip(got, exp)):
            for name, gv, ev in zip(('mnem', 'unit', 'valu', 'desc'), g, e):
                if not _same(gv, ev):
                    bad.append('section %s line %d (%s) %s: got %r expected %r' % (s, i, e[0], name, gv, ev))
            # look-up by mnemonic (mnemonics are unique within a generated section)
            try:
                by_name = sect[e[0]]
                if by_name is not g:
                    bad.append('section %s [%r] is not line %d' % (s, e[0], i))
                if e[0] not in sect:
                    bad.append('section %s: %r not "in" section' % (s, e[0]))
            except KeyError:
                bad.append('section %s [%r] raises KeyError' % (s, e[0]))
    if content.other is not None:
        got = list(las['O'].members)
        if got != content.other:
            bad.append('section O: got %r expected %r' % (got, content.other))
    # null value
    if not _same(las.null_value, content.null):
        bad.append('null_value: got %r expected %r' % (las.null_value, content.null))
    # frame array
    fa = las.frame_array
    k, n = content.num_curves, content.num_frames
    if fa is None:
        return bad + ['no frame array']
    if len(fa) != k:
        return bad + ['frame array has %d channels, expected %d' % (len(fa), k)]
    if las.number_of_frames() != n:
        bad.append('number_of_frames() %d, expected %d' % (las.number_of_frames(), n))
    for c in range(k):
        ch = fa[c]
        cur = content.curves[c]
        if not _same(ch.ident, cur.mnem) or not _same(ch.units, cur.unit):
            bad.append('channel %d: ident/units %r/%r expected %r/%r' % (c, ch.ident, ch.units, cur.mnem, cur.unit))
        if fa.channels[c] is not ch or not fa.has(cur.mnem) or fa[cur.mnem] is not ch:
            bad.append('channel %d: look-up by name %r fails or differs from look-up by index' % (c, cur.mnem))
        data = np.ma.getdata(ch.array)
        if data.shape != (n, 1):
            bad.append('channel %d: shape %r expected %r' % (c, data.shape, (n, 1)))
            continue
        if data.dtype != np.float64:
            bad.append('channel %d: dtype %r' % (c, data.dtype))
            continue
        exp_col = content.expected_column(c, content.null)
        for f in range(n):
            g = float(data[f, 0])
            if not (g == exp_col[f]):
                bad.append('frame %d curve %d (%s) token %r: got %r expected %r' % (
                    f, c, cur.mnem, content.tokens[f][c], g, exp_col[f]))
    return bad


def c09_skip_reason(content: genlas.Content, wrap) -> str:
    """Name of the known finding that excludes this content (wrap None: any layout) or ''."""
    for which in ('mnem', 'unit', 'desc'):
        if 'lookalike-' + which in content.flags and 'c09-lookalike-' + which in KNOWN_FINDINGS:
            return 'c09-lookalike-' + which
    if 'null-nondefault' in content.flags and 'unparseable' in content.flags \
            and 'c09-null-not-from-well-section' in KNOWN_FINDINGS:
        return 'c09-null-not-from-well-section'
    if wrap and 'single-curve' in content.flags and 'c09-wrapped-single-curve' in KNOWN_FINDINGS:
        return 'c09-wrapped-single-curve'
    return ''


def c09_case(seed: int, index: int, tmpdir: str, stats: dict, verbose: bool = False):
    """Returns (nontrivial, [witness, ...])."""
    content = genlas.random_content(_rng(seed, 'c09', index, 'content'))
    reason = c09_skip_reason(content, None)
    if reason:
        stats[reason] = stats.get(reason, 0) + 1
        return False, []
    witnesses = []
    checked = 0
    # Two unwrapped and two wrapped layouts of the same content
    for j, wrap in enumerate((False, True, False, True)):
        reason = c09_skip_reason(content, wrap)
        if reason:
            stats[reason + ' (layout)'] = stats.get(reason + ' (layout)', 0) + 1
            continue
        lrng = _rng(seed, 'c09', index, 'layout%d' % j)
        text = genlas.render(content, lrng, wrap)
        via_file = lrng.random() < 0.25
        if verbose:
            print('---- c09 case %d layout %d wrap=%s via_file=%s flags=%s\n%s' % (
                index, j, wrap, via_file, sorted(content.flags), text))
        try:
            if via_file:
                path = os.path.join(tmpdir, 'c09_%d_%d.las' % (index, j))
                with open(path, 'w', newline='') as f:
                    f.write(text)
                las = LASRead.LASRead(path)
            else:
                las = LASRead.LASRead(io.StringIO(text), 'c09_%d_%d' % (index, j))
            problems = c09_compare(content, las, wrap)
        except Exception as err:  # the reader must accept every well-formed text
            problems = ['raised %s: %s' % (type(err).__name__, err)]
        checked += 1
        stats['c09 layouts'] = stats.get('c09 layouts', 0) + 1
        if problems:
            witnesses.append({
                'part': 'c09', 'seed': seed, 'case': index, 'layout': j, 'wrap': wrap, 'via_file': via_file,
                'curves': content.num_curves, 'frames': content.num_frames, 'flags': sorted(content.flags),
                'problems': problems[:4], 'num_problems': len(problems), 'text': _short(text),
            })
            break
    return checked > 0, witnesses


# ======================================================================================================================
# C10
# ======================================================================================================================
DTYPES = ['float32', 'float64', 'int8', 'int16', 'int32', 'int64', 'uint8', 'uint16', 'uint32', 'uint64']
DIMS = [(1,)] * 6 + [(2,), (3,), (5,), (8,), (2, 2), (2, 3), (4, 1), (1, 1), (2, 2, 2), (3, 1, 2), ()]
METHODS = ['first', 'mean', 'median', 'min', 'max']
FLOAT_FORMATS = ['.0f', '.1f', '.2f', '.3f', '.3f', '.4f', '.6f', '.9f', '.3e', '.8e', '.5g', '.12g', '.6']
SPECIAL_FLOATS = [0.0, -0.0, -999.25, 0.5, 1.5, 2.5, 0.125, 0.0005, 0.00049999, 1e-7, 123456789.125, 99999.9995, -0.05,
                  1.0, -1.0, 9.5, 1e15, -1e15]
WRITE_MODES = ['combined', 'combined', 'three', 'three-shared', 'two', 'chunked']
V_SECTION = '~Version Information Section\nVERS.   2.0 : CWLS Log ASCII Standard - VERSION 2.0\nWRAP.   NO  : One line per depth step\n'


def _count(dims) -> int:
    r = 1
    for d in dims:
        r *= d
    return r


def _gen_float_values(rng, dtype: str, total: int, allow_extreme: bool, fixed_format: bool):
    info = np.finfo(dtype)
    # The largest double rounded UP to a few significant digits ('.3e' -> 1.798e+308) is a decimal beyond the double
    # range and can only be read as inf; that is inherent in the format, not a defect, so with e/g formats the float64
    # extreme is 1e308.  With 'f' formats every digit is printed and the maximum itself is used.
    top = float(info.max) if fixed_format or dtype != 'float64' else 1e308
    style = genlas._pick_weighted(rng, [('small', 4), ('wide', 2), ('tiny', 1), ('mixed', 3), ('extreme', 0.5)])
    out = []
    for _ in range(total):
        st = style if style != 'mixed' else rng.choice(['small', 'wide', 'tiny', 'special', 'special'])
        if st == 'small':
            v = round(rng.uniform(-1000, 1000), rng.randint(0, 6))
        elif st == 'wide':
            v = rng.choice([-1, 1]) * 10 ** rng.uniform(3, 15)
        elif st == 'tiny':
            v = rng.choice([-1, 1]) * 10 ** rng.uniform(-9, -3)
        elif st == 'special':
            v = rng.choice(SPECIAL_FLOATS)
        else:
            if allow_extreme:
                v = rng.choice([top, -top, float(info.tiny), float(info.smallest_subnormal), top / 3, 1e30, -1e-30])
            else:
                v = rng.choice([-1, 1]) * 10 ** rng.uniform(15, 25)
        out.append(v)
    return out


def _gen_int_values(rng, dtype: str, total: int):
    info = np.iinfo(dtype)
    lo, hi = int(info.min), int(info.max)
    style = genlas._pick_weighted(rng, [('small', 3), ('range', 3), ('extreme', 1)])
    big = info.bits == 64 and rng.random() < 0.12  # beyond 2**53 only now and then (see KNOWN_FINDINGS)
    if info.bits == 64 and not big:
        lo, hi = max(lo, -2 ** 53), min(hi, 2 ** 53)
    out = []
    for _ in range(total):
        if style == 'small':
            v = rng.randint(max(lo, -100), min(hi, 100))
        elif style == 'range':
            v = rng.randint(lo, hi)
        else:
            v = rng.choice([lo, hi, lo + 1, hi - 1, 0, max(lo, -999)])
        out.append(v)
    return out


def _exact(x) -> Fraction:
    if isinstance(x, (np.integer, int)):
        return Fraction(int(x))
    return Fraction(float(x))  # float32 -> double is exact


def reduce_exact(arr: np.ndarray, method: str) -> Fraction:
    vals = [_exact(x) for x in np.asarray(arr).reshape(-1)]  # C order, as numpy flatten()
    if method == 'first':
        return vals[0]
    if method == 'min':
        return min(vals)
    if method == 'max':
        return max(vals)
    if method == 'mean':
        return sum(vals) / len(vals)
    if method == 'median':
        s = sorted(vals)
        m = len(s)
        return s[m // 2] if m % 2 else (s[m // 2 - 1] + s[m // 2]) / 2
    raise ValueError(method)


def reduce_slack(arr: np.ndarray, method: str) -> Fraction:
    """Allowance for the reduction being done in the channel's own precision (ints: double)."""
    vals = np.asarray(arr).reshape(-1)
    if method in ('first', 'min', 'max') or len(vals) == 1:
        return Fraction(0)
    eps = Fraction(1, 2 ** 23) if arr.dtype == np.float32 else Fraction(1, 2 ** 52)
    biggest = max(abs(_exact(x)) for x in vals)
    return (len(vals) if method == 'mean' else 2) * eps * biggest


def _unit_of_token(token: str) -> Fraction:
    exp = Decimal(token).as_tuple().exponent
    return Fraction(10) ** exp


class C10Spec:
    """A frame array to write and how to write it; everything needed to reproduce is in describe()."""
    def __init__(self, rng: random.Random, large: bool = False):
        self.flags = set()
        self.method = rng.choice(METHODS)
        self.field_width = genlas._pick_weighted(rng, [(16, 3), (rng.randint(2, 24), 6), (rng.randint(0, 1), 0.4), (40, 0.3)])
        if self.field_width < 2:
            self.flags.add('field-width-below-2')
        self.float_format = rng.choice(FLOAT_FORMATS)
        self.mode = rng.choice(WRITE_MODES)
        k = genlas._pick_weighted(rng, [(1, 1), (2, 2), (rng.randint(1, 6), 6), (rng.randint(7, 15), 0.5)])
        self.n = genlas._pick_weighted(rng, [(1, 1), (2, 1), (rng.randint(1, 10), 6), (rng.randint(11, 40), 0.5)])
        if large:
            # a long log (well over 64 KiB of data rows): anything that buffers, batches or chunks rows shows only here
            k = rng.randint(3, 5)
            self.n = rng.randint(1200, 2600)
            self.field_width = max(self.field_width, 12)
            self.flags.discard('field-width-below-2')
            self.float_format = rng.choice(['.1f', '.3f', '.4f', '.8e', '.12g'])
        if self.mode == 'chunked' and self.n < 2:
            self.mode = 'three'
        used = set()
        self.channels = []  # dicts: ident, long_name, units, dims, dtype, data (ndarray (n, *dims))
        for c in range(k):
            while True:
                ident = genlas.gen_mnemonic(rng, used, genlas._INDEX_NAMES if c == 0 else genlas._CURVE_COMMON)
                units = genlas.gen_unit(rng, 0.25)
                if (ident, units) not in (('DATE', 'D'), ('TIME', 'HHMMSS')):
                    break
                used.discard(ident)
            long_name = genlas.gen_text(rng, allow_colon=False, max_words=4)
            dims = rng.choice(DIMS)
            dtype = rng.choice(DTYPES)
            if rng.random() < 0.3:
                units = units.encode('ascii')
            if rng.random() < 0.3:
                long_name = long_name.encode('ascii')
            ch = dict(ident=ident, long_name=long_name, units=units, dims=dims, dtype=dtype)
            if c == 0:
                self._make_x_axis(rng, ch)
            else:
                ch['data'] = self._make_data(rng, ch)
            self.channels.append(ch)
        # requested subset
        idents = [ch['ident'] for ch in self.channels]
        r = rng.random()
        if r < 0.3:
            self.subset = set()
        elif r < 0.4:
            self.subset = {idents[0]}
        elif r < 0.5:
            self.subset = {'NOSUCH'}
        else:
            self.subset = {i for i in idents if rng.random() < 0.5}
            if rng.random() < 0.3:
                self.subset.add('NOSUCH')
            if rng.random() < 0.5:
                self.subset.discard(idents[0])
        # expected channels: all if nothing requested else first channel + requested, in frame array order
        self.expected = [c for c, i in enumerate(idents) if not self.subset or c == 0 or i in self.subset]
        for ch in (self.channels[c] for c in self.expected):
            if ch['dtype'].startswith(('int', 'uint')) and ch['data'].size and int(np.abs(ch['data'].astype(object)).max()) > 2 ** 53:
                self.flags.add('int-beyond-2^53')

    def _make_data(self, rng, ch) -> np.ndarray:
        total = self.n * _count(ch['dims'])
        if ch['dtype'].startswith('float'):
            allow_extreme = _count(ch['dims']) == 1 or self.method in ('first', 'min', 'max')
            vals = _gen_float_values(rng, ch['dtype'], total, allow_extreme, self.float_format.endswith('f'))
        else:
            vals = _gen_int_values(rng, ch['dtype'], total)
        return np.array(vals, dtype=ch['dtype']).reshape((self.n,) + tuple(ch['dims']))

    def spec_for(self, ch) -> str:
        return '.0f' if not ch['dtype'].startswith('float') else self.float_format

    def _make_x_axis(self, rng, ch) -> None:
        """The reader refuses duplicate index values, so the X axis must print as distinct, well separated numbers."""
        for attempt in range(30):
            if self.n > 200 and attempt < 29:
                # a long log: one index value per frame, whole numbers in steps of one (distinct under every format used)
                ch['dims'], ch['dtype'] = (1,), 'float64'
                start = rng.randint(-5000, 50000)
                data = np.array([float(start + i) for i in range(self.n)], dtype='float64').reshape((self.n, 1))
            elif attempt == 29:
                # always distinct under every format used here: powers of two, one value per frame
                ch['dims'] = (1,)
                ch['dtype'] = 'float64' if not ch['dtype'].startswith('float') or self.n > 100 else ch['dtype']
                data = np.array([2.0 ** i for i in range(self.n)], dtype=ch['dtype']).reshape((self.n, 1))
            elif ch['dtype'].startswith('float') and rng.random() < 0.7:
                d = rng.randint(0, 4)
                start = rng.randint(-10 ** 5, 10 ** 6)
                step = rng.choice([-1, 1]) * rng.choice([1, 5, 25, 100, 1524, 10 ** d])
                cnt = _count(ch['dims'])
                base = [(start + i * step) / 10 ** d for i in range(self.n)]
                spread = abs(step) / 10 ** d / 4
                vals = [b + (rng.uniform(0, spread) if cnt > 1 else 0.0) for b in base for _ in range(cnt)]
                data = np.array(vals, dtype=ch['dtype']).reshape((self.n,) + tuple(ch['dims']))
            else:
                data = self._make_data(rng, ch)
            red = [reduce_exact(data[f], self.method) for f in range(self.n)]
            if ch['dtype'].startswith('float') and not all(abs(r) < Fraction(10) ** 30 for r in red):
                continue
            spec = self.spec_for(ch)
            toks = [format(float(r), spec) for r in red]
            if len(set(toks)) != self.n or len(set(float(t) for t in toks)) != self.n:
                continue
            if any(t in ('inf', '-inf', 'nan') for t in toks):
                continue
            # distinct as predicted, and if the reduction rounds (mean/median) so well separated that it can not matter
            slack = max(reduce_slack(data[f], self.method) for f in range(self.n))
            srt = sorted(zip(red, toks))
            ok = slack == 0 or all(r1 - r0 > _unit_of_token(t0) + _unit_of_token(t1) + 4 * slack
                                   for (r0, t0), (r1, t1) in zip(srt, srt[1:]))
            if ok:
                ch['data'] = data
                return
        raise RuntimeError('no X axis')

    def frame_array(self, lo: int, hi: int) -> LogPass.FrameArray:
        fa = LogPass.FrameArray('FA', 'c10 stand-in')
        for ch in self.channels:
            fa.append(LogPass.FrameChannel(ch['ident'], ch['long_name'], ch['units'], ch['dims'], np.dtype(ch['dtype'])))
        fa.init_arrays(hi - lo)
        for ch, fch in zip(self.channels, fa.channels):
            fch.array[...] = ch['data'][lo:hi]
        return fa

    def describe(self) -> dict:
        return {
            'method': self.method, 'field_width': self.field_width, 'float_format': self.float_format,
            'mode': self.mode, 'subset': sorted(self.subset), 'frames': self.n, 'flags': sorted(self.flags),
            'channels': [[ch['ident'], ch['dtype'], list(ch['dims']), repr(ch['units'])] for ch in self.channels],
        }

    def write(self) -> str:
        out = io.StringIO()
        n, m, fw, ff = self.n, self.method, self.field_width, self.float_format
        slc = Slice.Slice()
        fa = self.frame_array(0, n)
        if self.mode == 'combined':
            WriteLAS.write_curve_and_array_section_to_las(fa, n, m, slc, set(self.subset), fw, ff, out)
        elif self.mode == 'two':
            WriteLAS.write_curve_section_to_las(fa, set(self.subset), out)
            WriteLAS.write_array_section_to_las(fa, n, m, slc, set(self.subset), fw, ff, out)
        elif self.mode in ('three', 'three-shared'):
            shared = set(self.subset)
            pick = (lambda: shared) if self.mode == 'three-shared' else (lambda: set(self.subset))
            WriteLAS.write_curve_section_to_las(fa, pick(), out)
            WriteLAS.write_array_section_header_to_las(fa, n, m, slc, pick(), fw, out)
            WriteLAS.write_array_section_data_to_las(fa, m, pick(), fw, ff, out)
        elif self.mode == 'chunked':
            cut = max(1, n // 2)
            fa0, fa1 = self.frame_array(0, cut), self.frame_array(cut, n)
            WriteLAS.write_curve_section_to_las(fa0, set(self.subset), out)
            WriteLAS.write_array_section_header_to_las(fa0, n, m, slc, set(self.subset), fw, out)
            WriteLAS.write_array_section_data_to_las(fa0, m, set(self.subset), fw, ff, out)
            WriteLAS.write_array_section_data_to_las(fa1, m, set(self.subset), fw, ff, out)
        else:
            raise ValueError(self.mode)
        return out.getvalue()


def _as_str(x) -> str:
    return x.decode('ascii') if isinstance(x, bytes) else x


def c10_check_text(spec: C10Spec, text: str):
    """Examine the written text directly.  Returns (problems, rows of tokens or None)."""
    bad = []
    exp_idents = [spec.channels[c]['ident'] for c in spec.expected]
    exp_units = [_as_str(spec.channels[c]['units']) for c in spec.expected]
    if not text.endswith('\n'):
        bad.append('text does not end with a newline')
    lines = text.split('\n')[:-1]
    a_lines = [i for i, ln in enumerate(lines) if ln.startswith('~A')]
    if len(a_lines) != 1:
        return bad + ['%d lines start with ~A' % len(a_lines)], None
    a = a_lines[0]
    if not lines or lines[0] != '~Curve Information Section':
        bad.append('first line is %r' % (lines[0] if lines else None))
    # curve section: lines between the title and the ~A line that are not comments
    cur = []
    for ln in lines[1:a]:
        if ln.startswith('#'):
            continue
        if '.' not in ln or ':' not in ln:
            bad.append('curve line without dot/colon: %r' % ln)
            continue
        dot = ln.index('.')
        col = ln.index(':', dot)
        cur.append((ln[:dot].strip(), ln[dot + 1:col].strip()))
    if [m for m, _u in cur] != exp_idents:
        bad.append('curve section lists %r expected %r' % ([m for m, _u in cur], exp_idents))
    elif [u for _m, u in cur] != exp_units:
        bad.append('curve section units %r expected %r' % ([u for _m, u in cur], exp_units))
    # heading
    heading = lines[a][2:].split()
    if heading != exp_idents:
        bad.append('~A heading lists %r expected %r' % (heading, exp_idents))
    # rows
    rows = [ln.split() for ln in lines[a + 1:]]
    if len(rows) != spec.n:
        bad.append('%d data rows, expected %d' % (len(rows), spec.n))
    for f, row in enumerate(rows):
        if len(row) != len(exp_idents):
            bad.append('data row %d has %d values, expected %d: %r' % (f, len(row), len(exp_idents), lines[a + 1 + f]))
            break
    return bad, rows


def c10_check_values(spec: C10Spec, rows, las) -> list:
    bad = []
    exp_idents = [spec.channels[c]['ident'] for c in spec.expected]
    exp_units = [_as_str(spec.channels[c]['units']) for c in spec.expected]
    got = [(m.mnem, m.unit) for m in las['C'].members]
    if got != list(zip(exp_idents, exp_units)):
        bad.append('read back curve section %r expected %r' % (got, list(zip(exp_idents, exp_units))))
    fa = las.frame_array
    if fa is None:
        return bad + ['no frame array read back']
    got = [(ch.ident, ch.units) for ch in fa.channels]
    if got != list(zip(exp_idents, exp_units)):
        return bad + ['read back channels %r expected %r' % (got, list(zip(exp_idents, exp_units)))]
    if las.number_of_frames() != spec.n:
        return bad + ['read back %d frames, expected %d' % (las.number_of_frames(), spec.n)]
    for col, c in enumerate(spec.expected):
        ch = spec.channels[c]
        data = np.ma.getdata(fa.channels[col].array)
        if data.shape != (spec.n, 1):
            bad.append('channel %s read back with shape %r' % (ch['ident'], data.shape))
            continue
        is_float = ch['dtype'].startswith('float')
        for f in range(spec.n):
            r = float(data[f, 0])
            token = rows[f][col]
            if not (r == float(token)):
                bad.append('frame %d channel %s: token %r read back as %r' % (f, ch['ident'], token, r))
                continue
            if math.isinf(r) or math.isnan(r):
                bad.append('frame %d channel %s: token %r' % (f, ch['ident'], token))
                continue
            src = ch['data'][f]
            s = reduce_exact(src, spec.method)
            if not is_float:
                unit = Fraction(1)
            elif spec.float_format.endswith('f'):
                unit = Fraction(1, 10 ** int(spec.float_format[1:-1]))
            else:
                unit = _unit_of_token(token)
            # The text is within half a unit of the source (exactly: decimal text against rational source); the value
            # read is the double nearest to the text (checked above), which is all a float64 channel can do.
            allow = unit / 2 + reduce_slack(src, spec.method)
            off = abs(Fraction(Decimal(token)) - s)
            if off > allow:
                bad.append('frame %d channel %s (%s %s) %s of %s: wrote %r, read %r, source %s (%.17g), off by %.6g > %.6g' % (
                    f, ch['ident'], ch['dtype'], ch['dims'], spec.method, np.asarray(src).reshape(-1).tolist()[:8], token, r,
                    s, float(s), float(off), float(allow)))
            if len(bad) > 8:
                return bad
    return bad


def c10_case(seed: int, index: int, stats: dict, verbose: bool = False):
    spec = C10Spec(_rng(seed, 'c10', index), large=(index % 20 == 7))
    for flag in sorted(spec.flags):
        if 'c10-' + flag in KNOWN_FINDINGS:
            stats['c10-' + flag] = stats.get('c10-' + flag, 0) + 1
            return False, []
    text = None
    try:
        text = spec.write()
        if verbose:
            print('---- c10 case %d %s\n%s' % (index, json.dumps(spec.describe()), text))
        problems, rows = c10_check_text(spec, text)
        if not problems:
            las = LASRead.LASRead(io.StringIO(V_SECTION + text), 'c10_%d' % index)
            problems = c10_check_values(spec, rows, las)
    except Exception as err:
        problems = ['raised %s: %s' % (type(err).__name__, err)]
    if problems:
        w = {'part': 'c10', 'seed': seed, 'case': index}
        w.update(spec.describe())
        w.update({'problems': problems[:4], 'num_problems': len(problems), 'text': _short(text or '')})
        return True, [w]
    return True, []


# ======================================================================================================================
def main() -> int:
    parser = argparse.ArgumentParser(description=__doc__.split('\n')[0])
    parser.add_argument('--seed', type=int, default=0)
    parser.add_argument('--cases', type=int, default=50, help='cases PER PART')
    parser.add_argument('--part', choices=['c09', 'c10', 'both'], default='both')
    parser.add_argument('--only', type=int, default=None, help='run only the case with this index (to reproduce a witness)')
    parser.add_argument('--verbose', action='store_true', help='print every generated text')
    parser.add_argument('--no-known-findings', action='store_true',
                        help='do not exclude the KNOWN_FINDINGS input classes (shows the known defects)')
    args = parser.parse_args()
    if args.no_known_findings:
        del KNOWN_FINDINGS[:]
    t0 = time.time()
    cases = nontrivial = 0
    found = {'c09': [], 'c10': []}
    num_bad = 0
    stats = {}
    indexes = range(args.cases) if args.only is None else [args.only]
    with tempfile.TemporaryDirectory() as tmpdir:
        for part in ('c09', 'c10'):
            if args.part not in (part, 'both'):
                continue
            for i in indexes:
                if part == 'c09':
                    nt, ws = c09_case(args.seed, i, tmpdir, stats, args.verbose)
                else:
                    nt, ws = c10_case(args.seed, i, stats, args.verbose)
                cases += 1
                nontrivial += 1 if nt else 0
                num_bad += len(ws)
                found[part].extend(ws[:MAX_WITNESSES - len(found[part])])
    # at most MAX_WITNESSES witnesses, both parts represented if both fail
    bad = found['c09'][:MAX_WITNESSES - min(len(found['c10']), MAX_WITNESSES // 2)]
    bad += found['c10'][:MAX_WITNESSES - len(bad)]
    print('c09c10_las: seed %d, %d cases, %d nontrivial, %d failing, %.1f s' % (
        args.seed, cases, nontrivial, num_bad, time.time() - t0))
    for key in sorted(stats):
        print('  %-50s %d' % (key, stats[key]))
    print(json.dumps({'cases': cases, 'nontrivial': nontrivial, 'bad': bad}))
    return 1 if bad else 0


if __name__ == '__main__':
    sys.exit(main())
