#!/usr/bin/env python
"""Bounded stand-in for property C06: LIS log pass frame sets are exact; any sub-selection is a sub-matrix.

Generates complete LIS files with an independent LIS-79 encoder (gen.lis_logical on top of gen.lis: file header,
table records, data format specification records, normal / alternate data records with explicit or implied X, file
trailer; any physical layout), indexes them with the REAL TotalDepth.LIS.core.FileIndexer.FileIndex and loads frame sets
with the REAL LogPass.setFrameSet.  The oracle is what the generator wrote.

Checked for every generated file:
  I   index: every non-data logical record at its true position with its type, in file order; table names; every field
      of file headers / trailers; number of log passes.
  P   every log pass: data record type, channel descriptions (mnemonic, units, representation code, size, samples,
      bursts), X axis declaration, true total frame count, first X value, and last X value when the frames are evenly
      spaced over more than one data record.
  L   a random sequence of loads over the log passes of the file (same File object, same LogPass objects, in any
      order, one of them the default full load): for every load the frame matrix (shape and every value), the list of
      loaded channels, the X axis value of EVERY loaded frame (implied X: first X of the record + offset * signed frame
      spacing; explicit X: first value of channel 0), the value() accessor for every (frame, channel, sample, burst),
      and that every byte read lies inside a data record that holds a requested frame.

Ranges: 1-2 logical files per LIS file; 0-3 tables (types 32/34/39) before, between and after the data; 1-2 log passes
per logical file, or a normal (type 0) and an alternate (type 1) pass with interleaved data records; 1-12 channels of
codes 68/73/79/66/56/49/50/70/77 with 1-8 samples x 1-5 bursts, and dipmeter codes 130/234; explicit X (codes
68/73/79/70) or implied X (codes 68/73/79), up/down/time, evenly spaced or with gaps; 0-8 data records of 1-9 frames:
regular, short last record, irregular, two runs; physical record payloads of 1, 7, 32, ~120, ~1000, 65531 bytes, every
trailer combination, TIF none/normal/byte-reversed; slices with any start <= stop <= frames and any step (start / step
None too), for half of the passes of <= 16 frames EVERY distinct frame selection a slice can make; channel subsets in
any order, with duplicates, empty, or None.  Case 0 of every run is the fixed shape 3 records x 5 frames x 4 channels,
implied X, including slice(0, 15, 2).  After every load the loaded arrays are overwritten with NaN through the public
accessors so that a cell a later load forgets to write cannot look right by memory reuse.

Usage: c06_lis_logpass.py --seed <int> --cases <int> [--only <case index>] [--no-known]
"""
import argparse
import json
import logging
import math
import os
import random
import sys
import time

_HERE = os.path.dirname(os.path.abspath(__file__))
sys.path[:0] = [os.path.dirname(_HERE), os.path.join(os.environ.get('PYVC_REPO', '/repo'), 'src')]

import numpy  # noqa: E402

from gen import lis as plis  # noqa: E402
from gen import lis_logical as L  # noqa: E402
from gen.files import CountingFile  # noqa: E402

logging.disable(logging.CRITICAL)

from TotalDepth.LIS.core import File, FileIndexer  # noqa: E402

# ----------------------------------------------------------------------------------------------------------------------
# Genuine defects of the unchanged repository found by this check.  Each entry names an input class that is excluded
# from exactly one comparison (see its use); run with --no-known to see the raw failures.
#
# 'implied-x-stepped-slice-record-entry':
#     LogPass.setFrameSet() on a log pass with an IMPLIED X axis (DFSR entry block 13 = 1) and a frame slice with
#     step > 1: in every data record, other than the first record that is loaded, whose first selected frame is not
#     the first frame of the record, the X axis value of that frame is computed as
#         xAxisValue(previous loaded frame, which lives in the PREVIOUS record) + offset * spacing
#     instead of  (X value recorded at the head of THIS record) + offset * spacing   (LogPass.py, EVENT_EXTRAPOLATE
#     branch: `if frInt == 0 ... else: xVal = self._frameSet.xAxisValue(frInt-1)`), and the following frames of that
#     record inherit the error.  Frame values are right; only FrameSet.xAxisValue() of frames in such records is wrong.
#     Excluded: the X axis comparison of the frames of exactly those records.
#
# 'code70-negative-overflow':
#     RepCode.readBytes(70, b) / RepCode.read70(file) raise OverflowError("can't convert negative value to unsigned
#     int") for every code 70 (32 bit fixed point) word with the sign bit set, e.g. b'\xff\x66\xc0\x00' (-153.25, the
#     LIS-79 Appendix B example): STRUCT_RC_70 is '>i' (signed) and the compiled cRepCode.from70 that overrides
#     pRepCode.from70 takes an `unsigned int`.  So indexing a file whose explicit X channel is code 70 with a negative
#     value, or loading any frame with a negative code 70 value, raises.  (A representation code defect, property C07's
#     area, that surfaces here.)  Excluded: the generator writes only non-negative code 70 values.
#
# 'implied-x-empty-channel-list':
#     setFrameSet(file, slice, []) on a log pass with an implied X axis: no read / extrapolate events are generated
#     (Type01Plan.genEvents yields nothing for an empty channel list), so FrameSet.xAxisValue(i) returns the
#     uninitialised contents of numpy.empty() for every frame.  Excluded: the X axis comparison of loads with an empty
#     channel list on implied X passes (shape, channel list and read footprint are still checked).
#
# 'failed-load-disables-logpass':
#     A setFrameSet() call whose FrameSet construction raises (e.g. a channel index past the last channel, or a slice
#     whose stop is None) happens after `del self._frameSet`, so the LogPass is left without the attribute and EVERY
#     later setFrameSet() on it, however valid, raises AttributeError("'LogPass' object has no attribute '_frameSet'").
#     Excluded: the sequence of loads contains no such invalid request (with --no-known one is inserted in about one
#     pass in eight and the loads after it are still required to be exact).
KNOWN_FINDINGS = ['implied-x-stepped-slice-record-entry', 'code70-negative-overflow', 'implied-x-empty-channel-list',
                  'failed-load-disables-logpass']
ACTIVE_KNOWN = list(KNOWN_FINDINGS)      # main() empties this with --no-known

MAX_BAD = 5


# ----------------------------------------------------------------------------------------------------------------------
# counting file
class ReadLogFile(CountingFile):
    """CountingFile that also keeps every individual read as (position, length)."""

    def __init__(self, data):
        super().__init__(data)
        self.reads = []

    def read(self, n=-1):
        p = self.tell()
        r = super().read(n)
        if r:
            self.reads.append((p, len(r)))
        return r

    def reset_footprint(self):
        super().reset_footprint()
        self.reads = []


# ----------------------------------------------------------------------------------------------------------------------
# value generators: (python value, exactly representable in the code)
def rand_value(rnd, rc):
    if rc == 68:
        k = rnd.random()
        if k < 0.15:
            return 0.0
        if k < 0.6:
            return rnd.randint(-(1 << 20), 1 << 20) / 8.0
        v = math.ldexp(rnd.randint(1 << 22, (1 << 23) - 1), rnd.randint(-60, 40) - 23)
        return v if rnd.random() < 0.5 else -v
    if rc == 73:
        return rnd.choice([rnd.randint(-(1 << 31), (1 << 31) - 1), rnd.randint(-1000, 1000), -(1 << 31), (1 << 31) - 1])
    if rc == 79:
        return rnd.choice([rnd.randint(-32768, 32767), rnd.randint(-100, 100), -32768, 32767])
    if rc in (66, 77):
        return rnd.randint(0, 255)
    if rc == 56:
        return rnd.randint(-128, 127)
    if rc == 49:
        return rnd.randint(-2048, 2047) / 2048.0 * (1 << rnd.randint(0, 15))
    if rc == 50:
        return rnd.randint(-(1 << 14), 1 << 14) / 16.0
    if rc == 70:
        w = rnd.randint(-(1 << 31), (1 << 31) - 1)
        if w < 0 and 'code70-negative-overflow' in ACTIVE_KNOWN:
            w = -1 - w
        return w / 65536.0
    raise AssertionError(rc)


MNEMS = [b'DEPT', b'GR  ', b'NPHI', b'RHOB', b'CALI', b'SP  ', b'ILD ', b'ILM ', b'SFLU', b'DT  ', b'TENS', b'DRHO',
         b'PEF ', b'WF1 ', b'WF2 ', b'TIME', b'ETIM', b'CS  ', b'C1  ', b'C2  ', b'A', b'BB', b'X1Y2']
UNITS = [b'FEET', b'M   ', b'.1IN', b'GAPI', b'PU  ', b'G/C3', b'IN  ', b'MV  ', b'OHMM', b'US/F', b'LB  ', b'    ',
         b'S   ', b'MS  ']
TABLE_NAMES = [b'CONS', b'FILM', b'PRES', b'AREA', b'PIP ', b'TOOL', b'OUTP', b'INPU', b'CO', b'LONGNAME']


class Chan:
    def __init__(self, mnem, units, rc, samples, bursts):
        self.mnem, self.units, self.rc, self.samples, self.bursts = mnem, units, rc, samples, bursts
        if rc == 130:
            self.nvals, self.size, self.word = 80, 80, 1
        elif rc == 234:
            self.nvals, self.size, self.word = 90, 90, 1
        else:
            self.word = L.RC_SIZE[rc]
            self.nvals = samples * bursts
            self.size = self.nvals * self.word

    def summary(self):
        return [self.mnem.decode('ascii'), self.rc, self.samples, self.bursts]


class Pass:
    """Everything the generator knows about one log pass."""

    def summary(self):
        return {'type': self.data_type, 'implied_x': self.implied, 'up_down': self.up_down, 'x_rc': self.x_rc,
                'spacing': self.spacing, 'frames_per_record': self.fpr, 'even': self.even,
                'channels': [c.summary() for c in self.chans]}


def gen_pass(rnd, data_type, force=None):
    """force: None, or a dict that pins the shape (used for the fixed first case)."""
    force = force or {}
    p = Pass()
    p.data_type = data_type
    p.implied = rnd.random() < 0.6
    if 'implied' in force:
        p.implied = force['implied']
    p.up_down = rnd.choice([1, 1, 255, 255, 0])                 # up, down, neither (time)
    sgn = -1 if p.up_down == 1 else 1
    # channels
    nch = rnd.choice([1, 1, 2, 2, 3, 3, 4, 5, 6, 8, 12])
    nch = force.get('nch', nch)
    mn = rnd.sample(MNEMS, nch)
    p.chans = []
    for i in range(nch):
        if i == 0 and not p.implied:
            rc = rnd.choice([68, 68, 68, 73, 79, 70])
        else:
            rc = rnd.choice([68] * 8 + [73, 73, 79, 79, 66, 66, 56, 49, 50, 70, 77] + ([130, 234] if i else []))
        if 'rc' in force:
            rc = force['rc']
        if rc in (130, 234):
            sa, bu = 1, 1
        else:
            sa = rnd.choice([1, 1, 1, 1, 1, 2, 3, 4, 8])
            bu = rnd.choice([1, 1, 1, 1, 2, 3, 5])
        if 'rc' in force:
            sa, bu = 1, 1
        p.chans.append(Chan(mn[i], rnd.choice(UNITS), rc, sa, bu))
    p.nvals = sum(c.nvals for c in p.chans)
    p.frame_size = sum(c.size for c in p.chans)
    p.col0 = []
    n = 0
    for c in p.chans:
        p.col0.append(n)
        n += c.nvals
    # frames per record pattern
    k = rnd.random()
    nrec = rnd.choice([1, 2, 2, 3, 3, 3, 4, 5, 6, 8])
    base = rnd.choice([1, 2, 3, 4, 5, 5, 6, 7, 9])
    if k < 0.04:
        fpr = []                                                 # a DFSR with no data records
    elif k < 0.35:
        fpr = [base] * nrec
    elif k < 0.6:
        fpr = [base] * (nrec - 1) + [rnd.randint(1, base)]      # short last record
    elif k < 0.8:
        fpr = [rnd.randint(1, 7) for _ in range(nrec)]
    else:
        i = rnd.randint(1, 3)
        fpr = [base] * i + [rnd.randint(1, 7)] * rnd.randint(1, 3)
    fpr = force.get('fpr', fpr)
    p.fpr = fpr
    p.nframes = sum(fpr)
    p.rec_first = []
    n = 0
    for c in fpr:
        p.rec_first.append(n)
        n += c
    p.rec_of = [r for r, c in enumerate(fpr) for _ in range(c)]
    # X axis
    p.x_units = rnd.choice([b'FEET', b'M   ', b'.1IN', b'S   ', b'MS  ']) if p.up_down else rnd.choice([b'S   ', b'MS  '])
    if p.implied:
        p.x_rc = rnd.choice([68, 68, 68, 73, 79])
    else:
        p.x_rc = p.chans[0].rc
        p.chans[0].units = p.x_units
    if p.x_rc in (68, 70):
        p.spacing = rnd.choice([0.125, 0.25, 0.5, 0.5, 1.0, 2.5, 6.0, 60.0])
        x0 = rnd.randint(-8000, 80000) / 8.0
        if p.x_rc == 70:
            # code 70 holds -32768 <= x < 32768; the X axis moves by at most 72 * 3 * 60 (< 12768) from x0
            x0 = rnd.randint(13000 * 8 if 'code70-negative-overflow' in ACTIVE_KNOWN else -20000 * 8, 20000 * 8) / 8.0
    elif p.x_rc == 73:
        p.spacing = rnd.choice([1, 2, 5, 6, 60, 600])
        x0 = rnd.randint(-100000, 1000000)
    else:
        p.spacing = rnd.choice([1, 2, 6])
        x0 = rnd.randint(-2000, 2000)
    p.spacing_rc = 68 if isinstance(p.spacing, float) else rnd.choice([68, 73, 79])
    p.even = force.get('even', rnd.random() < 0.7)
    step = sgn * p.spacing
    p.step = step
    if p.implied:
        # X of the first frame of every record is recorded; the others are implied: first + offset * signed spacing
        p.rec_x = []
        x = x0
        for r, c in enumerate(fpr):
            if r and not p.even:
                x += step * rnd.choice([0, 1, 3, 10])           # a gap (or none) between records, in the log direction
            p.rec_x.append(x)
            x += step * c
        p.x = [p.rec_x[p.rec_of[f]] + step * (f - p.rec_first[p.rec_of[f]]) for f in range(p.nframes)]
    else:
        # explicit X: first value of channel 0 of every frame; evenly spaced or wandering in the log direction
        p.x = []
        x = x0
        for f in range(p.nframes):
            p.x.append(x)
            x += step * (1 if p.even else rnd.choice([1, 1, 2, 3]))
        p.rec_x = [p.x[f] for f in p.rec_first]
    # values
    p.matrix = numpy.zeros((p.nframes, p.nvals), dtype='float64')
    p.frame_bytes = []
    for f in range(p.nframes):
        fb = b''
        col = 0
        for ci, c in enumerate(p.chans):
            for v in range(c.nvals):
                if c.rc in (130, 234):
                    val = rnd.randint(0, 255)
                    fb += bytes([val])
                else:
                    if ci == 0 and v == 0 and not p.implied:
                        val = p.x[f]
                    else:
                        val = rand_value(rnd, c.rc)
                    fb += L.encode(c.rc, val)
                p.matrix[f, col] = val
                col += 1
        assert len(fb) == p.frame_size
        p.frame_bytes.append(fb)
    # entry blocks
    p.absent = rnd.choice([-999.25, -999.25, 0.0, -9999.0])
    ebs = [(1, 66, data_type), (2, 66, 0), (4, 66, p.up_down), (13, 66, 1 if p.implied else 0)]
    # the spacing may be recorded with either sign (signed representation codes): the direction of the log is given by
    # the up/down flag, the magnitude by |spacing| - so the implied X is the same whichever sign was written
    p.spacing_recorded = -p.spacing if rnd.random() < 0.3 else p.spacing
    if p.implied or rnd.random() < 0.7:
        ebs += [(8, p.spacing_rc, p.spacing_recorded), (9, 65, p.x_units)]
    if p.implied:
        ebs += [(14, 65, p.x_units), (15, 66, p.x_rc)]
    elif rnd.random() < 0.3:
        ebs += [(14, 65, p.x_units)]
    opt = [(3, 79, p.frame_size), (5, 66, rnd.choice([1, 255, 0])), (6, 68, rnd.randint(-100, 100) / 4.0),
           (7, 65, b'.1IN'), (11, 79, max(fpr) if fpr else 1), (12, 68, p.absent), (16, 66, 0)]
    p.has_absent = False
    for e in opt:
        if rnd.random() < 0.5:
            ebs.append(e)
            if e[0] == 12:
                p.has_absent = True
    if rnd.random() < 0.5:
        rnd.shuffle(ebs)
    else:
        ebs.sort()
    p.dfsr = L.dfsr([L.entry_block(*e) for e in ebs],
                    [L.datum_spec_block(c.mnem, rnd.choice([b'DIT', b'LDT', b'', b'SONIC']), rnd.choice([b'', b'1', b'07'])
                                        , c.units, bytes([rnd.randint(0, 99) for _ in range(4)]), rnd.randint(0, 9), c.size,
                                        c.samples, c.rc, rnd.choice([0, 0, 1])) for c in p.chans])
    p.records = []
    for r, c in enumerate(fpr):
        ix = L.encode(p.x_rc, p.rec_x[r]) if p.implied else None
        p.records.append(L.data_record(data_type, p.frame_bytes[p.rec_first[r]:p.rec_first[r] + c], ix))
    return p


def gen_table(rnd):
    lr_type = rnd.choice([34, 34, 34, 32, 39])
    name = rnd.choice(TABLE_NAMES)
    rows = []
    for _ in range(rnd.randint(0, 3)):
        row = [(b'MNEM', b'', 65, rnd.choice(MNEMS))]
        for _ in range(rnd.randint(0, 3)):
            rc = rnd.choice([65, 68, 73, 79, 66])
            v = rnd.choice([b'ALLO', b'DISA', b'LONGER TEXT']) if rc == 65 else rand_value(rnd, rc)
            row.append((rnd.choice([b'STAT', b'PUNI', b'TUNI', b'VALU']), rnd.choice(UNITS), rc, v))
        rows.append(row)
    return lr_type, name, L.table_record(lr_type, name, rows)


class Case:
    pass


def gen_case(rnd, fixed=False):
    """fixed: the shape named in the property's triage note: one log pass, implied X, 3 records x 5 frames x 4 channels,
    loaded (among others) with slice(0, 15, 2)."""
    c = Case()
    lrs = []            # logical record bytes
    c.exp_index = []    # (lr index, type, kind, extra)
    c.passes = []
    nfiles = 1 if fixed else rnd.choice([1, 1, 1, 2])

    def add_table():
        t, name, b = gen_table(rnd)
        c.exp_index.append((len(lrs), t, 'table', name))
        lrs.append(b)

    def fields(i):
        return (b'FILE  .%03d' % (i + 1), rnd.choice([b'SUBLVL', b'', b'AB']), rnd.choice([b'VERS 1.0', b'  1A   ']),
                rnd.choice([b'83/12/31', b'01/02/03', b'']), rnd.choice([b' 1024', b'65535', b'8192']),
                rnd.choice([b'LO', b'CA', b'  ']))

    for fi in range(nfiles):
        fl = fields(fi)
        prev = (b'FILE  .%03d' % fi) if fi else b''
        c.exp_index.append((len(lrs), 128, 'head', fl + (prev,)))
        lrs.append(L.file_header_trailer(128, *fl, prev))
        for _ in range(rnd.choice([0, 0, 1, 2, 3])):
            add_table()
        mode = rnd.random()
        groups = []
        if fixed:
            groups.append([gen_pass(rnd, 0, dict(implied=True, nch=4, rc=68, fpr=[5, 5, 5], even=True))])
            groups[0][0].forced_slices = [slice(0, 15, 2), slice(1, 15, 3), slice(4, 15, 4)]
        elif mode < 0.2:
            groups.append([gen_pass(rnd, 0), gen_pass(rnd, 1)])       # normal and alternate data interleaved
        else:
            for _ in range(rnd.choice([1, 1, 1, 2])):
                groups.append([gen_pass(rnd, rnd.choice([0, 0, 0, 1]))])
        for g in groups:
            for p in g:
                p.lr_dfsr = len(lrs)
                c.exp_index.append((len(lrs), 64, 'pass', p))
                lrs.append(p.dfsr)
                p.lr_rec = []
                c.passes.append(p)
                if len(g) == 1 and rnd.random() < 0.15:
                    add_table()
            todo = [(p, r) for p in g for r in range(len(p.records))]
            if len(g) > 1:
                # random interleaving preserving the order within each pass
                nxt = [0] * len(g)
                order = []
                while any(nxt[i] < len(g[i].records) for i in range(len(g))):
                    i = rnd.choice([i for i in range(len(g)) if nxt[i] < len(g[i].records)])
                    order.append((g[i], nxt[i]))
                    nxt[i] += 1
                todo = order
            for p, r in todo:
                if r and rnd.random() < 0.08:
                    add_table()
                p.lr_rec.append(len(lrs))
                lrs.append(p.records[r])
        for _ in range(rnd.choice([0, 0, 0, 1])):
            add_table()
        if rnd.random() < 0.85 or fi + 1 < nfiles:
            nxt = (b'FILE  .%03d' % (fi + 2)) if fi + 1 < nfiles else b''
            c.exp_index.append((len(lrs), 129, 'tail', fl + (nxt,)))
            lrs.append(L.file_header_trailer(129, *fl, nxt))
    # physical layout
    c.has_rec = rnd.random() < 0.35
    c.has_check = rnd.random() < 0.3
    c.file_num = rnd.choice([None, None, 3, 70000])
    tlen = (2 if c.has_rec else 0) + (2 if c.file_num is not None else 0) + (2 if c.has_check else 0)
    total = sum(len(x) for x in lrs)
    c.pr_len = rnd.choice(([4 + tlen + 1] if total < 3000 else []) + [4 + tlen + 7, 32 + tlen, 128, 128, 1024, 65535, 65535])
    c.tif = rnd.choice(['none', 'none', 'tif', 'tif-reversed'])
    c.data, c.starts = plis.build(lrs, c.pr_len, c.has_rec, c.file_num, c.has_check, c.tif != 'none',
                                  c.tif == 'tif-reversed')
    c.ends = c.starts[1:] + [len(c.data) - (24 if c.tif != 'none' else 0)]
    c.lrs = lrs
    return c


def case_summary(c):
    return {'layout': {'pr_len': c.pr_len, 'record_numbers': c.has_rec, 'file_number': c.file_num,
                       'checksum': c.has_check, 'tif': c.tif},
            'logical_records': [[s, lr[0], len(lr)] for s, lr in zip(c.starts, c.lrs)],
            'file_length': len(c.data),
            'file_hex': c.data.hex() if len(c.data) <= 400 else c.data[:96].hex() + '...'}


# ----------------------------------------------------------------------------------------------------------------------
def first_diff(got, exp):
    """Small description of the first difference between two 2-D arrays of equal shape."""
    idx = numpy.argwhere(~(got == exp))
    i, j = (int(v) for v in idx[0])
    return {'at': [i, j], 'got': repr(float(got[i, j])), 'expected': repr(float(exp[i, j])), 'differing': int(len(idx))}


def check_case(c, rnd, known, stats):
    """Returns a list of failure dicts (empty: the case passed)."""
    fails = []

    def fail(what, **kw):
        d = {'what': what}
        d.update(kw)
        fails.append(d)

    fobj = ReadLogFile(c.data)
    try:
        lisf = File.FileRead(theFile=fobj, theFileId='standin', keepGoing=False)
        idx = FileIndexer.FileIndex(lisf)
    except Exception as e:          # noqa
        fail('exception while indexing', exception=repr(e))
        return fails
    # ---- I: index
    objs = list(idx.genAll())
    got = [(o.tell, o.lrType) for o in objs]
    exp = [(c.starts[i], t) for i, t, _, _ in c.exp_index]
    if got != exp or len(idx) != len(exp) or list(idx.lrTypeS) != [t for _, t in exp]:
        fail('index positions/types differ', got=got[:12], expected=exp[:12])
        return fails
    if idx.numLogPasses() != len(c.passes):
        fail('number of log passes', got=idx.numLogPasses(), expected=len(c.passes))
    ilps = list(idx.genLogPasses())
    if [o.tell for o in ilps] != [c.starts[p.lr_dfsr] for p in c.passes]:
        fail('genLogPasses positions', got=[o.tell for o in ilps])
        return fails
    for o, (i, t, kind, extra) in zip(objs, c.exp_index):
        try:
            if kind == 'table':
                if not isinstance(o, FileIndexer.IndexTable) or o.name != extra:
                    fail('table name', tell=o.tell, got=repr(getattr(o, 'name', None)), expected=repr(extra))
            elif kind in ('head', 'tail'):
                lr = o.logicalRecord
                g = (lr.fileName, lr.serviceSubLevel, lr.version, lr.date, lr.maxPrLength, lr.fileType, lr.contFileName)
                e = tuple(b.ljust(n, b' ') for b, n in zip(extra, (10, 6, 8, 8, 5, 2, 10)))
                if g != e or lr.type != t:
                    fail('file header/trailer fields', tell=o.tell, got=repr(g), expected=repr(e))
            else:
                if not isinstance(o, FileIndexer.IndexLogPass):
                    fail('DFSR not indexed as a log pass', tell=o.tell)
        except Exception as e:      # noqa
            fail('exception while reading index entry', tell=o.tell, exception=repr(e))
    if fails:
        return fails
    # ---- P: log pass descriptions
    for pi, (o, p) in enumerate(zip(ilps, c.passes)):
        lp = o.logPass
        try:
            d = lp.dfsr
            gotc = [(b.mnem, b.units, b.repCode, b.size, b.samples(0), b.bursts(0)) for b in d.dsbBlocks]
            expc = [(ch.mnem.ljust(4), ch.units.ljust(4), ch.rc, ch.size, 16 if ch.rc in (130, 234) else ch.samples,
                     1 if ch.rc in (130, 234) else ch.bursts) for ch in p.chans]
            if gotc != expc:
                fail('channel descriptions', log_pass=pi, got=repr(gotc), expected=repr(expc))
            e = d.ebs
            gote = (e.dataType, e.upDown, e.recordingMode, lp.iflrType, lp.isIndirectX, lp.type01Plan.frameSize,
                    lp.type01Plan.numChannels)
            expe = (p.data_type, p.up_down, 1 if p.implied else 0, p.data_type, p.implied, p.frame_size, len(p.chans))
            if gote != expe:
                fail('entry blocks', log_pass=pi, got=repr(gote), expected=repr(expe))
            if p.implied and (e.frameSpacing != p.spacing_recorded or e.frameSpacingUnits != p.x_units or e.depthUnits != p.x_units
                              or e.depthRepCode != p.x_rc or lp.xAxisUnits != p.x_units):
                fail('implied X declaration', log_pass=pi, got=repr((e.frameSpacing, e.frameSpacingUnits, e.depthUnits,
                                                                     e.depthRepCode, lp.xAxisUnits)))
            if not p.implied and lp.xAxisUnits != p.x_units.ljust(4):
                fail('X axis units', log_pass=pi, got=repr(lp.xAxisUnits), expected=repr(p.x_units))
            if p.has_absent and lp.nullValue != p.absent:
                fail('absent value', log_pass=pi, got=repr(lp.nullValue), expected=p.absent)
            if lp.totalFrames != p.nframes:
                fail('total frame count', log_pass=pi, got=lp.totalFrames, expected=p.nframes,
                     frames_per_record=p.fpr)
            if p.nframes:
                if lp.xAxisFirstVal != p.x[0]:
                    fail('first X value', log_pass=pi, got=repr(lp.xAxisFirstVal), expected=repr(p.x[0]))
                evenly = all(p.x[f] == p.x[0] + p.step * f for f in range(p.nframes))
                if evenly and len(p.fpr) > 1:
                    stats['last_x'] += 1
                    if lp.xAxisLastVal != p.x[-1]:
                        fail('last X value', log_pass=pi, got=repr(lp.xAxisLastVal), expected=repr(p.x[-1]),
                             frames_per_record=p.fpr, first_x=repr(p.x[0]), step=repr(p.step))
        except Exception as e:      # noqa
            fail('exception while reading log pass description', log_pass=pi, exception=repr(e))
    if fails:
        return fails
    # ---- L: sequence of loads
    live = [pi for pi, p in enumerate(c.passes) if p.nframes]
    if not live:
        return fails
    loads = build_loads(c, rnd, live, known)
    history = []
    for pi, sl, chs, invalid in loads:
        p = c.passes[pi]
        lp = ilps[pi].logPass
        desc = {'log_pass': pi, 'slice': None if sl is None else [sl.start, sl.stop, sl.step],
                'channels': None if chs is None else list(chs)}
        history.append(desc)
        ctx = dict(load=desc, pass_summary=p.summary(), earlier_loads=history[:-1][-6:])
        if invalid:
            # a request that is not a channel subset (an index past the last channel): it may raise whatever it likes,
            # but the loads that follow must be unaffected
            try:
                lp.setFrameSet(lisf, theFrSl=sl, theChList=list(chs))
            except Exception:       # noqa
                pass
            stats['invalid_requests'] += 1
            continue
        rows = list(range(p.nframes)) if sl is None else list(range(sl.start or 0, sl.stop, sl.step or 1))
        step = 1 if sl is None else (sl.step or 1)
        if chs is None:
            chl = list(range(len(p.chans)))
        else:
            chl = sorted(set(chs) | (set() if p.implied else {0}))
        cols = [p.col0[ch] + v for ch in chl for v in range(p.chans[ch].nvals)]
        expm = p.matrix[numpy.ix_(rows, cols)] if rows else numpy.zeros((0, len(cols)))
        need = sorted(set(p.rec_of[f] for f in rows))
        allowed = [(c.starts[p.lr_rec[r]], c.ends[p.lr_rec[r]]) for r in need]
        fobj.reset_footprint()
        try:
            if sl is None and chs is None:
                lp.setFrameSet(lisf)
            else:
                lp.setFrameSet(lisf, theFrSl=sl, theChList=None if chs is None else list(chs))
            fs = lp.frameSet
            gotm = fs.frames
            if gotm.shape != expm.shape or fs.numFrames != len(rows) or fs.valuesPerFrame != len(cols):
                fail('frame set shape', got=list(gotm.shape), expected=list(expm.shape), **ctx)
                break
            if list(fs.genExtChIndexes()) != chl:
                fail('loaded channel list', got=list(fs.genExtChIndexes()), expected=chl, **ctx)
                break
            if rows and not numpy.array_equal(gotm, expm):
                fail('frame values differ from the recorded values', **first_diff(gotm, expm), **ctx)
                break
            stats['loads'] += 1
            stats['values'] += gotm.size
            # X axis of every loaded frame
            skip_x = set()
            if p.implied and step > 1:
                grp = {}
                for i, f in enumerate(rows):
                    grp.setdefault(p.rec_of[f], []).append(i)
                for r in need[1:]:
                    if rows[grp[r][0]] != p.rec_first[r]:
                        skip_x.update(grp[r])
                if skip_x:
                    stats['known_class_loads'] += 1
                    if 'implied-x-stepped-slice-record-entry' not in known:
                        skip_x = set()
            n_class = len(skip_x)
            if p.implied and not chl and rows:
                stats['empty_channel_list_loads'] += 1
                if 'implied-x-empty-channel-list' in known:
                    skip_x = set(range(len(rows)))
                    n_class = 0
            gx = [float(fs.xAxisValue(i)) for i in range(len(rows))]
            ex = [float(p.x[f]) for f in rows]
            badx = [i for i in range(len(rows)) if i not in skip_x and gx[i] != ex[i]]
            if badx:
                i = badx[0]
                fail('X axis value of a loaded frame', internal_frame=i, frame=rows[i], got=repr(gx[i]), expected=repr(ex[i]),
                     wrong_frames=[rows[j] for j in badx][:10], record_first_x=[repr(v) for v in p.rec_x],
                     signed_spacing=repr(p.step), **ctx)
                break
            stats['x_values'] += len(rows) - len(skip_x)
            if n_class:
                stats['known_class_frames'] += len(skip_x)
                stats['known_class_frames_wrong'] += len([i for i in skip_x if gx[i] != ex[i]])
            # value() accessor
            if rows and (sl is None or rnd.random() < 0.3):
                for i in range(len(rows)):
                    for ch in chl:
                        cc = p.chans[ch]
                        if cc.rc in (130, 234):
                            continue
                        for sa in range(cc.samples):
                            for bu in range(cc.bursts):
                                gv = fs.value(i, ch, 0, sa, bu)
                                ev = p.matrix[rows[i], p.col0[ch] + sa * cc.bursts + bu]
                                if gv != ev:
                                    fail('value(frame, channel, 0, sample, burst)', at=[i, ch, sa, bu], got=repr(float(gv)),
                                         expected=repr(float(ev)), **ctx)
                                    raise StopIteration
            # read footprint
            outside = [(a, n) for a, n in fobj.reads if not any(lo <= a and a + n <= hi for lo, hi in allowed)]
            if outside:
                fail('read outside the data records that hold requested frames', reads=outside[:6], allowed=allowed,
                     **ctx)
                break
            if rows and len(need) < len(p.fpr):
                stats['partial_record_loads'] += 1
            # Scribble over the loaded arrays (through the public accessors) so that a later load that fails to write a
            # cell cannot look right because numpy.empty() handed it this memory again.
            gotm.fill(numpy.nan)
            if p.implied:
                for i in range(len(rows)):
                    fs.setIndirectX(i, numpy.nan)
        except StopIteration:
            break
        except Exception as e:      # noqa
            fail('exception in setFrameSet / frame set access', exception=repr(e), **ctx)
            break
    return fails


def random_channels(rnd, p):
    nch = len(p.chans)
    k = rnd.random()
    if k < 0.3:
        return None
    if k < 0.34:
        return []                                               # the empty subset
    chs = rnd.sample(range(nch), rnd.randint(1, nch))
    if rnd.random() < 0.5:
        chs.sort()
    if rnd.random() < 0.15:
        chs.append(rnd.choice(chs))                             # a duplicate
    return chs


def build_loads(c, rnd, live, known):
    """A shuffled list of (log pass index, slice or None, channel list or None, invalid?)."""
    loads = []
    for pi in live:
        p = c.passes[pi]
        n = p.nframes
        loads.append((pi, None, None, False))                   # the default full load, once per pass
        for _ in range(rnd.randint(4, 9)):
            k = rnd.random()
            if k < 0.1:
                sl = None
            elif k < 0.2:
                sl = slice(0, n, rnd.randint(1, n + 1))
            else:
                a = rnd.randint(0, n)
                b = rnd.randint(a, n)
                st = rnd.choice([1, 1, 2, 2, 3, rnd.randint(1, n + 1)])
                sl = slice(rnd.choice([a, a, None]) if a == 0 else a, b, rnd.choice([st, st, None]) if st == 1 else st)
            loads.append((pi, sl, random_channels(rnd, p), False))
        for sl in getattr(p, 'forced_slices', []):
            loads.append((pi, sl, None, False))
        if n <= 16 and rnd.random() < 0.5:
            # every distinct selection of frames that a slice can make (at most 120 of them, each once)
            seen = {}
            for a in range(n):
                for st in range(1, n + 1):
                    for cnt in range(1, (n - 1 - a) // st + 2):
                        rows = tuple(range(a, a + st * cnt, st))
                        if rows not in seen:
                            last = rows[-1]
                            seen[rows] = slice(a, rnd.randint(last + 1, min(last + st, n)), st)
            sel = list(seen.values())
            rnd.shuffle(sel)
            for sl in sel[:120]:
                loads.append((pi, sl, random_channels(rnd, p), False))
        if rnd.random() < 0.12 and 'failed-load-disables-logpass' not in known:
            loads.append((pi, slice(0, n, 1), [len(p.chans)], True))
    rnd.shuffle(loads)
    return loads


def main():
    ap = argparse.ArgumentParser()
    ap.add_argument('--seed', type=int, default=0)
    ap.add_argument('--cases', type=int, default=50)
    ap.add_argument('--only', type=int, default=None, help='run only this case index')
    ap.add_argument('--no-known', action='store_true', help='do not apply KNOWN_FINDINGS exclusions')
    a = ap.parse_args()
    if a.no_known:
        del ACTIVE_KNOWN[:]
    known = list(ACTIVE_KNOWN)
    t0 = time.time()
    stats = {'loads': 0, 'values': 0, 'x_values': 0, 'last_x': 0, 'known_class_loads': 0, 'known_class_frames': 0, 'invalid_requests': 0, 'empty_channel_list_loads': 0,
             'known_class_frames_wrong': 0, 'partial_record_loads': 0}
    bad = []
    nbad = 0
    nontrivial = 0
    ncases = 0
    for i in range(a.cases):
        if a.only is not None and i != a.only:
            continue
        rnd = random.Random('c06:%d:%d' % (a.seed, i))
        c = gen_case(rnd, fixed=(i == 0))
        ncases += 1
        before = stats['loads']
        fails = check_case(c, rnd, known, stats)
        if any(len(p.fpr) > 1 for p in c.passes) and stats['loads'] - before >= 2:
            nontrivial += 1
        if fails:
            nbad += 1
            if len(bad) < MAX_BAD:
                w = {'seed': a.seed, 'case': i, 'failure': fails[0], 'other_failures': len(fails) - 1}
                w.update(case_summary(c))
                bad.append(w)
    import TotalDepth
    print('tree under test: %s' % os.path.dirname(TotalDepth.__file__))
    print('known findings applied: %r' % known)
    print('stats: %s; failing cases: %d; %.1f s' % (json.dumps(stats), nbad, time.time() - t0))
    print(json.dumps({'cases': ncases, 'nontrivial': nontrivial, 'bad': bad}))
    return 1 if bad else 0


if __name__ == '__main__':
    sys.exit(main())
