#!/venv/bin/python
"""Bounded stand-in check for properties C03 and C04 (RP66V1 / DLIS logical format).

Every case builds a random RP66V1 file with the independent encoder gen.dlis_logical (logical format, from the
standard) on top of gen.dlis.build() (physical format, random segmentation / visible records / padding / checksums /
trailing lengths), indexes it with TotalDepth.RP66V1.core.LogicalFile.LogicalIndex and compares with what was encoded.

C03  number of logical files; per logical file the sequence of EFLR tables (encrypted records skipped), the file
     position of each table's record, and for each table: logical record type, set type and name, template (label,
     count, representation code, units, value of every column), object names in order and every cell (label, count,
     representation code, units, every value element with its Python type; template defaults for omitted
     characteristics, invariant columns from the template, trailing columns from the template, absent cells).
C04  log pass structure (frame arrays, channels, representation code, dimensions, numpy type); per frame type the
     index entries (count = non-empty data records, recorded frame number, X value = first channel value, record
     position); populate_frame_array() for the full array and for slices, samples and channel subsets in a random
     order on the same index: returned frame count, shape, dtype and every element of every channel array against
     the encoded values of the selected rows (Slice: rows of Python list slicing; Sample(s) of n frames: rows
     (k * n) // s), unselected channels empty, first channel always present.

Usage: c03c04_dlis_logical.py --seed <int> --cases <int> [--part c03|c04|both]
"""
import os
import sys

sys.path[:0] = ['/verif', os.path.join(os.environ.get('PYVC_REPO', '/repo'), 'src')]

import argparse
import io
import itertools
import json
import logging
import math
import random
import traceback
import warnings

logging.disable(logging.CRITICAL)
warnings.simplefilter('ignore')

import numpy as np

from gen import dlis
from gen import dlis_logical as dl

from TotalDepth.RP66V1.core import LogicalFile
from TotalDepth.RP66V1.core import RepCode
from TotalDepth.common import Slice

# ---------------------------------------------------------------------------------------------------------------------
# Input classes on which the UNCHANGED repository violates the property (confirmed natively, see the descriptions).
# Each entry switches off exactly the named class in the generators / the comparison; remove an entry to see the failure.
KNOWN_FINDINGS = [
    # EFLR.Object.__init__ reads one component descriptor from the object for EVERY template position, also for an
    # invariant (INVATR) template attribute, which by RP66V1 3.2.2.2 has no component in the object.  An object that
    # supplies an attribute component for a template position after an invariant attribute is therefore read out of
    # step and raises IndexError (or garbage).  Excluded: sets with such an object.  (Invariant attributes that come
    # after everything the object supplies are filled in from the template and stay in the check.)
    'invariant-attribute-before-object-attribute',
    # An object with no attribute components at all (all attributes omitted from the end, RP66V1 3.2.2.2): the reader
    # insists on one attribute component after the object name; raises ExceptionEFLRObject ('... not a attribute but a
    # Object') if another object follows, IndexError at the end of the record.  Excluded: objects with 0 components.
    'object-without-attribute-components',
    # An absent attribute (role ABSATR) in an object is not presented as None (the marker Object.attrs documents and
    # fills in only when the TEMPLATE attribute is ABSATR); the cell is an Attribute carrying the ABSATR descriptor and
    # the template's count / code / units / VALUE, so a template default value shows up for an attribute that the
    # file says is absent.  With this entry the check accepts "None or an Attribute whose component descriptor is
    # ABSATR" as the absent marker and does not look at that cell's characteristics.
    'absent-attribute-cell-not-none',
    # Representation codes 1 FSHORT, 3 FSING1, 4 FSING2, 8 FDOUB1, 9 FDOUB2, 10 CSINGL, 11 CDOUBL, 25 ATTREF are not
    # implemented (pRepCode.REP_CODES_SUPPORTED, 'Not found in practice'): ExceptionRepCode 'Unsupported Representation
    # code N' aborts the whole index.  Excluded: values / channels of these codes.
    'unsupported-representation-codes',
    # VSINGL: pRepCode.VSINGL computes (0.5 + m / 2**23) * 2**(e - 128) from the 23 bit fraction field m; VAX F
    # floating (hidden leading fraction bit 0.1m) is (0.5 + m / 2**24) * 2**(e - 128).  Bytes c0 40 00 00 are 1.5 in VAX F
    # but decode to 2.0; 19 44 00 00 (153.0) decodes to 178.0.  Pinned by tests/unit/RP66V1/core/test_RepCode.py
    # test_VSINGL (0c 44 00 80 -> 153.0, quoted from RP66V2 11.3.23).  Excluded: VSINGL with a non-zero fraction field.
    'vsingl-fraction-weight',
]
UNSUPPORTED_CODES = (1, 3, 4, 8, 9, 10, 11, 25)


def set_in_known_class(s):
    """True when the set belongs to an input class excluded by KNOWN_FINDINGS (crashes abort the whole index, so
    such sets are not generated rather than skipped in the comparison)."""
    variable = [j for j, t in enumerate(s.template) if t.role != 'INVATR']
    invariant = [j for j, t in enumerate(s.template) if t.role == 'INVATR']
    for o in s.objects:
        if 'object-without-attribute-components' in KNOWN_FINDINGS and not o.attrs:
            return True
        if 'invariant-attribute-before-object-attribute' in KNOWN_FINDINGS and invariant and o.attrs \
                and variable[len(o.attrs) - 1] > invariant[0]:
            return True
    return False


def make_options():
    codes = [c for c in dl.ALL_CODES if not ('unsupported-representation-codes' in KNOWN_FINDINGS and c in UNSUPPORTED_CODES)]
    frame_codes = [c for c in dl.NUMERIC_FIXED if c in codes]
    return dl.Options(codes=codes, frame_codes=frame_codes,
                      all_omitted='object-without-attribute-components' not in KNOWN_FINDINGS,
                      vsingl_mantissa='vsingl-fraction-weight' not in KNOWN_FINDINGS,
                      reject=set_in_known_class)


# ---------------------------------------------------------------------------------------------------------------------
class Mismatch(Exception):
    def __init__(self, what, **detail):
        super().__init__(what)
        self.what, self.detail = what, detail


def jsonable(v):
    if isinstance(v, (bytes, bytearray)):
        return 'hex:' + bytes(v[:48]).hex()
    if isinstance(v, float):
        return repr(v)
    if isinstance(v, (list, tuple)):
        return [jsonable(x) for x in list(v)[:12]]
    if isinstance(v, dict):
        return {str(k): jsonable(x) for k, x in v.items()}
    if isinstance(v, (int, str, bool)) or v is None:
        return v
    return repr(v)[:120]


def neutral(v):
    """Repository value -> neutral value of gen.dlis_logical."""
    if isinstance(v, RepCode.ObjectName):
        return ('OBNAME', v.O, v.C, v.I)
    if isinstance(v, RepCode.ObjectReference):
        return ('OBJREF', v.T, neutral(v.N))
    if isinstance(v, RepCode.DateTime):
        return ('DTIME', v.year, v.tz, v.month, v.day, v.hour, v.minute, v.second, v.millisecond)
    if type(v) in (bytes, int, float):
        return v
    return ('UNKNOWN', type(v).__name__, repr(v)[:60])


def same(a, b):
    """Equality of neutral values: same type, same value (NaN equals NaN)."""
    if isinstance(a, tuple) or isinstance(b, tuple):
        return isinstance(a, tuple) and isinstance(b, tuple) and len(a) == len(b) and all(same(x, y) for x, y in zip(a, b))
    if type(a) is not type(b):
        return False
    if isinstance(a, float):
        return (math.isnan(a) and math.isnan(b)) or (a == b and math.copysign(1, a) == math.copysign(1, b))
    return a == b


def check_characteristics(where, got, count, code, units, value):
    """got: an AttributeBase of the repository; the rest: expectation."""
    if type(got.count) is not int or got.count != count:
        raise Mismatch('count', where=where, expected=count, got=got.count)
    if type(got.rep_code) is not int or got.rep_code != code:
        raise Mismatch('representation code', where=where, expected=code, got=got.rep_code)
    if not same(got.units, units):
        raise Mismatch('units', where=where, expected=units, got=got.units)
    if value is None:
        if got.value is not None:
            raise Mismatch('value (none expected)', where=where, got=got.value)
    else:
        if not isinstance(got.value, list) or len(got.value) != len(value):
            raise Mismatch('number of value elements', where=where, expected=value, got=got.value)
        for i, (g, e) in enumerate(zip(got.value, value)):
            if not same(neutral(g), e):
                raise Mismatch('value element', where=where + ' element %d' % i, code=code, expected=e, got=neutral(g))


def check_table(where, eflr, s):
    """eflr: ExplicitlyFormattedLogicalRecord of the repository; s: SetModel that was encoded.  Returns cells compared."""
    exp = s.expected()
    if eflr.lr_type != exp['lr_type']:
        raise Mismatch('logical record type', where=where, expected=exp['lr_type'], got=eflr.lr_type)
    if not same(eflr.set.type, exp['type']) or not same(eflr.set.name, exp['name']):
        raise Mismatch('set type/name', where=where, expected=[exp['type'], exp['name']], got=[eflr.set.type, eflr.set.name])
    if len(eflr.template.attrs) != len(exp['labels']):
        raise Mismatch('number of columns', where=where, expected=len(exp['labels']), got=len(eflr.template.attrs))
    for j, (lab, (c, r, u, v)) in enumerate(zip(exp['labels'], exp['template'])):
        t = eflr.template.attrs[j]
        if not same(t.label, lab):
            raise Mismatch('column label', where='%s column %d' % (where, j), expected=lab, got=t.label)
        check_characteristics('%s template column %d' % (where, j), t, c, r, u, v)
    if len(eflr.objects) != len(exp['objects']):
        raise Mismatch('number of objects', where=where, expected=len(exp['objects']), got=len(eflr.objects))
    cells = 0
    for i, (name, row) in enumerate(exp['objects']):
        o = eflr.objects[i]
        if not same(neutral(o.name), name):
            raise Mismatch('object name', where='%s object %d' % (where, i), expected=name, got=neutral(o.name))
        if len(o.attrs) != len(row):
            raise Mismatch('number of cells', where='%s object %d' % (where, i), expected=len(row), got=len(o.attrs))
        for j, cell in enumerate(row):
            w = '%s object %d column %d' % (where, i, j)
            got = o.attrs[j]
            cells += 1
            if cell is None:
                if got is None:
                    continue
                if 'absent-attribute-cell-not-none' in KNOWN_FINDINGS and got.component_descriptor.is_absent_attribute:
                    continue
                raise Mismatch('absent attribute not marked absent', where=w, got=str(got))
            if got is None:
                raise Mismatch('cell marked absent but attribute is present', where=w, expected=cell)
            if not same(got.label, exp['labels'][j]):
                raise Mismatch('cell label', where=w, expected=exp['labels'][j], got=got.label)
            check_characteristics(w, got, *cell)
    return cells


def first_segment(lay, rec):
    k = lay['sg_lr'].index(rec)
    return lay['sg_vrp'][k], lay['sg_pos'][k]


def check_c03(idx, expect, lay, records):
    if len(idx.logical_files) != len(expect['logical_files']):
        raise Mismatch('number of logical files', expected=len(expect['logical_files']), got=len(idx.logical_files))
    cells = 0
    for q, (lf, elf) in enumerate(zip(idx.logical_files, expect['logical_files'])):
        if len(lf.eflrs) != len(elf['tables']):
            raise Mismatch('number of tables in logical file', logical_file=q, expected=len(elf['tables']), got=len(lf.eflrs),
                           expected_types=[s.type for _r, s in elf['tables']], got_types=[p.eflr.set.type for p in lf.eflrs])
        for j, ((rec, s), pe) in enumerate(zip(elf['tables'], lf.eflrs)):
            where = 'logical file %d table %d (record %d, %s)' % (q, j, rec, s.type.decode('latin-1'))
            vrp, pos = first_segment(lay, rec)
            if (pe.lrsh_position.vr_position, pe.lrsh_position.lrsh_position) != (vrp, pos):
                raise Mismatch('table record position', where=where, expected=[vrp, pos],
                               got=[pe.lrsh_position.vr_position, pe.lrsh_position.lrsh_position])
            try:
                cells += check_table(where, pe.eflr, s)
            except Mismatch as m:
                m.detail['record'] = records[rec][2]
                raise
    return cells


# ---------------------------------------------------------------------------------------------------------------------
def expected_rows(ft, c, rows):
    """Channel c of frame type ft for the given frame rows, from what was encoded."""
    ch = ft.channels[c]
    flat = [v for r in rows for v in ft.frames[r]['values'][c]]
    return np.array(flat, dtype=dl.NUMPY_DTYPE[ch.code]).reshape((len(rows),) + tuple(ch.dims))


def slice_classes(n, rnd):
    """All distinct non-empty row selections Slice(start, stop, step) can make on n frames, each with one randomly
    chosen (start, stop, step) that makes it.  Rows by Python's own list slicing."""
    rng = [None] + list(range(-n - 2, n + 3))
    steps = [None] + [x for x in range(-n - 1, n + 2) if x != 0]
    groups = {}
    base = list(range(n))
    for a in rng:
        for b in rng:
            for c in steps:
                rows = tuple(base[a:b:c])
                if rows:
                    groups.setdefault(rows, []).append((a, b, c))
    return [(rows, rnd.choice(reps)) for rows, reps in sorted(groups.items())]


def check_populate(where, lf, fa, ft, frame_slice, rows, channels, describe):
    """One populate_frame_array call and the complete comparison of its result."""
    n_ret = lf.populate_frame_array(fa, frame_slice, channels)
    if n_ret != len(rows):
        raise Mismatch('populate_frame_array return value', where=where, call=describe, expected=len(rows), got=n_ret)
    for c, ch in enumerate(ft.channels):
        arr = fa.channels[c].array
        selected = channels is None or c == 0 or ch.name[3].decode('ascii') in channels
        exp = expected_rows(ft, c, rows if selected else [])
        if arr.dtype != exp.dtype:
            raise Mismatch('channel array dtype', where=where, call=describe, channel=c, code=ch.code, expected=str(exp.dtype), got=str(arr.dtype))
        if arr.shape != exp.shape:
            raise Mismatch('channel array shape', where=where, call=describe, channel=c, selected=selected,
                           expected=list(exp.shape), got=list(arr.shape))
        if not np.array_equal(arr, exp, equal_nan=True):
            bad = np.argwhere(~((arr == exp) | (np.isnan(arr.astype(float)) & np.isnan(exp.astype(float)))))[0]
            raise Mismatch('channel array value', where=where, call=describe, channel=c, code=ch.code, dims=list(ch.dims),
                           index=[int(x) for x in bad], rows=list(rows), expected=repr(exp[tuple(bad)]), got=repr(arr[tuple(bad)]),
                           frame_bytes=ft.frames[rows[bad[0]]]['raw'][c])


def check_c04(idx, expect, lay, rnd, budget):
    calls = 0
    for q, elf in enumerate(expect['logical_files']):
        if not elf['frame_types']:
            continue
        lf = idx.logical_files[q]
        where = 'logical file %d' % q
        if lf.log_pass is None:
            raise Mismatch('no log pass', where=where)
        if len(lf.log_pass.frame_arrays) != len(elf['frame_types']):
            raise Mismatch('number of frame arrays', where=where, expected=len(elf['frame_types']), got=len(lf.log_pass.frame_arrays))
        for k, ft in enumerate(elf['frame_types']):
            fa = lf.log_pass.frame_arrays[k]
            w = '%s frame type %d' % (where, k)
            if not same(neutral(fa.ident), ft.name):
                raise Mismatch('frame array identity', where=w, expected=ft.name, got=neutral(fa.ident))
            if len(fa.channels) != len(ft.channels):
                raise Mismatch('number of channels', where=w, expected=len(ft.channels), got=len(fa.channels))
            for c, ch in enumerate(ft.channels):
                fc = fa.channels[c]
                got = (fc.ident, fc.rep_code, tuple(fc.dimensions), np.dtype(fc.np_dtype).name)
                exp = (ch.name[3].decode('ascii'), ch.code, tuple(ch.dims), dl.NUMPY_DTYPE[ch.code])
                if got != exp:
                    raise Mismatch('channel description', where=w, channel=c, expected=list(exp), got=list(got))
            # ---- the index: one entry per non-empty data record
            entries = elf['frames'][ft.name]
            n = len(entries)
            xaxis = lf.iflr_position_map.get(fa.ident)
            if xaxis is None or len(xaxis) != n or lf.num_frames(fa) != n:
                raise Mismatch('frame count', where=w, expected=n, got=None if xaxis is None else len(xaxis))
            x_dtype = np.dtype(dl.NUMPY_DTYPE[ft.channels[0].code])
            for i, (rec, fr) in enumerate(entries):
                ref = xaxis[i]
                if ref.frame_number != fr['number']:
                    raise Mismatch('frame number', where=w, frame=i, expected=fr['number'], got=ref.frame_number)
                ex = float(np.array(fr['values'][0], dtype=x_dtype)[0])
                gx = float(ref.x_axis)
                if not (gx == ex or (math.isnan(gx) and math.isnan(ex))):
                    raise Mismatch('X value', where=w, frame=i, expected=ex, got=gx)
                vrp, pos = first_segment(lay, rec)
                if (ref.logical_record_position.vr_position, ref.logical_record_position.lrsh_position) != (vrp, pos):
                    raise Mismatch('frame record position', where=w, frame=i, expected=[vrp, pos],
                                   got=[ref.logical_record_position.vr_position, ref.logical_record_position.lrsh_position])
            # ---- populate: full, then every kind of sub-selection in random order, then full again
            names = [ch.name[3].decode('ascii') for ch in ft.channels]
            all_rows = list(range(n))
            plan = []
            for rows, (a, b, c) in slice_classes(n, rnd):
                plan.append((Slice.Slice(a, b, c), list(rows), 'Slice(%s,%s,%s)' % (a, b, c)))
            for s in range(1, n + 3):
                rows = [(j * n) // s for j in range(s)] if s < n else all_rows
                plan.append((Slice.Sample(s), rows, 'Sample(%d)' % s))
            if len(plan) > budget:
                plan = rnd.sample(plan, budget)
            # channel subsets: every subset of the non-index channels (each once with all frames), a random one otherwise
            others = names[1:]
            subsets = [set(x) for r in range(len(others) + 1) for x in itertools.combinations(others, r)]
            calls_here = [(None, all_rows, 'all frames', None)]
            for sub in subsets:
                sub = set(sub)
                if rnd.random() < 0.3:
                    sub.add('NO-SUCH-CHANNEL')
                if rnd.random() < 0.3:
                    sub.add(names[0])
                calls_here.append((None, all_rows, 'all frames', sub))
            for fs, rows, text in plan:
                r = rnd.random()
                sub = None if r < 0.4 else set(rnd.choice(subsets))
                calls_here.append((fs, rows, text, sub))
            rnd.shuffle(calls_here)
            calls_here.insert(0, (None, all_rows, 'all frames', None))
            calls_here.append((None, all_rows, 'all frames', None))
            for seq, (fs, rows, text, sub) in enumerate(calls_here):
                describe = '%s channels=%s (call %d of %d on this frame array)' % (text, 'None' if sub is None else sorted(sub), seq, len(calls_here))
                check_populate(w, lf, fa, ft, fs, rows, sub, describe)
                calls += 1
    return calls


# ---------------------------------------------------------------------------------------------------------------------
def run_case(seed, case, part):
    rnd = random.Random('%d/%d/%s' % (seed, case, 'x'))
    opt = make_options()
    lp = {'c03': 0.35, 'c04': 1.0, 'both': 0.7}[part]
    records, expect = dl.random_file(rnd, opt, max_logical_files=3 if part != 'c04' else 2, log_pass_probability=lp,
                                     max_frames=16)
    data, lay = dlis.build(records, rnd)
    info = dict(seed=seed, case=case, part=part, records=len(records), file_bytes=len(data))
    stats = dict(cells=0, calls=0)
    try:
        with LogicalFile.LogicalIndex(io.BytesIO(data)) as idx:
            if part in ('c03', 'both'):
                stats['cells'] = check_c03(idx, expect, lay, records)
            else:
                # the structure is needed to address the logical files
                if len(idx.logical_files) != len(expect['logical_files']):
                    raise Mismatch('number of logical files', expected=len(expect['logical_files']), got=len(idx.logical_files))
            if part in ('c04', 'both'):
                stats['calls'] = check_c04(idx, expect, lay, rnd, budget=120)
    except Mismatch as m:
        w = dict(info, property='C03/C04', what=m.what)
        w.update(jsonable(m.detail))
        return w, stats, expect
    except Exception as err:      # the repository raised on a conformant file
        tb = traceback.extract_tb(err.__traceback__)
        w = dict(info, what='exception', exception=repr(err)[:200],
                 at=['%s:%d %s' % (os.path.basename(f.filename), f.lineno, f.name) for f in tb[-4:]],
                 record_types=[[int(e), t, len(p), int(x)] for e, t, p, x in records][:40])
        return w, stats, expect
    return None, stats, expect


def main():
    ap = argparse.ArgumentParser()
    ap.add_argument('--seed', type=int, default=0)
    ap.add_argument('--cases', type=int, default=50)
    ap.add_argument('--part', choices=['c03', 'c04', 'both'], default='both')
    ap.add_argument('--verbose', action='store_true')
    args = ap.parse_args()
    bad, nontrivial, features = [], 0, {}
    total = dict(cells=0, calls=0, tables=0, logical_files=0, frame_arrays=0, frames=0)
    for case in range(args.cases):
        w, stats, expect = run_case(args.seed, case, args.part)
        for f in expect['features']:
            features[f] = features.get(f, 0) + 1
        total['cells'] += stats['cells']
        total['calls'] += stats['calls']
        total['logical_files'] += len(expect['logical_files'])
        total['tables'] += sum(len(lf['tables']) for lf in expect['logical_files'])
        total['frame_arrays'] += sum(len(lf['frame_types']) for lf in expect['logical_files'])
        total['frames'] += sum(len(ft.frames) for lf in expect['logical_files'] for ft in lf['frame_types'])
        if stats['cells'] > 0 or stats['calls'] > 0:
            nontrivial += 1
        if w is not None:
            if len(bad) < 5:
                bad.append(w)
            if args.verbose:
                print('FAIL', json.dumps(w))
    print('part=%s seed=%d cases=%d: %s' % (args.part, args.seed, args.cases, json.dumps(total)))
    if args.verbose:
        for f in sorted(features):
            print('  feature %-28s in %d cases' % (f, features[f]))
    print('known findings excluded: %s' % ', '.join(KNOWN_FINDINGS))
    print(json.dumps(dict(cases=args.cases, nontrivial=nontrivial, bad=bad)))
    return 1 if bad else 0


if __name__ == '__main__':
    sys.exit(main())
