#!/usr/bin/env python3
"""Bounded stand-in for property C20: file type identification recognises every supported format and never crashes.

Observed: TotalDepth.util.bin_file_type.binary_file_type(file_object) and binary_file_type_from_path(path).

PART 1 - recognition.  Every case generates one valid file of each of these layouts with the harness's independent
generators (never with a writer of the repository) and requires the exact type code, through an io.BytesIO and through a
file on disk.  The size class rotates with the case number (tiny: a header record or two, one frame ... large: several
logical files / hundreds of frames, tens of kilobytes); the small files that PART 2 sweeps are checked here as well:

  RP66V1    gen.dlis_logical.random_file + gen.dlis.build (random sets / frames / segmentation / visible records); the first
            80 bytes are replaced by a storage unit label written here from RP66V1 2.3.2: sequence number 1..9999 and
            maximum record length 20..16384 (and up to 99999) right justified with blanks or zeros - numbers containing the
            digit 0 favoured -, version V1.00..V1.99, any printable identifier                       -> 'RP66V1'
  RP66V1t/tr the same file with a TIF marker before the label and before every visible record (little / big endian words)
                                                                                                      -> 'RP66V1t' / 'RP66V1tr'
  LIS       logical records from gen.lis_logical (+ reel / tape headers written here from LIS-79) beginning with a file
            header (128), a reel header (132) or a tape header (130), tables, 0..2 log passes of 0..hundreds of frames,
            cut into physical records by gen.lis.build (any maximum length from "one payload byte" to 65535, optional record
            number / file number / checksum trailers)                                                 -> 'LIS'
  LISt/LIStr the same with TIF markers, little / big endian                                           -> 'LISt' / 'LIStr'
            EXCLUDED as the property says: TIF-marked files whose first physical record is exactly 276 bytes (first marker
            'next' = 0x120): they carry the BIT signature.  Such layouts would be drawn again and counted in the statistics;
            with the 58 / 128 byte header records LIS-79 prescribes for the start of a file the first physical record is at
            most 138 bytes, so the class is in fact never drawn.
  LAS       gen.las.random_content + render, versions 1.2 and 2.0, wrapped or not, every layout knob   -> 'LAS1.2' / 'LAS2.0'
  BIT       gen.bit.build, 1..3 log passes, 1..20 channels, 1..hundreds of frames                      -> 'BIT'
  DAT       gen.dat.random_model with at least one data row, any layout                               -> 'DAT'
            (a DAT text without a data row carries nothing to trial-parse; it is only used as fuzz material)

PART 2 - totality.  For arbitrary byte strings:
  * every truncation (every length up to FULL_SWEEP, sampled beyond) of small valid files of every layout above,
  * single byte mutations at every position (up to FULL_SWEEP, sampled beyond) with several values (0x00, 0xFF, bit flips,
    blank, EBCDIC blank, random ...),
  * concatenations / splices of valid files and junk,
  * random strings over the full alphabet and over small alphabets (text, digits, EBCDIC text, label characters, low bytes),
    lengths 0..6000,
  * "near signatures": every magic number / header documented in bin_file_type.py (RCD, STK, BIT, CFBF, PDS, XML, PDF, PS,
    ZIP, TIFF, JPEG, LAS 3.0, RP66V2 label, LIS verification listing, SEG-Y card images) written here from that
    documentation, followed by random tails, truncated, and mutated,
the call must: return within TIME_LIMIT seconds of CPU time (interval timer; the call is abandoned at the limit and the
run stops after three such calls), raise nothing, return a str that is '' or a member of BINARY_FILE_TYPES_SUPPORTED
(compared with the literal list of documented codes below as well), leave the file object open at position 0 with
unchanged content, and (binary_file_type_from_path, for every 16th string) give the same answer and leave the file on
disk unchanged.  A failing input is shrunk (shortest failing prefix, chunk removal, zeroing) before it is reported; the
failure is named by exception type and the TotalDepth function that raised it.

KNOWN_FINDINGS lists the crashes of the unchanged repository (all "raises nothing" violations); matching inputs are
counted and skipped, and at the end of a run the minimal witness of each entry is tried again so that a repaired entry
shows up as removable.
"""
import argparse
import collections
import io
import json
import logging
import os
import random
import re
import signal
import struct
import sys
import tempfile
import time

sys.path.insert(0, os.path.dirname(os.path.dirname(os.path.abspath(__file__))))
sys.path.insert(0, os.path.join(os.environ.get('PYVC_REPO', '/repo'), 'src'))

logging.disable(logging.CRITICAL)

from gen import bit as gen_bit  # noqa: E402
from gen import dat as gen_dat  # noqa: E402
from gen import dlis as gen_dlis  # noqa: E402
from gen import dlis_logical as dl  # noqa: E402
from gen import las as gen_las  # noqa: E402
from gen import lis as gen_lis  # noqa: E402
from gen import lis_logical as L  # noqa: E402
from TotalDepth.util import bin_file_type  # noqa: E402

#: Genuine defects of the unchanged repository.  An input is skipped (counted, not judged) only if the observed failure AND
#: the input match the entry exactly.
KNOWN_FINDINGS = [
    # All six entries found on the pinned tree were repaired in /repo:
    #   segy-card-number-not-an-integer (ValueError in SEGY.is_segy)                       -> 'fix: SEGY.is_segy: a card whose number ...'
    #   lis-logical-record-of-one-byte, lis-datum-spec-block-zero-samples-or-code-size, lis-entry-block-2-not-an-integer,
    #   lis-entry-block-text-cut-short, lis-data-record-without-data (struct.error, ZeroDivisionError, TypeError / ValueError,
    #   AssertionError, TypeError escaping through bin_file_type._lis)                     -> 'fix: bin_file_type._lis: any failure to index ...'
    # so nothing is excluded any more: the same inputs are generated and judged, and a return of any of them is reported.
]
REPAIRED_WITNESSES = [
    {'id': 'segy-card-number-not-an-integer', 'minimal': {'runs': [['c3', 1], ['40', 3199]]}},
    {'id': 'lis-logical-record-of-one-byte', 'minimal': {'hex': '0005000080'}},
    {'id': 'lis-datum-spec-block-zero-samples-or-code-size', 'minimal': {'hex': '00310000400000004280202020202020202020202020202020202046454554000000000000000400000000440000000000'}},
    {'id': 'lis-entry-block-2-not-an-integer', 'minimal': {'hex': '000c000040000200420000ff'}},
    {'id': 'lis-entry-block-text-cut-short', 'minimal': {'hex': '000d00004000040142ff090441'}},
    {'id': 'lis-data-record-without-data', 'minimal': {'hex': '0031000040000000428020202020202020202020202020202020204645455400000000000000040000000144000000000000000600000000'}},
]

TIME_LIMIT = 2.0
#: positions / lengths that are swept completely in truncation and mutation; beyond that a sample is taken
FULL_SWEEP = 200
SAMPLE_BEYOND = 40
#: The documented type codes (keys of BINARY_FILE_TYPE_DESCRIPTIONS as documented in bin_file_type.py), kept literally so
#: that a change of the module's own set does not move the goal posts.
DOCUMENTED_CODES = frozenset([
    'RCD', 'STK', 'BIT', 'CFBF', 'PDS', 'XML', 'PDF', 'PS', 'ZIP', 'TIFF', 'JPEG', 'SEGY', 'LIS', 'LISt', 'LIStr', 'LAS1.2',
    'LAS2.0', 'LAS3.0', 'RP66V1', 'RP66V1t', 'RP66V1tr', 'RP66V2', 'ASCII', 'DAT', 'LISVER'])

KINDS = ['RP66V1', 'RP66V1t', 'RP66V1tr', 'LIS', 'LISt', 'LIStr', 'LAS1.2', 'LAS2.0', 'BIT', 'DAT']


# ----------------------------------------------------------------------------------------------------- guarded observation
class Timeout(BaseException):
    pass


def _on_timer(signum, frame):
    raise Timeout()


signal.signal(signal.SIGPROF, _on_timer)


class StopRun(Exception):
    """Raised to end the run early when calls keep running into the time limit (each costs TIME_LIMIT seconds)."""


class Obs:
    __slots__ = ('result', 'exc', 'cpu', 'failures')


def raise_site(exc):
    """'File.py:function' of the innermost frame of the traceback that lies in the TotalDepth package."""
    site, via = '?', ''
    tb = exc.__traceback__
    while tb is not None:
        code = tb.tb_frame.f_code
        if os.sep + 'TotalDepth' + os.sep in code.co_filename:
            site = '%s:%s' % (os.path.basename(code.co_filename), code.co_name)
            if code.co_name in ('_lis', '_dat') and os.path.basename(code.co_filename) == 'bin_file_type.py':
                via = ' via ' + code.co_name
        tb = tb.tb_next
    return site + via


def _judge_result(o):
    if o.exc is not None:
        if isinstance(o.exc, Timeout):
            o.failures.append('timeout')
        else:
            o.failures.append('raised:%s@%s' % (type(o.exc).__name__, raise_site(o.exc)))
        o.exc = repr(o.exc)       # do not keep frames alive
        return
    if o.cpu > TIME_LIMIT:
        o.failures.append('timeout')
    if type(o.result) is not str:
        o.failures.append('not-a-str')
    elif o.result != '' and (o.result not in DOCUMENTED_CODES or o.result not in bin_file_type.BINARY_FILE_TYPES_SUPPORTED):
        o.failures.append('undocumented-code')


def _timed(fn, arg):
    o = Obs()
    o.result, o.exc, o.failures = None, None, []
    t0 = time.process_time()
    signal.setitimer(signal.ITIMER_PROF, TIME_LIMIT)
    try:
        try:
            o.result = fn(arg)
        finally:
            signal.setitimer(signal.ITIMER_PROF, 0)
    except BaseException as e:      # noqa  (everything: the property says "raises nothing")
        if isinstance(e, KeyboardInterrupt):
            raise
        o.exc = e
    o.cpu = time.process_time() - t0
    return o


def observe(data):
    """binary_file_type on an io.BytesIO of data."""
    f = io.BytesIO(data)
    o = _timed(bin_file_type.binary_file_type, f)
    _judge_result(o)
    if o.exc is None:
        try:
            if f.closed:
                o.failures.append('file-closed')
            else:
                if f.tell() != 0:
                    o.failures.append('position-not-0')
                f.seek(0)
                if f.read() != data or f.getvalue() != data:
                    o.failures.append('content-changed')
        except Exception:      # noqa
            o.failures.append('file-unusable')
    return o


def observe_path(data, path):
    with open(path, 'wb') as f:
        f.write(data)
    o = _timed(bin_file_type.binary_file_type_from_path, path)
    _judge_result(o)
    with open(path, 'rb') as f:
        if f.read() != data:
            o.failures.append('content-changed')
    return o


# --------------------------------------------------------------------------------------------------------- known findings
def segy_card_number_not_int(data):
    if len(data) < 3200:
        return False
    text = data[:3200].decode('cp500')
    for i in range(40):
        card = text[80 * i:80 * i + 80]
        if card[0] != 'C':
            return False
        try:
            if int(card[1:3]) != i + 1:
                return False
        except ValueError:
            return True
    return False


_KNOWN_PREDICATES = {'segy-card-number-not-an-integer': segy_card_number_not_int}


def known_finding(data, failure):
    for k in KNOWN_FINDINGS:
        if re.fullmatch(k['failure'], failure) and _KNOWN_PREDICATES.get(k['id'], lambda d: True)(data):
            return k['id']
    return None


def minimal_bytes(k):
    m = k['minimal']
    return bytes.fromhex(m['hex']) if 'hex' in m else b''.join(bytes.fromhex(h) * n for h, n in m['runs'])


# -------------------------------------------------------------------------------------------------------- valid files
def storage_unit_label(rnd):
    """RP66V1 2.3.2: sequence number 4, 'V1.nn' 5, 'RECORD' 6, maximum record length 5, identifier 60."""
    seq = rnd.choice([1, 1, 2, 9, 10, 20, 100, 101, 110, 1000, 1001, 1010, 9000, 9999, rnd.randint(1, 9999), rnd.randint(1, 9999)])
    maxlen = rnd.choice([20, 100, 1000, 1024, 2000, 4096, 8192, 8192, 10000, 10240, 16000, 16384, 99999, 20480, 65000,
                         rnd.randint(20, 16384), rnd.randint(20, 16384)])
    style = rnd.choice(['blank', 'blank', 'zero', 'mixed'])

    def num(v, w):
        s = b'%d' % v
        if style == 'blank':
            return s.rjust(w, b' ')
        if style == 'zero':
            return s.rjust(w, b'0')
        pad = w - len(s)
        k = rnd.randint(0, pad)
        return b' ' * k + b'0' * (pad - k) + s
    vers = b'V1.' + (b'00' if rnd.random() < 0.8 else b'%02d' % rnd.randint(0, 99))
    k = rnd.choice([0, 0, 5, 19, 40, 60])
    ident = rnd.choice([b'Default Storage Set', b'CUSTOMER', b'', b'DLIS ATLAS 1',
                        bytes(rnd.randint(0x20, 0x7e) for _ in range(k))])
    sul = num(seq, 4) + vers + b'RECORD' + num(maxlen, 5) + ident.ljust(60)[:60]
    assert len(sul) == 80
    return sul, dict(sequence=seq, maximum_record_length=maxlen, padding=style, label=sul[:20].decode('ascii'))


def tif_wrap(chunks, big_endian):
    """TIF markers (type, previous, next: three 32 bit words) before every chunk and two end-of-file markers (the layout
    described in LIS/core/TifMarker.py)."""
    fmt = '>3L' if big_endian else '<3L'
    out = bytearray()
    prev = 0
    for c in chunks:
        tell = len(out)
        out += struct.pack(fmt, 0, prev, tell + 12 + len(c)) + c
        prev = tell
    for _ in range(2):
        tell = len(out)
        out += struct.pack(fmt, 1, prev, tell + 12)
        prev = tell
    return bytes(out)


def make_rp66v1(rnd, size, tif):
    opt = dl.Options()
    max_frames = {'tiny': 1, 'small': 4, 'medium': 16, 'large': 120}[size]
    records, _ = dl.random_file(rnd, opt, max_logical_files={'tiny': 1, 'small': 1, 'medium': 2, 'large': 3}[size],
                                log_pass_probability=0.2 if size == 'tiny' else 0.7, max_frames=max_frames)
    if size == 'tiny':
        records = records[:2]
    data, _lay = gen_dlis.build(records, rnd)
    sul, info = storage_unit_label(rnd)
    data = sul + data[80:]
    if tif is not None:
        chunks = [data[:80]]
        p = 80
        while p < len(data):
            n = (data[p] << 8) | data[p + 1]
            chunks.append(data[p:p + n])
            p += n
        assert p == len(data)
        data = tif_wrap(chunks, tif == 'r')
    info.update(records=len(records))
    return data, info


def lis_reel_tape_header(lr_type, rnd):
    """LIS-79 reel (132) / tape (130) header: service name 6, 6 blank, date 8, 2 blank, origin 4, 2 blank, name 8, 2 blank,
    continuation number 2, 2 blank, previous name 8, 2 blank, comments 74: 126 bytes after the logical record header."""
    def f(choices, n):
        return rnd.choice(choices).ljust(n)[:n]
    body = (f([b'LISTST', b'', b'RTB'], 6) + b' ' * 6 + f([b'83/12/31', b'01/02/03', b''], 8) + b'  ' + f([b'DLIS', b'CSU', b''], 4)
            + b'  ' + f([b'REEL0001', b'T1', b''], 8) + b'  ' + f([b'01', b' 1', b'99'], 2) + b'  ' + f([b'', b'REEL0000'], 8)
            + b'  ' + f([b'', b'A COMMENT', bytes(rnd.randint(0x20, 0x7e) for _ in range(74))], 74))
    assert len(body) == 126
    return bytes([lr_type, 0]) + body


_LIS_VALUES = [0.0, 1.5, -2.25, 153.0, -999.25, 1024.0, -0.125, 40000.5]


def make_lis(rnd, size, tif):
    """-> (bytes, info) or (None, info) when the layout falls in the excluded class."""
    lrs = []
    first = rnd.choice(['file', 'file', 'reel', 'tape'])
    if first == 'reel':
        lrs.append(lis_reel_tape_header(132, rnd))
        lrs.append(lis_reel_tape_header(130, rnd))
    elif first == 'tape':
        lrs.append(lis_reel_tape_header(130, rnd))
    fields = (rnd.choice([b'FILE  .001', b'RUN1  .012', b'A']), rnd.choice([b'SUBLVL', b'', b'AB']), rnd.choice([b'VERS 1.0', b'']),
              rnd.choice([b'83/12/31', b'']), rnd.choice([b' 1024', b'65535', b'8192']), rnd.choice([b'LO', b'CA', b'  ']))
    lrs.append(L.file_header_trailer(128, *fields, b''))
    n_tables = {'tiny': 0, 'small': rnd.randint(0, 1), 'medium': rnd.randint(0, 3), 'large': rnd.randint(0, 6)}[size]
    for _ in range(n_tables):
        rows = []
        for r in range(rnd.randint(0, 5)):
            row = [(b'MNEM', b'', 65, (b'M%03d' % r))]
            for _c in range(rnd.randint(0, 3)):
                rc = rnd.choice([65, 68, 73])
                v = rnd.choice([b'ALLO', b'DISA', b'LONGER TEXT']) if rc == 65 else (rnd.choice(_LIS_VALUES) if rc == 68 else rnd.randint(-5, 500))
                row.append((rnd.choice([b'STAT', b'PUNI', b'TUNI', b'VALU']), rnd.choice([b'', b'FEET', b'M']), rc, v))
            rows.append(row)
        lrs.append(L.table_record(rnd.choice([34, 34, 32, 39]), rnd.choice([b'CONS', b'TOOL', b'PRES']), rows))
    n_pass = {'tiny': rnd.randint(0, 1), 'small': rnd.randint(0, 1), 'medium': 1, 'large': rnd.randint(1, 2)}[size]
    frames_total = 0
    for _ in range(n_pass):
        nch = rnd.randint(1, 2) if size == 'tiny' else rnd.randint(1, 6)
        rcs = [68] + [rnd.choice([68, 68, 68, 73, 79, 66]) for _ in range(nch)]
        up = rnd.choice([1, 255, 0])
        ebs = [(1, 66, 0), (2, 66, 0), (4, 66, up), (13, 66, 0)]
        if rnd.random() < 0.7:
            ebs += [(8, 68, 0.5), (9, 65, b'FEET')]
        if rnd.random() < 0.5:
            ebs.append((12, 68, -999.25))
        dsbs = [L.datum_spec_block(b'DEPT' if i == 0 else b'C%03d' % i, rnd.choice([b'DIT', b'', b'SONIC']), b'', b'FEET' if i == 0 else b'MV',
                                   bytes([45, 31, 1, 1]), rnd.randint(0, 9), L.RC_SIZE[rc], 1, rc) for i, rc in enumerate(rcs)]
        lrs.append(L.dfsr([L.entry_block(*e) for e in ebs], dsbs))
        nfr = {'tiny': rnd.randint(0, 2), 'small': rnd.randint(0, 4), 'medium': rnd.randint(1, 30), 'large': rnd.randint(30, 400)}[size]
        per_rec = rnd.choice([1, 3, 8, 32])
        x = rnd.randint(0, 40000) / 4.0
        f = 0
        while f < nfr:
            fr = []
            for _k in range(min(per_rec, nfr - f)):
                b = L.encode(68, x)
                x += -0.5 if up == 1 else 0.5
                for rc in rcs[1:]:
                    b += L.encode(rc, rnd.choice(_LIS_VALUES) if rc == 68 else rnd.randint(0, 100))
                fr.append(b)
                f += 1
            lrs.append(L.data_record(0, fr))
        frames_total += nfr
    if rnd.random() < 0.85:
        lrs.append(L.file_header_trailer(129, *fields, b''))
    has_rec = rnd.random() < 0.35
    has_check = rnd.random() < 0.3
    file_num = rnd.choice([None, None, 3])
    tlen = (2 if has_rec else 0) + (2 if file_num is not None else 0) + (2 if has_check else 0)
    total = sum(len(x) for x in lrs)
    pr_len = rnd.choice(([4 + tlen + 1] if total < 1500 else []) + [4 + tlen + 7, 32 + tlen, 62 + tlen, 128, 276, 1024, 65535, 65535])
    data, _starts = gen_lis.build(lrs, pr_len, has_rec, file_num, has_check, tif is not None, tif == 'r')
    info = dict(first_record=first, logical_records=len(lrs), frames=frames_total, pr_len=pr_len, record_numbers=has_rec,
                file_number=file_num, checksum=has_check)
    if tif is not None:
        first_pr = struct.unpack('>L' if tif == 'r' else '<L', data[8:12])[0] - 12
        if first_pr == 276:
            return None, info      # shares the BIT signature: excluded by the property
    return data, info


def make_las(rnd, size, version):
    while True:
        c = gen_las.random_content(rnd, max_curves={'tiny': 2, 'small': 4, 'medium': 7, 'large': 20}[size],
                                   max_frames={'tiny': 1, 'small': 3, 'medium': 9, 'large': 300}[size])
        if c.vers == version:
            break
    wrap = rnd.random() < 0.3
    text = gen_las.render(c, rnd, wrap)
    return text.encode('ascii'), dict(version=c.vers_text, wrap=wrap, curves=c.num_curves, frames=c.num_frames)


_BIT_VALUES = [0, 1, -1, 153, 16, 4096, 255, -4095]


def make_bit(rnd, size):
    from fractions import Fraction
    passes = []
    for _ in range(1 if size == 'tiny' else rnd.randint(1, 3)):
        nch = rnd.randint(1, 3) if size == 'tiny' else rnd.randint(1, 20)
        nfr = {'tiny': 1, 'small': rnd.randint(1, 4), 'medium': rnd.randint(1, 40), 'large': rnd.randint(40, 300)}[size]
        up = rnd.random() < 0.5
        spacing = rnd.choice([Fraction(1, 4), Fraction(1, 2), 1])
        d0 = rnd.choice([1000, 11916, 500])
        d1 = d0 - spacing * (nfr - 1) if up else d0 + spacing * (nfr - 1)
        vals = _BIT_VALUES + [Fraction(1, 2), Fraction(-949, 8), Fraction(1, 16)]
        passes.append(dict(names=[b'C%03d' % c for c in range(nch)], depth_from=d0, depth_to=d1, spacing=spacing,
                           frames=[[rnd.choice(vals) for _c in range(nch)] for _f in range(nfr)],
                           block_frames=rnd.choice([1, 4, 16, 16, 64])))
    data = gen_bit.build(passes, rnd)
    return data, dict(passes=len(passes), frames=[len(p['frames']) for p in passes], channels=[len(p['names']) for p in passes])


def make_dat(rnd, size, need_rows=True):
    while True:
        # 'large': enough channels that declarations + header line + first row pass 4, 8 and 16 KiB (a mud log of 100-400 channels)
        model = gen_dat.random_model(rnd, max_other={'tiny': 1, 'small': 3, 'medium': 12, 'large': rnd.choice([30, 150, 400])}[size],
                                     max_rows={'tiny': 2, 'small': 3, 'medium': 12, 'large': 400}[size])
        if model.rows or not need_rows:
            break
    lines = gen_dat.model_lines(model, rnd)
    text = gen_dat.render(lines, rnd.choice(['\n', '\n', '\r\n']), rnd.random() < 0.85)
    return text.encode('ascii'), dict(rows=len(model.rows), columns=len(model.header))


def make_valid(kind, rnd, size, stats):
    """-> (bytes, expected code, info)."""
    for _attempt in range(200):
        if kind.startswith('RP66V1'):
            data, info = make_rp66v1(rnd, size, {'RP66V1': None, 'RP66V1t': 'n', 'RP66V1tr': 'r'}[kind])
        elif kind.startswith('LIS'):
            data, info = make_lis(rnd, size, {'LIS': None, 'LISt': 'n', 'LIStr': 'r'}[kind])
            if data is None:
                stats['excluded: TIF-marked LIS with a first record of 276 bytes'] += 1
                continue
        elif kind == 'LAS1.2':
            data, info = make_las(rnd, size, 1.2)
        elif kind == 'LAS2.0':
            data, info = make_las(rnd, size, 2.0)
        elif kind == 'BIT':
            data, info = make_bit(rnd, size)
        else:
            data, info = make_dat(rnd, size)
        info.update(kind=kind, size_class=size, bytes=len(data))
        return data, kind, info
    raise AssertionError('generator keeps producing excluded layouts')


# ------------------------------------------------------------------------------------------------------- fuzz material
def segy_text_header(rnd):
    """3200 bytes: 40 card images of 80 EBCDIC characters, each starting C01 .. C40 (SEG-Y rev 0/1 textual header)."""
    words = ['CLIENT', 'COMPANY', 'CREW NO', 'LINE', 'AREA', 'MAP ID', 'REEL NO', 'DAY-START', 'OBSERVER', 'INSTRUMENT',
             'SAMPLE INTERVAL', 'END EBCDIC']
    text = ''
    for i in range(40):
        text += ('C%2d %s' % (i + 1, rnd.choice(words))).ljust(80)[:80] if rnd.random() < 0.5 else \
            ('C%02d %s' % (i + 1, rnd.choice(words))).ljust(80)[:80]
    return text.encode('cp500')


def rp66v2_label(rnd):
    """RP66V2 part 3 section 6 table 3-1 as summarised by the module's comments: 4 + 5 + 6 + 4 + 10 + 10 + 11 + 12 + 6 + 60."""
    b = b'   1' + b'V2.00' + b'RECORD' + b'B1  ' + b'         1' + b'          ' + b'01-JAN-2001' + b'SERIAL000001' + b'      ' \
        + b'Storage set identifier'.ljust(60)
    assert len(b) == 128
    return b


def signatures(rnd):
    """[(name, bytes)]: every magic number / header documented in bin_file_type.py, written from that documentation."""
    tail = rnd.randbytes(rnd.choice([0, 1, 7, 40, 300]))
    sigs = [
        ('RCD', b'\x04\x00\x00\x00\x00\x00\x00\x00\xff\xff\xff\xff\x00\x00\x00\x00'),
        ('STK', b'\x04\x00\x00\x00\x01\x00\x00\x00\x04\x00\x00\x00'),
        ('BIT-marker', b'\x00' * 8 + b'\x20\x01\x00\x00'),
        ('BIT-marker-reversed', b'\x00' * 8 + b'\x00\x00\x01\x20'),
        ('TIF-92', b'\x00' * 8 + b'\x5c\x00\x00\x00'),
        ('TIF-92-reversed', b'\x00' * 8 + b'\x00\x00\x00\x5c'),
        ('TIF-eof', b'\x01\x00\x00\x00' + b'\x00' * 4 + b'\x0c\x00\x00\x00'),
        ('TIF-self', b'\x00' * 8 + b'\x00\x00\x00\x00'),
        ('TIF-short', b'\x00' * 8 + b'\x0d\x00\x00\x00'),
        ('TIF-huge', b'\x00' * 8 + b'\xff\xff\xff\x7f'),
        ('CFBF', b'\xd0\xcf\x11\xe0\xa1\xb1\x1a\xe1'),
        ('PDS', b'\x01\x19\xf1\xf8\xff\x82\x03\x84'),
        ('XML', b'<?xml version="1.0"?>'),
        ('PDF', b'%PDF-1.4\n'),
        ('PS', b'%!Ps-Adobe'),
        ('ZIP', b'PK\x03\x04'),
        ('TIFF', b'II*\x00'),
        ('JPEG1', b'\xff\xd8\xff\xdb'),
        ('JPEG2', b'\xff\xd8\xff\xe0\x00\x10JFIF\x00\x01'),
        ('JPEG3', b'\xff\xd8\xff\xee'),
        ('EXE', b'MZ\x90\x00'),
        ('LISVER', b'\n=LIS VERIFICATION by PETROLOG rev 1.2\n'),
        ('LISVER2', b'=LIS VERIFICATION BY PETROLOG REVISION 3\n'),
        ('LAS3.0', b'~Version\nVERS. 3.0 : CWLS LOG ASCII STANDARD\nWRAP. NO :\n'),
        ('LAS-odd', b'~V\nVERS . : \n'),
        ('LAS-odd2', b'#\n~V\n#\nVERS.' + b' ' * 200 + b'2.0' + b' ' * 200 + b':' + b' ' * 200 + b'x'),
        ('RP66V2', rp66v2_label(rnd)),
        ('SEGY', segy_text_header(rnd)),
        ('LIS-zero-length-record', b'\x00\x00\x00\x00\x80\x00'),
        ('LIS-length-4', b'\x00\x04\x00\x00' * 40),
        ('LIS-header-only', b'\x00\x06\x00\x00\x80\x00'),
        ('LIS-successor-never-ends', b'\x00\x06\x00\x01\x80\x00' + b'\x00\x06\x00\x03\x80\x00' * 30),
        ('LIS-trailers', b'\x00\x0c\x16\x00\x80\x00\x00\x01\x00\x02\x00\x03'),
        ('DAT-header-only', b'UTIM Unix Time sec\nDATE Date ddmmyy\nTIME Time hhmmss\nA a m\nUTIM DATE TIME A\n'),
        ('DAT-one-row', b'UTIM Unix Time sec\nDATE Date ddmmyy\nTIME Time hhmmss\nA a m\nUTIM DATE TIME A\n1165665017 09Dec06 11-50-17 1.5\n'),
    ]
    return [(n, s + tail) for n, s in sigs] + [(n + '-bare', s) for n, s in rnd.sample(sigs, 10)]


_ALPHABETS = {
    'full': bytes(range(256)),
    'ascii-printable': bytes(range(0x20, 0x7f)) + b'\n\n\n\r\t',
    'las-ish': b'~VERSWAP.:# 0123\n\n\r\t',
    'dat-ish': b'UTIMDAE 09-Dec.\n\t1',
    'digits-blanks': b'0123456789  ',
    'label-ish': b' 01V.RECORD9',
    'ebcdic-cards': bytes([0xC3, 0xC3, 0x40, 0x40, 0xF0, 0xF1, 0xF2, 0xF3, 0xF4, 0xF9, 0x4B, 0xC1]),
    'low': bytes([0, 0, 0, 1, 2, 4, 6, 0x0c, 0x20, 0x5c, 0x80, 0x81, 0x82, 0x84, 0xff]),
    'zeros-ones': bytes([0, 0, 0, 0, 1]),
}


def random_strings(rnd, n):
    out = []
    names = sorted(_ALPHABETS)
    for _ in range(n):
        name = rnd.choice(names)
        alpha = _ALPHABETS[name]
        k = rnd.random()
        ln = rnd.randint(0, 16) if k < 0.3 else rnd.randint(17, 400) if k < 0.8 else rnd.randint(401, 3199) if k < 0.9 \
            else rnd.randint(3200, 6000)
        out.append(('random/' + name, bytes(rnd.choices(alpha, k=ln))))
    return out


def mutation_values(rnd, b, n):
    cands = [0x00, 0xff, b ^ 0x01, b ^ 0x80, 0x20, 0x40, (b + 1) & 0xff, 0x0a, 0x30, 0x7e, 0xc3, rnd.randrange(256), rnd.randrange(256)]
    seen, out = {b}, []
    head = cands[:4]
    rest = cands[4:]
    rnd.shuffle(rest)
    for v in head[:max(1, n - 1)] + rest:
        if v not in seen:
            seen.add(v)
            out.append(v)
        if len(out) == n:
            break
    return out


def sweep_positions(rnd, n):
    if n <= FULL_SWEEP:
        return list(range(n))
    return list(range(FULL_SWEEP)) + sorted(rnd.sample(range(FULL_SWEEP, n), min(SAMPLE_BEYOND, n - FULL_SWEEP)))


# --------------------------------------------------------------------------------------------------------------- shrinking
def shrink(data, fails, budget=500):
    """Smaller byte string for which fails(bytes) is still true: shortest failing prefix, then chunk removal, then turning
    bytes into the file's most common byte (so that the witness can be described by a few runs)."""
    calls = [0]

    def test(d):
        if calls[0] >= budget:
            return False
        calls[0] += 1
        return fails(d)

    # shortest failing prefix (binary search over a usually monotone predicate, then a linear walk down)
    lo, hi = 0, len(data)
    while lo < hi:
        mid = (lo + hi) // 2
        if test(data[:mid]):
            hi = mid
        else:
            lo = mid + 1
    if hi < len(data) and test(data[:hi]):
        data = data[:hi]
    # chunk removal
    chunk = max(1, len(data) // 2)
    while chunk >= 1 and calls[0] < budget:
        i = 0
        changed = False
        while i < len(data) and calls[0] < budget:
            cand = data[:i] + data[i + chunk:]
            if len(cand) < len(data) and test(cand):
                data = cand
                changed = True
            else:
                i += chunk
        if not changed or chunk == 1:
            chunk //= 2
    # blanking (only where the input is too long to be shown in full)
    if len(data) > 160:
        for filler in (0x00, collections.Counter(data).most_common(1)[0][0]):
            chunk = max(1, len(data) // 2)
            while chunk >= 1 and calls[0] < budget:
                for i in range(0, len(data), chunk):
                    seg = data[i:i + chunk]
                    if seg != bytes([filler]) * len(seg):
                        cand = data[:i] + bytes([filler]) * len(seg) + data[i + chunk:]
                        if test(cand):
                            data = cand
                chunk //= 2
    return data


def describe_bytes(data):
    d = {'length': len(data)}
    if len(data) <= 160:
        d['hex'] = data.hex()
    else:
        runs = []
        for b in data:
            if runs and runs[-1][0] == b:
                runs[-1][1] += 1
            else:
                runs.append([b, 1])
        if len(runs) <= 40:
            d['runs'] = [['%02x' % b, n] for b, n in runs]
        else:
            d['hex_head'] = data[:128].hex()
            d['hex_tail'] = data[-32:].hex()
    return d


# -------------------------------------------------------------------------------------------------------------------- main
def main():
    ap = argparse.ArgumentParser()
    ap.add_argument('--seed', type=int, default=0)
    ap.add_argument('--cases', type=int, default=50)
    ap.add_argument('--only-case', type=int, default=None, help='replay: run just this case number of the seed')
    args = ap.parse_args()

    bad = []
    n_bad = [0]
    stats = collections.Counter()
    answers = collections.Counter()
    seen_failure_classes = set()
    nontrivial = [0]
    slowest = [0.0, None]

    with tempfile.TemporaryDirectory() as tmp:
        path = os.path.join(tmp, 'case.bin')
        counter = [0]

        def report(w):
            n_bad[0] += 1
            if len(bad) < 5:
                bad.append(w)

        def totality(data, origin, base):
            """PART 2 check of one byte string.  Returns the observation."""
            counter[0] += 1
            stats['calls: ' + origin.split('/')[0]] += 1
            o = observe(data)
            if o.cpu > slowest[0]:
                slowest[0], slowest[1] = o.cpu, origin
            obs = [('file object', o)]
            if counter[0] % 16 == 0:
                obs.append(('path', observe_path(data, path)))
                if obs[1][1].exc is None and o.exc is None and obs[1][1].result != o.result:
                    obs[1][1].failures.append('path-and-file-object-disagree')
            if o.exc is None and type(o.result) is str:
                answers[o.result] += 1
            for via, ob in obs:
                for failure in ob.failures:
                    kf = known_finding(data, failure)
                    if kf:
                        stats['skipped as known finding: ' + kf] += 1
                        continue
                    # one witness per (failure, origin class, exception text) is shrunk and kept; all are counted
                    stats['FAILED: ' + failure] += 1
                    key = (failure, origin.split('/')[0], str(ob.exc)[:60])
                    if key in seen_failure_classes:
                        n_bad[0] += 1
                        continue
                    seen_failure_classes.add(key)

                    def fails(d, failure=failure):
                        return failure in observe(d).failures and not known_finding(d, failure)
                    small = shrink(data, fails) if via == 'file object' and failure != 'timeout' else data
                    so = observe(small)
                    report(dict(base, what='identification of an arbitrary byte string: ' + failure, via=via, origin=origin,
                                observed=ob.exc if ob.exc is not None else repr(ob.result), cpu_seconds=round(ob.cpu, 3),
                                input=describe_bytes(data), shrunk_input=describe_bytes(small),
                                shrunk_observed=so.exc if so.exc is not None else repr(so.result)))
            if 'timeout' in o.failures:
                stats['timeouts'] += 1
                if stats['timeouts'] >= 3:
                    raise StopRun()
            return o

        def recognition(data, expect, info, base):
            """PART 1 check of one valid file."""
            stats['valid files: ' + expect] += 1
            for via, o in (('file object', observe(data)), ('path', observe_path(data, path))):
                fl = list(o.failures)
                if not fl and o.result != expect:
                    fl.append('misidentified')
                if 'timeout' in fl:
                    stats['timeouts'] += 1
                if fl:
                    report(dict(base, what='valid %s file: %s' % (expect, ', '.join(fl)), via=via, expected=expect,
                                observed=o.exc if o.exc is not None else repr(o.result), file=info,
                                cpu_seconds=round(o.cpu, 3), input=describe_bytes(data)))

        def run_case(case):
            rnd = random.Random('c20:%d:%d' % (args.seed, case))
            base = {'seed': args.seed, 'case': case}
            size = ['tiny', 'small', 'medium', 'large', 'medium', 'small'][case % 6]

            # ------------------------------------------------------------------ PART 1: recognition of valid files
            valid = {}
            for kind in KINDS:
                data, expect, info = make_valid(kind, rnd, size, stats)
                valid[kind] = data
                recognition(data, expect, info, base)
            nontrivial[0] += 1

            # ------------------------------------------------------------------ PART 2: arbitrary byte strings
            # (a) truncations and mutations of a SMALL valid file: one layout per case, all layouts every ten cases
            for kind in (KINDS[(case + args.seed) % len(KINDS)],):
                small = None
                for _try in range(30):
                    if kind == 'DAT' and rnd.random() < 0.2:
                        d, info = make_dat(rnd, 'tiny', need_rows=False)
                    else:
                        d, _e, info = make_valid(kind, rnd, 'tiny', stats)
                        recognition(d, kind, info, base)          # it is a valid file as well
                    if small is None or len(d) < len(small):
                        small = d
                    if len(small) <= 700:
                        break
                stats['swept small files: ' + kind] += 1
                stats['swept small files: bytes'] += len(small)
                wbase = dict(base, material=kind, material_bytes=len(small))
                for n in sweep_positions(rnd, len(small)):
                    totality(small[:n], 'truncation/%s/%d' % (kind, n), wbase)
                for p in sweep_positions(rnd, len(small)):
                    for v in mutation_values(rnd, small[p], 3 if p < 100 else 2):
                        totality(small[:p] + bytes([v]) + small[p + 1:], 'mutation/%s/%d=%02x' % (kind, p, v), wbase)
            # (b) mutations of the case's (larger) valid files at random positions, truncations at random lengths
            for kind in KINDS:
                d = valid[kind]
                for _ in range(4):
                    p = rnd.randrange(len(d))
                    v = mutation_values(rnd, d[p], 1)[0]
                    totality(d[:p] + bytes([v]) + d[p + 1:], 'mutation-large/%s/%d=%02x' % (kind, p, v), base)
                for _ in range(2):
                    n = rnd.randrange(len(d))
                    totality(d[:n], 'truncation-large/%s/%d' % (kind, n), base)
            # (c) concatenations and splices
            for _ in range(8):
                a, b = rnd.choice(KINDS), rnd.choice(KINDS)
                da, db = valid[a], valid[b]
                k = rnd.random()
                junk = bytes(rnd.randrange(256) for _ in range(rnd.choice([1, 2, 12, 80])))
                if k < 0.25:
                    s, how = da + db, 'A+B'
                elif k < 0.45:
                    s, how = da[:rnd.randrange(len(da))] + db, 'prefix(A)+B'
                elif k < 0.6:
                    s, how = junk + da, 'junk+A'
                elif k < 0.7:
                    s, how = da + junk, 'A+junk'
                elif k < 0.85:
                    s, how = da[:rnd.randrange(len(da))] + db[rnd.randrange(len(db)):], 'prefix(A)+suffix(B)'
                else:
                    s, how = da[:rnd.choice([12, 80, 92])] + db, 'head(A)+B'
                totality(s, 'concatenation/%s/%s,%s' % (how, a, b), base)
            # (d) random strings
            for origin, s in random_strings(rnd, 28):
                totality(s, origin, base)
            # (e) near signatures, their truncations and mutations
            sigs = signatures(rnd)
            for name, s in sigs:
                totality(s, 'signature/' + name, base)
            for name, s in rnd.sample(sigs, 10):
                for _ in range(3):
                    totality(s[:rnd.randrange(len(s) + 1)], 'signature-truncated/' + name, base)
                for _ in range(9):
                    p = rnd.randrange(min(len(s), 100)) if rnd.random() < 0.7 else rnd.randrange(len(s))
                    v = mutation_values(rnd, s[p], 1 if rnd.random() < 0.5 else 5)[-1]
                    totality(s[:p] + bytes([v]) + s[p + 1:], 'signature-mutated/%s/%d=%02x' % (name, p, v), base)
            # SEG-Y card images: the card number columns with other EBCDIC characters
            deck = segy_text_header(rnd) + bytes(rnd.randrange(256) for _ in range(rnd.choice([0, 400])))
            for _ in range(12):
                p = 80 * rnd.randrange(40) + rnd.randrange(4)
                v = rnd.choice([0x40, 0xC3, 0xF0, 0xF1, 0xF9, 0x4B, 0x60, 0x4E, 0x00, 0xFF, 0xC1])
                if v != deck[p]:
                    totality(deck[:p] + bytes([v]) + deck[p + 1:], 'signature-mutated/SEGY-cards/%d=%02x' % (p, v), base)

        cases_run = [0]
        try:
            for case in range(args.cases):
                if args.only_case is not None and case != args.only_case:
                    continue
                cases_run[0] += 1
                run_case(case)
        except StopRun:
            print('STOPPED EARLY in case %d: three calls exceeded the time limit of %.1f s' % (case, TIME_LIMIT))

    for k in KNOWN_FINDINGS:
        o = observe(minimal_bytes(k))
        still = any(known_finding(minimal_bytes(k), f) == k['id'] for f in o.failures)
        print('known finding %-50s minimal witness %s' % (k['id'], 'still fails (%s)' % o.exc if still else
                                                          'NO LONGER FAILS: the exclusion can be removed'))
    # witnesses of the defects repaired in /repo: tried on every run, a failure is a violation again
    for k in REPAIRED_WITNESSES:
        o = observe(minimal_bytes(k))
        if o.failures:
            bad.append({'property': 'C20', 'what': 'repaired defect %s is back: %s' % (k['id'], o.failures[0]), 'witness': k['minimal']})
    total_calls = sum(v for k, v in stats.items() if k.startswith('calls: '))
    print('identification calls on arbitrary byte strings: %d' % total_calls)
    for k in sorted(stats):
        print('  %-70s %d' % (k, stats[k]))
    print('answers for arbitrary byte strings:', json.dumps(dict(sorted(answers.items(), key=lambda kv: -kv[1]))))
    print('slowest call: %.3f s CPU (%s)' % (slowest[0], slowest[1]))
    print('failing checks: %d' % n_bad[0])
    print(json.dumps({'cases': cases_run[0], 'nontrivial': nontrivial[0], 'bad': bad}, default=repr))
    return 1 if bad else 0


if __name__ == '__main__':
    sys.exit(main())
