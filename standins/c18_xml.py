#!/usr/bin/env python3
"""Bounded stand-in for property C18: generated XML, XHTML and SVG are well-formed and carry the data unchanged.

Five families of cases (chosen per case from the case seed):

  xml   TotalDepth.util.XmlWrite.XmlStream / XhtmlStream / Element driven with random element trees whose attribute
        values and text are hostile strings.  The output is parsed with xml.etree.ElementTree (expat, an XML 1.0
        parser) and compared node by node, attribute by attribute and text slot by text slot with the tree that was
        written.
  dlis  a generated RP66V1 file (gen.dlis physical layer + gen.c18_dlis EFLR/IFLR encoders; hostile names, units,
        long names and values) is indexed with RP66V1.IndexXML.write_logical_file_sequence_to_xml; the XML must parse,
        contain one entry per table (with every object, attribute and value) and per frame type, and its run length
        entries must expand to exactly the frame numbers, record positions and X values that the generator wrote (and
        that the in-memory index holds).  The same file goes through ScanHTML.html_scan_RP66V1_file_data_content; the
        HTML must parse.
  las   a generated LAS 2.0 file with hostile mnemonics / units / values / descriptions -> LASToHTML.las_file_to_html;
        the HTML must parse and every field must be recovered from the table cells.
  lis   a generated LIS file (gen.lis physical records; headers, tables, verbatim records, a log pass) with hostile
        bytes -> LisToHtml.processFile; the HTML must parse.
  svg   SVGWriter primitives with hostile attribute strings and text; the SVG must parse and carry them unchanged.

In the xml family the writer is also stopped half way (an exception through nested `with Element` blocks, an exception
caught just outside one element, or elements opened by hand and never closed): what XmlStream.__exit__ leaves behind must
be well-formed and must be exactly what had been written.  When one of the file converters raises, whatever it had
written by then is parsed as well.

Once per invocation the repository's own example files (example_data, RP66V1 files up to 200 kB) go through the same
generators; their index XML is compared with the in-memory index it was written from.  They are not counted as cases.

Strings made of characters XML can represent must come back unchanged; for strings holding other characters the
document only has to parse.  Input classes on which the unchanged repository fails are listed in KNOWN_FINDINGS; the
class membership is decided from the generated input (never from the writer's output), such inputs are still run, and
only the failure described there is tolerated on them.

Run:  /venv/bin/python /verif/standins/c18_xml.py --seed N --cases M
      [--only K  re-run case K alone]  [--family xml|dlis|las|lis|svg]  [--no-examples]
"""
import os
import sys

sys.path[:0] = ['/verif', os.path.join(os.environ.get('PYVC_REPO', '/repo'), 'src')]

import argparse
import html.entities
import io
import json
import logging
import math
import random
import re
import struct
import tempfile
import warnings
import xml.etree.ElementTree as ET

warnings.simplefilter('ignore')
logging.disable(logging.CRITICAL)

import numpy as np

from gen import dlis as gen_dlis
from gen import c18_dlis as dl
from gen import lis as gen_lis

from TotalDepth.util import XmlWrite
from TotalDepth.util.plot import SVGWriter, Coord
from TotalDepth.common import Slice
from TotalDepth.RP66V1 import IndexXML, ScanHTML
from TotalDepth.RP66V1.core import LogicalFile
from TotalDepth.LAS import LASToHTML
from TotalDepth.LIS import LisToHtml
from TotalDepth.util import bin_file_type

# ---------------------------------------------------------------------------------------------------------------
# Findings on the unchanged repository.  Each entry names exactly one input class; inputs in the class are still
# generated and run, but a failure *of the described kind* on them is counted as "known", not as bad.  Everything
# else about those inputs (and the same input with the offending characters removed) is still checked.
KNOWN_FINDINGS = [
    # XmlStream._encode writes every code point below U+0020 as a decimal character reference ("&#001;") and every
    # non-ASCII code point through 'xmlcharrefreplace' ("&#65534;", "&#55296;").  XML 1.0 (production [2] Char and
    # WFC "Legal Character") forbids references to U+0000-U+0008, U+000B, U+000C, U+000E-U+001F, U+D800-U+DFFF,
    # U+FFFE and U+FFFF, so a single such character in an attribute value or in text makes the whole document
    # unparseable.  The C0 case is pinned by tests/unit/test_util/test_XmlWrite.py.
    'non_xml_char_written_as_character_reference',
    # IndexXML decodes IDENT / UNITS / long name / description / set name bytes with .decode('ascii'): one byte >= 0x80
    # (e.g. the degree sign b'\xb0' in a units string, which EFLR.stringify_value itself says occurs in practice) raises
    # UnicodeDecodeError and no index is written.
    'rp66v1_index_non_ascii_byte_in_ident_or_units',
    # A logical file with two frame types of which one has frame data and the other has none (legal: a FRAME object
    # without IFLRs): IndexXML.log_pass_to_XML raises ExceptionLogPassXML('Missing ident ...') and
    # ScanHTML._write_frame_array_in_html raises KeyError, because LogicalFile.iflr_position_map only has entries for
    # frame types that were seen in an IFLR.  No index / no HTML for the file.
    'rp66v1_frame_type_without_frame_data',
    # The run length encoder (common/Rle.py RLEItem.add) takes a float64 value into a run when it is math.isclose
    # (rel_tol = machine epsilon) to datum + stride * n, so for double precision X values on a decimal grid
    # (2743.2 + k * 0.1524) the datum/stride/repeat entries expand to numbers that differ from the X values of the
    # in-memory index in the last bit(s): not "exactly".  Integer, single precision and dyadic X values are exact.
    'rp66v1_index_xaxis_run_absorbs_values_one_ulp_off',
    # ScanHTML._write_frame_array_in_html formats np_summary.summarise_array(...).min etc. without the "is None" test
    # that LASToHTML has: summarise_array returns None for a channel with at most one value that is not the absent
    # marker (-999.25 / -999) in the frames selected, e.g. every frame type with a single frame.  AttributeError, no HTML.
    'rp66v1_html_channel_with_at_most_one_value',
    # XAxis.compute_spacing asks numpy for a 10 bin histogram of the X spacing whenever min != max; for a double
    # precision X axis on a decimal grid near zero (0.0, 0.1, 0.2, 0.3, 0.4) the spacings differ by one ulp and numpy
    # raises ValueError('Too many bins for data range...').  No HTML.
    'rp66v1_html_xaxis_spacing_histogram',
    # LIS FileIndexer.IndexFileHeadTail.tocStr decodes the file name of a file header / trailer record with
    # .decode('ascii') (every other field of these records is decoded with 'replace'): one byte >= 0x80 in the name
    # raises UnicodeDecodeError in LisToHtml._writeHtmlToc and no HTML is produced.
    'lis_html_non_ascii_byte_in_file_name',
]
# ---------------------------------------------------------------------------------------------------------------

# The repository's own example LIS files hold NUL and other control bytes in text records and table values: their HTML
# is not well-formed for the reason given under 'non_xml_char_written_as_character_reference'.
KNOWN_EXAMPLE_FILES = {
    'DILLSON-1_WELL_LOGS_FILE-013.LIS': 'non_xml_char_written_as_character_reference',
    'DILLSON-1_WELL_LOGS_FILE-037.LIS': 'non_xml_char_written_as_character_reference',
    'DILLSON-1_WELL_LOGS_FILE-049.LIS': 'non_xml_char_written_as_character_reference',
}

XHTML_NS = 'http://www.w3.org/1999/xhtml'
SVG_NS = 'http://www.w3.org/2000/svg'
XML_NS = 'http://www.w3.org/XML/1998/namespace'


def is_xml_char(cp):
    """XML 1.0 production [2] Char."""
    return cp in (0x9, 0xA, 0xD) or 0x20 <= cp <= 0xD7FF or 0xE000 <= cp <= 0xFFFD or 0x10000 <= cp <= 0x10FFFF


def representable(s):
    return all(is_xml_char(ord(c)) for c in s)


def strip_unrepresentable(s):
    return ''.join(c for c in s if is_xml_char(ord(c)))


# ---- hostile strings -------------------------------------------------------------------------------------------
MARKUP = ['<', '>', '&', "'", '"', '<', '&', ']]>', '&amp;', '&lt;', '&#1;', '&#x41;', '&nbsp;', '<!--', '-->', '<?',
          '?>', '</a>', '<a b="c">', '<![CDATA[', '%', ';', '#', '=', '/', '\\']
PLAIN = list('abcXYZ019 _-.:,()[]{}')
SPACE = [' ', '  ', '\t', '\n', '\r', '\r\n', ' \n ']
NON_ASCII = ['\x7f', '\x80', '\x85', '\x9f', '\xa0', '\xb0', '\xe9', '\xff', '\u0100', '\u03a9', '\u2028', '\u2707',
             '\u4e2d', '\ud7ff', '\ue000', '\ufffd', '\U00010000', '\U0001f600', '\U0010ffff']
NOT_XML = [chr(c) for c in list(range(0, 9)) + [0xB, 0xC] + list(range(0xE, 0x20))] \
    + ['\ufffe', '\uffff', '\ud800', '\udbff', '\udc00', '\udfff']


def hostile(rnd, bad=False, maxlen=12, pools=None):
    """A short string mixing markup, quotes, white space, non-ASCII and (if bad) characters XML cannot represent."""
    if pools is None:
        pools = [MARKUP, MARKUP, PLAIN, PLAIN, SPACE, NON_ASCII]
    pools = list(pools)
    if bad:
        pools += [NOT_XML, NOT_XML]
    n = rnd.choice([0, 1, 1, 2, 3, 5, 8, maxlen])
    return ''.join(rnd.choice(rnd.choice(pools)) for _ in range(n))


SAFE = 'abcdefghijklmnopqrstuvwxyzABCDEFGHIJKLMNOPQRSTUVWXYZ0123456789 _.,'


def safe_text(rnd, n=None):
    return ''.join(rnd.choice(SAFE) for _ in range(n if n is not None else rnd.randint(0, 10)))


# ---- parsing ---------------------------------------------------------------------------------------------------
HTML_ENTITIES = {k: v for k, v in html.entities.entitydefs.items()}


def parse_xml(data, html_entities=False):
    """Parse bytes with expat through ElementTree, keeping comments and processing instructions as nodes.
    With html_entities the XHTML 1.0 entity set (which the referenced external DTD declares) is supplied, the way the
    ElementTree documentation prescribes for documents with an external subset."""
    parser = ET.XMLParser(target=ET.TreeBuilder(insert_comments=True, insert_pis=True))
    if html_entities:
        parser.entity.update(HTML_ENTITIES)
    parser.feed(data)
    return parser.close()


def codec_of(enc):
    return {'us-ascii': 'ascii'}.get(enc.lower(), enc)


class Outcome:
    def __init__(self):
        self.cases = 0
        self.nontrivial = 0
        self.bad = []
        self.known = {}
        self.family = {}
        self.wit = {}

    def add_bad(self, witness):
        """witness: dict with 'what' (+ details); the parameters of the current case are added."""
        w = dict(what=witness['what'])
        w.update(self.wit)
        w.update(witness)
        self.bad.append(w)

    def add_known(self, name):
        self.known[name] = self.known.get(name, 0) + 1


def short(s, n=160):
    r = repr(s)
    return r if len(r) <= n else r[:n] + '...'


# ================================================================================================================
# Family 1: XmlWrite
# ================================================================================================================
NAME_START = 'abcdefghijklmnopqrstuvwxyzABCDEFGHIJKLMNOPQRSTUVWXYZ_'
NAME_REST = NAME_START + '0123456789-.'
NAME_NON_ASCII = '\xe9\u03a9\u4e2d'


def xml_name(rnd, non_ascii=False):
    s = rnd.choice(NAME_START + (NAME_NON_ASCII if non_ascii else ''))
    for _ in range(rnd.randint(0, 6)):
        s += rnd.choice(NAME_REST + (NAME_NON_ASCII if non_ascii else ''))
    if s.lower().startswith('xml'):
        s = 'n' + s
    return s


LITERALS = [('&#65;', 'A'), ('&amp;', '&'), ('plain', 'plain'), ('&#x3c;', '<'), ('', '')]


def plan_tree(rnd, depth, bad, non_ascii_names, xhtml, budget, ascii_js=True):
    """A random element: dict(name, attrs, items, how).  items are
    ('t', str) characters(); ('e', element); ('c', str) comment; ('p', target, str) processing instruction;
    ('l', raw, parsed) literal(); ('br', str) charactersWithBr() [XHTML]; ('js', str) writeECMAScript()."""
    el = dict(name=xml_name(rnd, non_ascii_names), attrs={}, items=[], preserve=rnd.random() < 0.1,
              # an exception raised inside the element after this many items and caught by the caller just outside it
              local_abort=None)
    for _ in range(rnd.choice([0, 0, 1, 1, 2, 3, 6])):
        el['attrs'][xml_name(rnd, non_ascii_names)] = hostile(rnd, bad)
    n = rnd.choice([0, 1, 1, 2, 3, 4, 6]) if depth > 0 else rnd.choice([0, 0, 1, 2])
    for _ in range(n):
        if budget[0] <= 0:
            break
        budget[0] -= 1
        k = rnd.random()
        if k < 0.40:
            el['items'].append(('t', hostile(rnd, bad, maxlen=30)))
        elif k < 0.75 and depth > 0:
            el['items'].append(('e', plan_tree(rnd, depth - 1, bad, non_ascii_names, xhtml, budget, ascii_js)))
        elif k < 0.80:
            # comment text: XML forbids '--' inside and '-' at the end of a comment and the writer has no escape for
            # it, so '-' is left out here (comments are outside the property's attribute/text claim)
            if rnd.random() < 0.5:
                el['items'].append(('c', safe_text(rnd), True))
            else:
                el['items'].append(('c', hostile(rnd, bad).replace('-', ''), False))
        elif k < 0.84:
            if rnd.random() < 0.5:
                el['items'].append(('p', xml_name(rnd), safe_text(rnd, rnd.randint(1, 8)).strip() or 'd', True))
            else:
                el['items'].append(('p', xml_name(rnd), hostile(rnd, bad), False))
        elif k < 0.90:
            raw, parsed = rnd.choice(LITERALS + ([('&nbsp;', '\xa0'), ('&eacute;', '\xe9')] if xhtml else []))
            el['items'].append(('l', raw, parsed))
        elif k < 0.96 and xhtml:
            el['items'].append(('br', hostile(rnd, bad, maxlen=20, pools=[MARKUP, PLAIN, ['\n', '\n', '\n\n'], NON_ASCII])))
        elif k < 0.98:
            # the script goes to the file as it is (inside a CDATA section): it is the caller's business to keep it
            # within the declared encoding, free of ']]>' and (for fidelity) of bare carriage returns
            s = hostile(rnd, False, maxlen=20).replace(']]>', ']] >').replace('\r', '')
            if ascii_js:
                s = ''.join(c for c in s if ord(c) < 128)
            el['items'].append(('js', s))
        else:
            el['items'].append(('t', ''))
    if rnd.random() < 0.25:
        el['local_abort'] = rnd.randint(0, len(el['items']))
    return el


class Abort(Exception):
    pass


class LocalAbort(Exception):
    pass


class Emitter:
    """Drives the writer from a plan and records, call by call, the tree that has actually been written."""

    def __init__(self, stream, mode, rnd, stop_after):
        self.s = stream
        self.mode = mode                # 'with' | 'manual' | 'mixed'
        self.rnd = rnd
        self.calls = 0
        self.stop_after = stop_after    # None or number of writer calls after which writing stops
        self.stopped = False

    def tick(self):
        self.calls += 1
        if self.stop_after is not None and self.calls > self.stop_after:
            if self.mode == 'with':
                raise Abort()           # propagates through every Element.__exit__ and XmlStream.__exit__
            self.stopped = True         # manual mode: just stop; XmlStream.__exit__ must close what is open
        return self.stopped

    def element(self, plan, exp_items):
        if self.tick():
            return
        use_with = self.mode == 'with' or (self.mode == 'mixed' and self.rnd.random() < 0.5)
        exp = dict(name=plan['name'], attrs=dict(plan['attrs']), items=[])
        exp_items.append(('e', exp))
        if use_with:
            try:
                with XmlWrite.Element(self.s, plan['name'], plan['attrs'] if plan['attrs'] or self.rnd.random() < 0.5 else None):
                    self.body(plan, exp, plan.get('local_abort'))
            except LocalAbort:
                pass                    # Element.__exit__ has closed the element: writing goes on after it
        else:
            self.s.startElement(plan['name'], plan['attrs'])
            self.body(plan, exp)
            if not self.stopped:
                self.s.endElement(plan['name'])

    def body(self, plan, exp, local_abort=None):
        if plan['preserve']:
            self.s.xmlSpacePreserve()
        for n_item, it in enumerate(plan['items']):
            if local_abort is not None and n_item == local_abort and not self.stopped:
                raise LocalAbort()
            if it[0] == 'e':
                self.element(it[1], exp['items'])
                if self.stopped:
                    return
                continue
            if self.tick():
                return
            if it[0] == 't':
                self.s.characters(it[1])
                exp['items'].append(('t', it[1]))
            elif it[0] == 'c':
                self.s.comment(it[1])
                exp['items'].append(it)
            elif it[0] == 'p':
                self.s.pI(it[1] + ' ' + it[2])
                exp['items'].append(it)
            elif it[0] == 'l':
                self.s.literal(it[1])
                exp['items'].append(('t', it[2]))
            elif it[0] == 'br':
                self.s.charactersWithBr(it[1])
                if it[1]:
                    parts = it[1].split('\n')
                    for i, part in enumerate(parts):
                        exp['items'].append(('t', part))
                        if i < len(parts) - 1:
                            exp['items'].append(('e', dict(name='br', attrs={}, items=[])))
            elif it[0] == 'js':
                self.s.writeECMAScript(it[1])
                # <script type="text/ecmascript">\n//<![CDATA[\n ... \n// ]]>\n</script>
                exp['items'].append(('e', dict(name='script', attrs={'type': 'text/ecmascript'},
                                               items=[('t', '\n//\n' + it[1] + '\n// \n')])))
        if local_abort is not None and local_abort >= len(plan['items']) and not self.stopped:
            raise LocalAbort()


INDENT_RE = re.compile(r'\n(  )*\Z')


def compare_element(exp, el, ns, path, errs):
    """exp: recorded element; el: parsed ElementTree element."""
    want_tag = ('{%s}%s' % (ns, exp['name'])) if ns else exp['name']
    if el.tag != want_tag:
        errs.append('%s: tag %r, expected %r' % (path, el.tag, want_tag))
        return
    got_attrs = dict(el.attrib)
    want_keys = set()
    for k, v in exp['attrs'].items():
        if k == 'xmlns':
            continue
        kk = '{%s}%s' % (XML_NS, k[4:]) if k.startswith('xml:') else k
        want_keys.add(kk)
        if kk not in got_attrs:
            errs.append('%s: attribute %r missing' % (path, k))
        elif representable(v) and got_attrs[kk] != v:
            errs.append('%s: attribute %r is %s, written %s' % (path, k, short(got_attrs[kk]), short(v)))
    extra = set(got_attrs) - want_keys
    if extra:
        errs.append('%s: unexpected attributes %r' % (path, sorted(extra)))
    # text slots and structural children
    want_slots = ['']
    slot_ok = [True]
    want_nodes = []
    for it in exp['items']:
        if it[0] == 't':
            want_slots[-1] += it[1]
            if not representable(it[1]):
                slot_ok[-1] = False
        else:
            want_nodes.append(it)
            want_slots.append('')
            slot_ok.append(True)
    got_nodes = list(el)
    got_slots = [el.text or ''] + [(c.tail or '') for c in got_nodes]
    if len(got_nodes) != len(want_nodes):
        errs.append('%s: %d child nodes, written %d' % (path, len(got_nodes), len(want_nodes)))
        return
    for i, (w, g) in enumerate(zip(want_slots, got_slots)):
        if not slot_ok[i]:
            continue
        if w == '':
            # only pretty-printing white space (new line + indentation) may appear where no text was written
            if g != '' and not INDENT_RE.match(g):
                errs.append('%s: text slot %d is %s, nothing was written' % (path, i, short(g)))
        elif g != w:
            errs.append('%s: text slot %d is %s, written %s' % (path, i, short(g), short(w)))
    for i, (w, g) in enumerate(zip(want_nodes, got_nodes)):
        p = '%s/%s[%d]' % (path, exp['name'], i)
        if w[0] == 'e':
            if not isinstance(g.tag, str):
                errs.append('%s: expected element, got %r' % (p, g.tag))
            else:
                compare_element(w[1], g, ns, p, errs)
        elif w[0] == 'c':
            if g.tag is not ET.Comment:
                errs.append('%s: expected comment, got %r' % (p, g.tag))
            elif w[2] and g.text != w[1]:
                errs.append('%s: comment is %s, written %s' % (p, short(g.text), short(w[1])))
        elif w[0] == 'p':
            if g.tag is not ET.ProcessingInstruction:
                errs.append('%s: expected processing instruction, got %r' % (p, g.tag))
            elif w[3] and g.text != w[1] + ' ' + w[2]:
                errs.append('%s: processing instruction is %s, written %s' % (p, short(g.text), short(w[1] + ' ' + w[2])))


def map_plan_strings(plan, fn):
    out = dict(name=plan['name'], attrs={k: fn(v) for k, v in plan['attrs'].items()}, items=[], preserve=plan['preserve'],
               local_abort=plan.get('local_abort'))
    for it in plan['items']:
        if it[0] == 'e':
            out['items'].append(('e', map_plan_strings(it[1], fn)))
        elif it[0] == 't':
            out['items'].append(('t', fn(it[1])))
        elif it[0] == 'c':
            out['items'].append(('c', fn(it[1]), it[2]))
        elif it[0] == 'p':
            out['items'].append(('p', it[1], fn(it[2]), it[3]))
        elif it[0] == 'br':
            out['items'].append(('br', fn(it[1])))
        else:
            out['items'].append(it)
    return out


def plan_has_unrepresentable(plan):
    found = [False]

    def fn(s):
        if not representable(s):
            found[0] = True
        return s
    map_plan_strings(plan, fn)
    return found[0]


def run_xml_doc(plan, xhtml, enc, mode, stop_after, rnd_state, tmpdir, to_path):
    """Write one document; returns (bytes, recorded expected root, aborted flag)."""
    rnd = random.Random(rnd_state)
    if to_path:
        path = os.path.join(tmpdir, 'doc.xml')
        fout = path
    else:
        fout = io.StringIO()
    cls = XmlWrite.XhtmlStream if xhtml else XmlWrite.XmlStream
    top = []
    aborted = False
    try:
        with cls(fout, enc) if enc != 'utf-8' or rnd.random() < 0.5 else cls(fout) as s:
            em = Emitter(s, mode, rnd, stop_after)
            if xhtml:
                # the stream has opened <html> itself: the plan's root's children are written inside it
                for it in plan['items']:
                    if it[0] == 'e':
                        em.element(it[1], top)
                        if em.stopped:
                            break
            else:
                em.element(plan, top)
    except Abort:
        aborted = True
    if to_path:
        with open(path, 'rb') as f:
            data = f.read()
    else:
        data = fout.getvalue().encode(codec_of(enc))
    if xhtml:
        exp = dict(name='html', attrs={'xmlns': XHTML_NS, 'xml:lang': 'en', 'lang': 'en'}, items=top)
    else:
        exp = top[0][1] if top else None
    return data, exp, aborted


def case_xml(rnd, out, tmpdir, wit):
    bad = rnd.random() < 0.25
    xhtml = rnd.random() < 0.35
    enc = rnd.choice(['utf-8', 'utf-8', 'utf-8', 'UTF-8', 'us-ascii', 'iso-8859-1', 'latin-1', 'ascii'])
    to_path = rnd.random() < 0.15
    non_ascii_names = enc.lower() == 'utf-8' and not to_path and rnd.random() < 0.3
    mode = rnd.choice(['with', 'with', 'manual', 'mixed'])
    plan = plan_tree(rnd, rnd.choice([1, 2, 3, 4, 6]), bad, non_ascii_names, xhtml, [rnd.choice([5, 20, 60])],
                     ascii_js=enc.lower() != 'utf-8' or to_path)
    if xhtml:
        plan['items'] = [it for it in plan['items'] if it[0] == 'e']
    stop_after = rnd.randint(1, 25) if mode in ('with', 'manual') and rnd.random() < 0.35 else None
    state = rnd.getrandbits(64)
    wit.update(xhtml=xhtml, enc=enc, mode=mode, stop_after=stop_after, to_path=to_path)

    def check(the_plan):
        try:
            data, exp, aborted = run_xml_doc(the_plan, xhtml, enc, mode, stop_after, state, tmpdir, to_path)
        except XmlWrite.ExceptionXml as err:
            return False, b'', 'the writer raised %r on a correct sequence of calls' % err
        if exp is None:
            return None, data, 'nothing written'
        try:
            root = parse_xml(data, html_entities=xhtml)
        except ET.ParseError as err:
            return False, data, 'not well-formed: %s' % err
        errs = []
        compare_element(exp, root, XHTML_NS if xhtml else None, '', errs)
        if errs:
            return False, data, '; '.join(errs[:3])
        return True, data, ''

    ok, data, why = check(plan)
    if ok is None:
        return False
    if ok:
        return True
    if plan_has_unrepresentable(plan) and 'non_xml_char_written_as_character_reference' in KNOWN_FINDINGS \
            and why.startswith('not well-formed: reference to invalid character number'):
        out.add_known('non_xml_char_written_as_character_reference')
        # the same document without those characters must be entirely right
        ok2, data2, why2 = check(map_plan_strings(plan, strip_unrepresentable))
        if ok2 is False:
            out.add_bad(dict(what='after removing characters XML cannot represent: ' + why2, doc=short(data2, 600)))
        return bool(ok2)
    out.add_bad(dict(what=why, doc=short(data, 600)))
    return True


# ================================================================================================================
# Family 2: RP66V1 index XML and HTML
# ================================================================================================================
IDENT_STD = [chr(c) for c in range(33, 127)]                 # printable ASCII; B.19 (lower case is commonly found too)
IDENT_MARKUP = ['<', '>', '&', '"', "'", '&amp;', '<a>', ']]>']
UNITS_STD = list('abcdmsftINV0123 -./()%')
CTRL_BYTES = [chr(c) for c in list(range(1, 9)) + [0xB, 0xC] + list(range(0xE, 0x20))]


def dl_ident(rnd, ctrl=False, high=False, minlen=1, maxlen=10):
    pools = [IDENT_STD, IDENT_STD, IDENT_MARKUP]
    if ctrl:
        pools.append(CTRL_BYTES + ['\t', '\n', '\r', ' ', '\x7f'])
    if high:
        pools.append(['\xb0', '\xe9', '\x80', '\xff'])
    while True:
        s = ''.join(rnd.choice(rnd.choice(pools)) for _ in range(rnd.randint(minlen, maxlen)))
        if len(s) >= minlen:
            return s.encode('latin-1')


def dl_units(rnd, ctrl=False, high=False):
    pools = [UNITS_STD, UNITS_STD, UNITS_STD, IDENT_MARKUP]
    if ctrl:
        pools.append(CTRL_BYTES)
    if high:
        pools.append(['\xb0', '\xb5'])
    return ''.join(rnd.choice(rnd.choice(pools)) for _ in range(rnd.choice([0, 1, 2, 4, 7]))).encode('latin-1')


def dl_text(rnd, ctrl=False):
    """Value of an ASCII (code 20) attribute: any bytes are found in files; they are read as latin-1."""
    pools = [IDENT_STD, IDENT_MARKUP, list(' \t\n\r'), ['\x7f', '\x80', '\x9f', '\xb0', '\xe9', '\xff']]
    if ctrl:
        pools.append(CTRL_BYTES + ['\x00'])
    return ''.join(rnd.choice(rnd.choice(pools)) for _ in range(rnd.choice([0, 1, 3, 8, 20]))).encode('latin-1')


F32 = [0.0, 1.0, -1.5, 0.25, 1024.0, 3.0e5, -0.375, 2.0 ** -10, 65504.0, 1.0e10]
F32 = [struct.unpack('>f', struct.pack('>f', v))[0] for v in F32]
F64 = [0.0, 1.0, -1.5, 0.1, 1e-300, 1.7976931348623157e308, 123456.789, -2.5e-5]


def dl_value(rnd, rc, names, ctrl):
    if rc == dl.FSINGL:
        return rnd.choice(F32)
    if rc == dl.FDOUBL:
        return rnd.choice(F64)
    if rc == dl.SSHORT:
        return rnd.randint(-128, 127)
    if rc == dl.SNORM:
        return rnd.randint(-32768, 32767)
    if rc == dl.SLONG:
        return rnd.randint(-2 ** 31, 2 ** 31 - 1)
    if rc in (dl.USHORT, dl.STATUS):
        return rnd.randint(0, 255) if rc == dl.USHORT else rnd.randint(0, 1)
    if rc == dl.UNORM:
        return rnd.randint(0, 65535)
    if rc == dl.ULONG:
        return rnd.randint(0, 2 ** 32 - 1)
    if rc in (dl.UVARI, dl.ORIGIN):
        return rnd.choice([0, 1, 127, 128, 16383, 16384, 2 ** 30 - 1, rnd.randint(0, 2 ** 30 - 1)])
    if rc == dl.IDENT:
        return dl_ident(rnd, ctrl, minlen=0)
    if rc == dl.ASCII:
        return dl_text(rnd, ctrl)
    if rc == dl.UNITS:
        return dl_units(rnd, ctrl)
    if rc == dl.DTIME:
        return (rnd.randint(1900, 2155), rnd.randint(0, 2), rnd.randint(1, 12), rnd.randint(1, 28), rnd.randint(0, 23),
                rnd.randint(0, 59), rnd.randint(0, 59), rnd.randint(0, 999))
    if rc == dl.OBNAME:
        return (rnd.choice([0, 1, 200, 70000]), rnd.randint(0, 255), dl_ident(rnd, ctrl))
    if rc == dl.OBJREF:
        return (dl_ident(rnd, ctrl), (rnd.randint(0, 300), rnd.randint(0, 255), dl_ident(rnd, ctrl)))
    raise AssertionError(rc)


VALUE_RCS = [dl.FSINGL, dl.FDOUBL, dl.SSHORT, dl.SNORM, dl.SLONG, dl.USHORT, dl.UNORM, dl.ULONG, dl.UVARI, dl.IDENT,
             dl.ASCII, dl.ASCII, dl.ASCII, dl.DTIME, dl.ORIGIN, dl.OBNAME, dl.OBJREF, dl.STATUS, dl.UNITS]


def unique_names(rnd, n, ctrl, high=False, distinct_ident=False):
    """n distinct object names (origin, copy, identifier).  distinct_ident: the identifiers alone are distinct (the
    reader keys the channels of a frame by identifier only)."""
    names = []
    seen = set()
    while len(names) < n:
        nm = (rnd.choice([0, 1, 2, 130, 20000]), rnd.choice([0, 0, 1, 255]), dl_ident(rnd, ctrl, high))
        key = nm[2] if distinct_ident else nm
        if key not in seen:
            seen.add(key)
            names.append(nm)
    return names


def random_table(rnd, lr_type, set_type, ctrl, labels=None, min_objects=0, high=False):
    """A random EFLR with hostile labels, units and values."""
    n_attr = len(labels) if labels else rnd.randint(1, 5)
    template = []
    seen = set()
    for k in range(n_attr):
        while True:
            label = labels[k] if labels else dl_ident(rnd, ctrl, high)
            if label not in seen:
                seen.add(label)
                break
        rc = rnd.choice(VALUE_RCS)
        count = rnd.choice([1, 1, 1, 2, 3])
        t = dict(label=label, count=count, rc=rc, units=dl_units(rnd, ctrl, high) if rnd.random() < 0.4 else b'',
                 values=None)
        if rnd.random() < 0.2:
            t['values'] = [dl_value(rnd, rc, None, ctrl) for _ in range(count)]
        template.append(t)
    objects = []
    for name in unique_names(rnd, rnd.randint(min_objects, 4), ctrl, high):
        attrs = []
        for t in template:
            k = rnd.random()
            if k < 0.15:
                attrs.append(None)
            elif k < 0.22 and t['values'] is None:
                attrs.append('absent')
            else:
                a = {}
                rc = t['rc']
                if rnd.random() < 0.2:
                    rc = a['rc'] = rnd.choice(VALUE_RCS)
                cnt = t['count']
                if rnd.random() < 0.3:
                    cnt = a['count'] = rnd.choice([0, 1, 2, 4])
                if rnd.random() < 0.2:
                    a['units'] = dl_units(rnd, ctrl, high)
                if cnt == 0 or rnd.random() < 0.9 or 'rc' in a or 'count' in a:
                    a['values'] = [dl_value(rnd, rc, None, ctrl) for _ in range(cnt)]
                attrs.append(a)
        objects.append(dict(name=name, attrs=attrs))
    return dict(lr_type=lr_type, set_type=set_type,
                set_name=None if rnd.random() < 0.4 else dl_ident(rnd, ctrl, high, minlen=0),
                template=template, objects=objects)


# (VSINGL is left out: the repository's decoder follows the RP66V2 example pinned by its own test, see the report)
X_RCS = [dl.FSINGL, dl.FDOUBL, dl.FDOUBL, dl.SLONG, dl.ULONG, dl.SNORM, dl.UNORM, dl.ISINGL, dl.SSHORT, dl.USHORT]
CH_RCS = [dl.FSINGL, dl.FDOUBL, dl.SLONG, dl.UNORM, dl.SSHORT, dl.USHORT, dl.ISINGL]
INT_RANGE = {dl.SSHORT: (-128, 127), dl.SNORM: (-32768, 32767), dl.SLONG: (-2 ** 31, 2 ** 31 - 1), dl.USHORT: (0, 255),
             dl.UNORM: (0, 65535), dl.ULONG: (0, 2 ** 32 - 1)}


def x_series(rnd, rc, n):
    """n X axis values exactly representable in rc: regular runs with jumps, repeats and reversals."""
    if rc in INT_RANGE:
        lo, hi = INT_RANGE[rc]
        small = hi <= 255
        x = rnd.randint(0, 20) if lo == 0 else rnd.randint(-20, 20)
        step = rnd.choice([1, 1, 2, 5, 0, -1] if small else [1, 10, 152, 0, -3, -100])
        vals = []
        for _ in range(n):
            vals.append(min(hi, max(lo, x)))
            if rnd.random() < 0.15:
                step = rnd.choice([1, 2, 0, -1] if small else [1, 7, 0, -25, 1000])
            x += step
        return vals
    # floating point: dyadic steps so that every partial sum is exact in 24 bits
    x = rnd.choice([0.0, 1000.0, -50.5, 2999.75])
    step = rnd.choice([0.5, 0.25, 1.0, -0.5, 0.125, 0.0, 16.0])
    vals = []
    for _ in range(n):
        vals.append(x)
        if rnd.random() < 0.15:
            step = rnd.choice([0.5, -0.25, 2.0, 0.0, -8.0])
        if rnd.random() < 0.05:
            x += rnd.choice([100.0, -37.5])
        x += step
    return vals


def decimal_x_series(rnd, n):
    """FDOUBL X values on a decimal grid (0.1, 0.1524 ...): the usual content of real files."""
    x0 = rnd.choice([0.0, 1000.0, 2743.2])
    step = rnd.choice([0.1, 0.1524, -0.1, 0.05])
    return [x0 + k * step for k in range(n)]


def ascii_only(b):
    return bytes(c for c in b if c < 0x80)


def plan_dlis(rnd, ctrl, high, empty_ok, single_ok):
    """Returns the description of a whole RP66V1 file: list of logical files."""
    lfs = []
    for _ in range(rnd.choice([1, 1, 2, 3])):
        lf = dict(tables=[], frames=[], iflrs=[], late_tables=[])
        lf['tables'].append(random_table(rnd, 0, b'FILE-HEADER', ctrl, [b'SEQUENCE-NUMBER', b'ID'], 1))
        lf['tables'].append(random_table(rnd, 1, b'ORIGIN', ctrl,
                                         [b'FILE-ID', b'FILE-SET-NAME', b'WELL-NAME', b'COMPANY', b'CREATION-TIME'], 1))
        extra = [(5, b'PARAMETER'), (5, b'TOOL'), (5, b'EQUIPMENT'), (6, b'COMMENT'), (2, b'AXIS'), (9, b'LONG-NAME'),
                 (rnd.randint(12, 127), dl_ident(rnd, ctrl, high)), (rnd.randint(128, 255), dl_ident(rnd, ctrl, high)),
                 (rnd.randint(128, 255), dl_ident(rnd, ctrl, high)), (5, dl_ident(rnd, ctrl, high))]
        for _ in range(rnd.choice([0, 1, 2, 3])):
            t, st = rnd.choice(extra)
            lf['tables'].append(random_table(rnd, t, st, ctrl, high=high))
        if rnd.random() < 0.8:
            # CHANNEL and FRAME
            n_ch = rnd.randint(1, 7)
            ch_names = unique_names(rnd, n_ch, ctrl, distinct_ident=True)      # (names of channels and frame types stay ASCII: they are keys of
            #                                               the reader's own maps, which is not this property's business)
            channels = []
            for nm in ch_names:
                dims = rnd.choice([[1], [1], [1], [3], [2, 2]])
                channels.append(dict(name=nm, long_name=ascii_only(dl_text(rnd, ctrl)) if rnd.random() < 0.8 else None,
                                     units=dl_units(rnd, ctrl, high) if rnd.random() < 0.8 else None,
                                     rc=rnd.choice(CH_RCS), dims=dims))
            if high and channels:
                c = rnd.choice(channels)
                c['long_name'] = (c['long_name'] or b'') + b'\xb0C'
            order = list(range(n_ch))
            rnd.shuffle(order)
            n_fr = rnd.choice([1, 1, 2, 3])
            fr_names = unique_names(rnd, n_fr, ctrl)
            cuts = sorted(rnd.sample(range(1, n_ch), min(n_fr - 1, n_ch - 1))) if n_ch > 1 else []
            groups = [order[a:b] for a, b in zip([0] + cuts, cuts + [n_ch])]
            no_data = rnd.random() < 0.15        # a logical file that declares frame types but holds no frame data
            n_choices = [2, 3, 4, 5, 7, 9, 14, 20] + ([1, 1, 1] if single_ok else []) + ([0, 0, 0] if empty_ok else [])
            for k, g in enumerate(groups):
                x = channels[g[0]]
                x['dims'] = [1]
                x['rc'] = rnd.choice(X_RCS)
                n_iflr = 0 if no_data else rnd.choice(n_choices)
                decimal = x['rc'] == dl.FDOUBL and rnd.random() < 0.3
                fr = dict(name=fr_names[k], channels=g, description=ascii_only(dl_text(rnd, ctrl)[:10]) if rnd.random() < 0.6 else None,
                          n=n_iflr, decimal=decimal)
                fr['x'] = decimal_x_series(rnd, n_iflr) if decimal else x_series(rnd, x['rc'], n_iflr)
                # frame numbers: 1.. with occasional gaps and restarts
                fn, f = [], 1
                for _ in range(n_iflr):
                    fn.append(f)
                    f = f + 1 if rnd.random() < 0.85 else rnd.choice([1, f + 5, f + 200, 20000])
                fr['frame_numbers'] = fn
                lf['frames'].append(fr)
            lf['channels'] = channels
            # CHANNEL table
            tmpl = [dict(label=b'LONG-NAME', count=1, rc=dl.ASCII, units=b'', values=None),
                    dict(label=b'PROPERTIES', count=1, rc=dl.IDENT, units=b'', values=None),
                    dict(label=b'REPRESENTATION-CODE', count=1, rc=dl.USHORT, units=b'', values=None),
                    dict(label=b'UNITS', count=1, rc=dl.UNITS, units=b'', values=None),
                    dict(label=b'DIMENSION', count=1, rc=dl.UVARI, units=b'', values=None),
                    dict(label=b'AXIS', count=1, rc=dl.OBNAME, units=b'', values=None),
                    dict(label=b'ELEMENT-LIMIT', count=1, rc=dl.UVARI, units=b'', values=None),
                    dict(label=b'SOURCE', count=1, rc=dl.OBJREF, units=b'', values=None)]
            objs = []
            for c in channels:
                objs.append(dict(name=c['name'], attrs=[
                    dict(values=[c['long_name']]) if c['long_name'] is not None else None,
                    None,
                    dict(values=[c['rc']]),
                    dict(values=[c['units']]) if c['units'] is not None else None,
                    dict(count=len(c['dims']), values=list(c['dims'])),
                    None,
                    dict(count=len(c['dims']), values=list(c['dims'])),
                    None]))
            lf['tables'].append(dict(lr_type=3, set_type=b'CHANNEL', set_name=dl_ident(rnd, ctrl, high, minlen=0),
                                     template=tmpl, objects=objs))
            if rnd.random() < 0.3:
                lf['tables'].append(random_table(rnd, 5, b'PARAMETER', ctrl))
            tmpl = [dict(label=b'DESCRIPTION', count=1, rc=dl.ASCII, units=b'', values=None),
                    dict(label=b'CHANNELS', count=1, rc=dl.OBNAME, units=b'', values=None),
                    dict(label=b'INDEX-TYPE', count=1, rc=dl.IDENT, units=b'', values=None),
                    dict(label=b'DIRECTION', count=1, rc=dl.IDENT, units=b'', values=None),
                    dict(label=b'SPACING', count=1, rc=dl.FDOUBL, units=b'', values=None),
                    dict(label=b'ENCRYPTED', count=1, rc=dl.USHORT, units=b'', values=None)]
            objs = []
            for fr in lf['frames']:
                objs.append(dict(name=fr['name'], attrs=[
                    dict(values=[fr['description']]) if fr['description'] is not None else None,
                    dict(count=len(fr['channels']), values=[channels[i]['name'] for i in fr['channels']]),
                    dict(values=[rnd.choice([b'BOREHOLE-DEPTH', b'TIME', dl_ident(rnd, ctrl)])]),
                    None,
                    dict(units=dl_units(rnd, ctrl), values=[rnd.choice(F64)]) if rnd.random() < 0.5 else None,
                    None]))
            lf['tables'].append(dict(lr_type=4, set_type=b'FRAME', set_name=None, template=tmpl, objects=objs))
            # frame data, interleaved over the frame types
            pending = [[(k, i) for i in range(fr['n'])] for k, fr in enumerate(lf['frames'])]
            while any(pending):
                k = rnd.choice([k for k, p in enumerate(pending) if p])
                burst = rnd.choice([1, 1, 2, 5])
                for _ in range(burst):
                    if pending[k]:
                        lf['iflrs'].append(pending[k].pop(0))
            if rnd.random() < 0.3:
                lf['late_tables'].append(random_table(rnd, 6, b'COMMENT', ctrl))
        lfs.append(lf)
    return lfs


def channel_value(rnd, rc, absent_ok):
    """A value exactly representable in rc; the repository's 'absent' markers (-999.25, -999) only if absent_ok."""
    while True:
        if rc in INT_RANGE:
            v = rnd.choice([rnd.randint(*INT_RANGE[rc]), -999 if INT_RANGE[rc][0] <= -999 else 0])
        elif rc == dl.FDOUBL:
            v = rnd.choice(F64 + [-999.25])
        else:
            v = rnd.choice([0.0, 1.0, -2.5, 0.375, 4096.0, -999.25, -999.0])
        if absent_ok or v not in (-999, -999.25):
            return v


def build_dlis(rnd, lfs, sul_ident, absent_ok):
    """Encode; returns file bytes and the expectations derived from the generator's own layout."""
    records = []        # (is_eflr, lr_type, payload, encrypted)
    owner = []          # per record: ('eflr', lf index, table) | ('iflr', lf index, frame k, i) | ('enc',)
    for li, lf in enumerate(lfs):
        for t in lf['tables']:
            records.append((True, t['lr_type'], dl.encode_eflr(t, rnd), False))
            owner.append(('eflr', li, t))
            if rnd.random() < 0.08:
                records.append((True, rnd.choice([5, 6]), bytes(rnd.randrange(256) for _ in range(rnd.randint(4, 40))), True))
                owner.append(('enc',))
        for (k, i) in lf['iflrs']:
            fr = lf['frames'][k]
            vals = []
            for ci, c in enumerate(fr['channels']):
                ch = lf['channels'][c]
                cnt = 1
                for d in ch['dims']:
                    cnt *= d
                if ci == 0:
                    x = fr['x'][i]
                    if ch['rc'] == dl.FSINGL:
                        assert struct.unpack('>f', struct.pack('>f', x))[0] == x
                    vals.append((ch['rc'], [x]))
                else:
                    vals.append((ch['rc'], [channel_value(rnd, ch['rc'], absent_ok) for _ in range(cnt)]))
            fr.setdefault('data', {})[i] = vals
            records.append((False, 0, dl.encode_iflr(fr['name'], fr['frame_numbers'][i], vals), False))
            owner.append(('iflr', li, k, i))
            if rnd.random() < 0.03:
                records.append((False, 0, bytes(rnd.randrange(256) for _ in range(rnd.randint(4, 40))), True))
                owner.append(('enc',))
        for t in lf['late_tables']:
            records.append((True, t['lr_type'], dl.encode_eflr(t, rnd), False))
            owner.append(('eflr', li, t))
    data, lay = gen_dlis.build(records, rnd)
    data = dl.storage_unit_label(rnd.choice([1, 2, 10, 305]), rnd.choice([8192, 16384, 20, 4096]), sul_ident) + data[80:]
    # first segment of every logical record
    first = {}
    for j, lr in enumerate(lay['sg_lr']):
        if lr not in first:
            first[lr] = j
    lr_pos = [(lay['sg_vrp'][first[r]], lay['sg_pos'][first[r]]) for r in range(len(records))]
    return data, records, owner, lr_pos


def rle_expand(el, conv, mul=None):
    """Expand <X count= rle_len=><RLE datum= stride= repeat=/>...</X>; checks count and rle_len."""
    vals = []
    items = list(el)
    for it in items:
        assert it.tag == 'RLE', it.tag
        assert set(it.attrib) == {'datum', 'stride', 'repeat'}, it.attrib
        d, s, r = conv(it.get('datum')), conv(it.get('stride')), int(it.get('repeat'))
        for i in range(r + 1):
            vals.append(d + s * i if mul is None else mul(d, s, i))
    if int(el.get('count')) != len(vals):
        raise AssertionError('%s count=%s but the runs hold %d values' % (el.tag, el.get('count'), len(vals)))
    if int(el.get('rle_len')) != len(items):
        raise AssertionError('%s rle_len=%s but %d runs' % (el.tag, el.get('rle_len'), len(items)))
    return vals


def same_text(got, want):
    """A string made of characters XML can represent has to come back unchanged; for other strings (which the writer
    cannot carry) the document only has to be parseable."""
    return got == want or (got is not None and not representable(want))


def same_attrs(got, want):
    return set(got) == set(want) and all(same_text(got[k], want[k]) for k in want)


DTIME_RE = re.compile(r'^(\d+)-(\d\d)-(\d\d) (\d\d):(\d\d):(\d\d)\.(\d\d\d) ?(STD|DST|GMT|)$')


def check_value(rc, want, el, path, errs):
    """el is a <Value type= value=/> or <ObjectName O= C= I=/> element."""
    if rc == dl.OBNAME:
        if el.tag != 'ObjectName' or not same_attrs(dict(el.attrib), dict(O=str(want[0]), C=str(want[1]),
                                                                          I=want[2].decode('latin-1'))):
            errs.append('%s: object name %r, written %r' % (path, dict(el.attrib), want))
        return
    if el.tag != 'Value':
        errs.append('%s: expected Value, found %s' % (path, el.tag))
        return
    typ, val = el.get('type'), el.get('value')
    try:
        if rc in (dl.IDENT, dl.ASCII, dl.UNITS):
            ok = typ == 'bytes' and same_text(val, want.decode('latin-1'))
        elif rc in (dl.FSINGL, dl.FDOUBL, dl.ISINGL, dl.VSINGL):
            ok = typ == 'float' and float(val) == want
        elif rc == dl.DTIME:
            m = DTIME_RE.match(val)
            ok = typ.endswith('DateTime') and m is not None and \
                tuple(int(m.group(i)) for i in range(1, 8)) == (want[0], want[2], want[3], want[4], want[5], want[6], want[7]) \
                and m.group(8) == ['STD', 'DST', 'GMT'][want[1]]
        elif rc == dl.OBJREF:
            ok = True       # written as str() of an internal tuple: presence only
        else:
            ok = typ == 'int' and int(val) == want
    except ValueError:
        ok = False
    if not ok:
        errs.append('%s: value type=%r value=%s, written (rep code %d) %s' % (path, typ, short(val), rc, short(want)))


def check_index_xml(root, lfs, records, owner, lr_pos, sul, private, path_in, size, logical_index, errs):
    def need(cond, msg):
        if not cond:
            errs.append(msg)
        return cond

    if not need(root.tag == 'RP66V1FileIndex', 'root is %s' % root.tag):
        return
    need(root.get('path') == path_in, 'path attribute %s, file is %s' % (short(root.get('path')), short(path_in)))
    need(root.get('size') == str(size), 'size attribute %r, file has %d bytes' % (root.get('size'), size))
    kids = list(root)
    if not need([k.tag for k in kids] == ['StorageUnitLabel', 'LogicalFiles', 'VisibleRecords'],
                'children of root: %r' % [k.tag for k in kids]):
        return
    s = kids[0]
    need((s.get('sequence_number'), s.get('dlis_version'), s.get('storage_unit_structure'), s.get('maximum_record_length'),
          s.get('storage_set_identifier')) == (str(int(sul[0:4])), 'V1.00', 'RECORD', str(int(sul[15:20])),
                                               sul[20:].decode('latin-1')),
         'StorageUnitLabel %r does not match label %r' % (dict(s.attrib), sul))
    # visible record position of every logical record
    try:
        vr = rle_expand(kids[2], lambda t: int(t, 16))
        need(vr == [p[0] for p in lr_pos], 'VisibleRecords expand to %r, file has %r' % (vr[:20], [p[0] for p in lr_pos][:20]))
    except (AssertionError, ValueError) as err:
        errs.append('VisibleRecords: %s' % err)
    xlfs = list(kids[1])
    if not need(kids[1].get('count') == str(len(lfs)) and len(xlfs) == len(lfs),
                'LogicalFiles count=%s with %d children, file has %d' % (kids[1].get('count'), len(xlfs), len(lfs))):
        return
    for li, (lf, xlf) in enumerate(zip(lfs, xlfs)):
        p = 'LogicalFile[%d]' % li
        want_tables = [(j, o[2]) for j, o in enumerate(owner) if o[0] == 'eflr' and o[1] == li]
        total_iflr = sum(fr['n'] for fr in lf['frames'])
        need(xlf.get('index') == str(li), '%s index=%r' % (p, xlf.get('index')))
        need(xlf.get('has_log_pass') == str(total_iflr > 0), '%s has_log_pass=%r but %d frames of data were written' %
             (p, xlf.get('has_log_pass'), total_iflr))
        xt = [k for k in xlf if k.tag == 'EFLR']
        xlp = [k for k in xlf if k.tag == 'LogPass']
        need(len(xt) + len(xlp) == len(list(xlf)), '%s has children other than EFLR/LogPass' % p)
        if not need(len(xt) == len(want_tables), '%s: %d EFLR entries, %d tables written' % (p, len(xt), len(want_tables))):
            continue
        for ti, ((rec, t), xe) in enumerate(zip(want_tables, xt)):
            q = '%s/EFLR[%d %s]' % (p, ti, t['set_type'])
            res = dl.resolve_eflr(t)
            want_attrs = dict(vr_position='0x%x' % lr_pos[rec][0], lrsh_position='0x%x' % lr_pos[rec][1],
                              lr_type=str(t['lr_type']), set_type=t['set_type'].decode('latin-1'),
                              set_name=(t['set_name'] or b'').decode('latin-1'), object_count=str(len(res)))
            got = dict(xe.attrib)
            # positions are numbers: compare as numbers
            for key in ('vr_position', 'lrsh_position'):
                try:
                    got[key] = '0x%x' % int(got.get(key, ''), 16)
                except ValueError:
                    pass
            need(same_attrs(got, want_attrs), '%s attributes %r, written %r' % (q, got, want_attrs))
            xo = list(xe)
            if not (private or t['lr_type'] < 128):      # Appendix A: codes 128..255 are private
                need(len(xo) == 0, '%s: private table has objects in a public index' % q)
                continue
            if not need(len(xo) == len(res), '%s: %d objects, written %d' % (q, len(xo), len(res))):
                continue
            for oi, ((name, row), xobj) in enumerate(zip(res, xo)):
                r = '%s/Object[%d]' % (q, oi)
                need(xobj.tag == 'Object' and same_attrs(dict(xobj.attrib), dict(O=str(name[0]), C=str(name[1]),
                                                                                    I=name[2].decode('latin-1'))),
                     '%s name %r, written %r' % (r, dict(xobj.attrib), name))
                xa = list(xobj)
                if not need(len(xa) == len(row), '%s: %d attributes, template has %d' % (r, len(xa), len(row))):
                    continue
                for ai, (a, xat) in enumerate(zip(row, xa)):
                    u = '%s/Attribute[%d]' % (r, ai)
                    if a is None:
                        # absent attribute: nothing but the template's label may be reported, and no value
                        need(xat.tag == 'Attribute' and len(list(xat)) == 0, '%s: absent attribute has values' % u)
                        continue
                    label, count, rc, units, values = a
                    want = dict(label=label.decode('latin-1'), count=str(count), rc=str(rc), rc_ascii=dl.REP_CODE_NAME[rc],
                                units=units.decode('latin-1'))
                    need(xat.tag == 'Attribute' and same_attrs(dict(xat.attrib), want),
                         '%s is %r, written %r' % (u, dict(xat.attrib), want))
                    xv = list(xat)
                    values = values or []
                    if need(len(xv) == len(values), '%s: %d values, written %d' % (u, len(xv), len(values))):
                        for vi, (v, xvv) in enumerate(zip(values, xv)):
                            check_value(rc, v, xvv, '%s/[%d]' % (u, vi), errs)
        # log pass
        if total_iflr == 0:
            need(len(xlp) == 0, '%s: LogPass entry although no frame data' % p)
            continue
        if not need(len(xlp) == 1, '%s: %d LogPass entries' % (p, len(xlp))):
            continue
        xfa = list(xlp[0])
        if not need(xlp[0].get('count') == str(len(lf['frames'])) and len(xfa) == len(lf['frames']),
                    '%s: LogPass count=%s with %d FrameArray entries, %d frame types written' %
                    (p, xlp[0].get('count'), len(xfa), len(lf['frames']))):
            continue
        mem_lf = logical_index.logical_files[li]
        for k, (fr, xf) in enumerate(zip(lf['frames'], xfa)):
            q = '%s/FrameArray[%d]' % (p, k)
            chans = [lf['channels'][c] for c in fr['channels']]
            want = dict(O=str(fr['name'][0]), C=str(fr['name'][1]), I=fr['name'][2].decode('latin-1'),
                        description=(fr['description'] or b'').decode('latin-1'),
                        x_axis=chans[0]['name'][2].decode('latin-1'), x_units=(chans[0]['units'] or b'').decode('latin-1'))
            need(xf.tag == 'FrameArray' and same_attrs(dict(xf.attrib), want), '%s is %r, written %r' % (q, dict(xf.attrib), want))
            sub = list(xf)
            if not need([e.tag for e in sub] == ['Channels', 'IFLR'], '%s children %r' % (q, [e.tag for e in sub])):
                continue
            xch = list(sub[0])
            if need(sub[0].get('count') == str(len(chans)) and len(xch) == len(chans),
                    '%s: Channels count=%s with %d entries, written %d' % (q, sub[0].get('count'), len(xch), len(chans))):
                for ci, (c, xc) in enumerate(zip(chans, xch)):
                    cnt = 1
                    for d in c['dims']:
                        cnt *= d
                    got = dict(xc.attrib)
                    shape = got.pop('shape', '')
                    want = dict(O=str(c['name'][0]), C=str(c['name'][1]), I=c['name'][2].decode('latin-1'),
                                long_name=(c['long_name'] or b'').decode('latin-1'), rep_code=str(c['rc']),
                                units=(c['units'] or b'').decode('latin-1'), count=str(cnt))
                    need(xc.tag == 'Channel' and same_attrs(got, want), '%s/Channel[%d] is %r, written %r' % (q, ci, got, want))
                    # shape is (frames held in memory, *dimensions): the dimensions are the file's
                    need(shape.split(',')[1:] == [str(d) for d in c['dims']],
                         '%s/Channel[%d] shape %r, dimensions written %r' % (q, ci, shape, c['dims']))
            ifl = sub[1]
            need(ifl.get('count') == str(fr['n']), '%s: IFLR count=%s, %d written' % (q, ifl.get('count'), fr['n']))
            parts = {e.tag: e for e in ifl}
            if not need(list(parts) == ['FrameNumbers', 'LRSH', 'Xaxis'] and len(list(ifl)) == 3,
                        '%s: IFLR children %r' % (q, [e.tag for e in ifl])):
                continue
            mine = [j for j, o in enumerate(owner) if o[0] == 'iflr' and o[1] == li and o[2] == k]
            mem = mem_lf.iflr_position_map.get(mem_lf.log_pass.frame_arrays[k].ident)
            mem = list(mem) if mem is not None else []
            try:
                got = rle_expand(parts['FrameNumbers'], int)
                need(got == fr['frame_numbers'], '%s: FrameNumbers expand to %r, written %r' % (q, got, fr['frame_numbers']))
                need(got == [m.frame_number for m in mem], '%s: FrameNumbers differ from the in-memory index' % q)
                got = rle_expand(parts['LRSH'], lambda t: int(t, 16))
                want = [lr_pos[j][1] for j in mine]
                need(got == want, '%s: LRSH expand to %r, records are at %r' % (q, got, want))
                need(got == [m.logical_record_position.lrsh_position for m in mem],
                     '%s: LRSH differ from the in-memory index' % q)
                rc = chans[0]['rc']
                if rc in (dl.FSINGL, dl.ISINGL, dl.VSINGL):
                    # the X values of a single precision channel are single precision numbers: expand in that arithmetic
                    got = rle_expand(parts['Xaxis'], np.float32, lambda d, s, i: np.float32(d + s * np.float32(i)))
                else:
                    got = rle_expand(parts['Xaxis'], lambda t: float(t) if '.' in t or 'e' in t or 'n' in t else int(t))
                want = fr['x']
                same = len(got) == len(want) and all(float(a) == float(b) for a, b in zip(got, want))
                if not same and fr['decimal'] and len(got) == len(want) and \
                        all(abs(float(a) - float(b)) <= 4 * sys.float_info.epsilon * abs(b) for a, b in zip(got, want)):
                    # decimal grid in double precision: see DECIMAL_X_NOTE
                    errs.append('XAXIS-ULP %s: Xaxis runs expand to %r..., written %r...' % (
                        q, [float(a) for a, b in zip(got, want) if float(a) != b][:3], [b for a, b in zip(got, want) if float(a) != b][:3]))
                else:
                    need(same, '%s: Xaxis expand to %r, written %r' % (q, [float(g) for g in got][:12], want[:12]))
                mem_x = [float(m.x_axis) for m in mem]
                need(mem_x == [float(w) for w in want], '%s: in-memory X values %r, written %r' % (q, mem_x[:12], want[:12]))
            except (AssertionError, ValueError) as err:
                errs.append('%s: run length entries: %s' % (q, err))


def slice_indices(frame_slice, n):
    """Frames a Slice.Slice(start, stop, step) selects out of n (Python range semantics); frame_slice is the triple."""
    return list(range(n))[slice(*frame_slice)]


def xaxis_spacing_histogram_impossible(lfs):
    """True if some frame type has X values whose successive differences are not all equal but span less than ten
    representable steps, so that numpy cannot cut their range into ten bins."""
    for lf in lfs:
        for fr in lf['frames']:
            if fr['n'] >= 2:
                x = np.array([float(v) for v in fr['x']], dtype=np.float64)
                d = x[1:] - x[:-1]
                if d.min() != d.max():
                    try:
                        np.histogram(d, bins=10)
                    except ValueError:
                        return True
    return False


def channel_with_at_most_one_value(lfs, frame_slice):
    """True if, in some frame type that has data, some channel has at most one value that is not the 'absent' marker
    among the frames the slice selects."""
    for lf in lfs:
        for fr in lf['frames']:
            if fr['n'] == 0:
                continue
            idx = slice_indices(frame_slice, fr['n'])
            for ci, c in enumerate(fr['channels']):
                rc = lf['channels'][c]['rc']
                absent = -999 if rc in INT_RANGE else -999.25
                present = sum(1 for i in idx for v in fr['data'][i][ci][1] if v != absent)
                if present <= 1:
                    return True
    return False


def all_bytes(x):
    """Every bytes object inside a plan (nested dicts, lists, tuples)."""
    if isinstance(x, (bytes, bytearray)):
        yield bytes(x)
    elif isinstance(x, dict):
        for k, v in x.items():
            if k != 'data':             # frame data are numbers
                yield from all_bytes(v)
    elif isinstance(x, (list, tuple)):
        for v in x:
            yield from all_bytes(v)


def plan_has_control_bytes(lfs, sul_ident):
    """Some name, label, units or text value of the file holds a byte XML cannot represent (C0 except TAB, LF, CR)."""
    return any(c < 0x20 and c not in (9, 10, 13) for b in list(all_bytes(lfs)) + [sul_ident] for c in b)


def plan_has_high_byte_in_ascii_field(lfs):
    """Some identifier, label, units string, set name, long name or description (the fields the writers decode as ASCII;
    not the values of attributes, which are read as latin-1) holds a byte >= 0x80."""
    fields = []
    for lf in lfs:
        for t in lf['tables'] + lf['late_tables']:
            fields += [t['set_type'], t['set_name'] or b'']
            for a in t['template']:
                fields += [a['label'], a['units']]
            for o in t['objects']:
                fields.append(o['name'][2])
                for a in o['attrs']:
                    if isinstance(a, dict):
                        fields.append(a.get('units', b''))
        for c in lf.get('channels', []):
            fields += [c['long_name'] or b'', c['units'] or b'']
        for fr in lf['frames']:
            fields.append(fr['description'] or b'')
    return any(c >= 0x80 for b in fields for c in b)


def parse_or_report(text, html, what, wit, out, has_ctrl, partial=False):
    """Parse a written document; returns the root or None.  A failure is bad unless it is the known character
    reference finding on an input that holds control characters."""
    if partial and text == '':
        return None         # the writer raised before it wrote anything
    try:
        return parse_xml(text.encode('utf-8'), html_entities=html)
    except ET.ParseError as err:
        if has_ctrl and 'non_xml_char_written_as_character_reference' in KNOWN_FINDINGS \
                and 'invalid character number' in str(err):
            out.add_known('non_xml_char_written_as_character_reference')
        else:
            out.add_bad(dict(what='%s%s not well-formed: %s' % (what, ' (partial, writer raised)' if partial else '', err),
                             doc=short(text, 400)))
        return None


def case_dlis(rnd, out, tmpdir, wit):
    ctrl = rnd.random() < 0.15          # control bytes in names, units, values
    high = rnd.random() < 0.08          # bytes >= 0x80 in IDENT / UNITS / long names
    empty_ok = rnd.random() < 0.12      # a frame type without frame data next to one with frame data
    single_ok = rnd.random() < 0.12     # frame types with a single frame; 'absent' values in channels
    private = rnd.random() < 0.5
    lfs = plan_dlis(rnd, ctrl, high, empty_ok, single_ok)
    sul_ident = ascii_only(dl_text(rnd, ctrl)[:60].replace(b'\n', b' ').replace(b'\r', b' ').replace(b'\t', b' '))
    data, records, owner, lr_pos = build_dlis(rnd, lfs, sul_ident, single_ok)
    fname = rnd.choice(['plain.dlis', 'a&b.dlis', "o'q\".dlis", 'x<y>z.dlis', 'caf\xe9 \u03a9.dlis', 'sp ace;#.dlis'])
    path_in = os.path.join(tmpdir, fname)
    with open(path_in, 'wb') as f:
        f.write(data)
    # the flags say what the generator was allowed to do; the known-finding classes are decided on what the file holds
    ctrl = plan_has_control_bytes(lfs, sul_ident)
    high = plan_has_high_byte_in_ascii_field(lfs)
    wit.update(ctrl=ctrl, high=high, private=private, file_name=fname, file_bytes=len(data),
               logical_files=len(lfs), frames=[[fr['n'] for fr in lf['frames']] for lf in lfs])
    if len(data) <= 1200:
        wit['file_hex'] = data.hex()
    nontrivial = False
    frame_type_without_data = any(any(fr['n'] == 0 for fr in lf['frames']) and any(fr['n'] for fr in lf['frames'])
                                  for lf in lfs)
    # ---- XML index
    fout = io.StringIO()
    try:
        with LogicalFile.LogicalIndex(path_in) as logical_index:
            try:
                IndexXML.write_logical_file_sequence_to_xml(logical_index, fout, private)
                raised = None
            except Exception as err:      # noqa
                raised = err
            # whatever was written must be well-formed (the stream closes its open elements on the way out)
            root = parse_or_report(fout.getvalue(), False, 'index XML', wit, out, ctrl, partial=raised is not None)
            if raised is not None:
                if isinstance(raised, UnicodeDecodeError) and high and \
                        'rp66v1_index_non_ascii_byte_in_ident_or_units' in KNOWN_FINDINGS:
                    out.add_known('rp66v1_index_non_ascii_byte_in_ident_or_units')
                elif type(raised).__name__ == 'ExceptionLogPassXML' and frame_type_without_data and \
                        'rp66v1_frame_type_without_frame_data' in KNOWN_FINDINGS:
                    out.add_known('rp66v1_frame_type_without_frame_data')
                else:
                    out.add_bad(dict(what='index XML: writer raised %r' % raised))
            elif root is not None:
                errs = []
                check_index_xml(root, lfs, records, owner, lr_pos, data[:80], private, path_in, len(data), logical_index, errs)
                ulp = [e for e in errs if e.startswith('XAXIS-ULP')]
                if ulp and 'rp66v1_index_xaxis_run_absorbs_values_one_ulp_off' in KNOWN_FINDINGS:
                    out.add_known('rp66v1_index_xaxis_run_absorbs_values_one_ulp_off')
                    errs = [e for e in errs if not e.startswith('XAXIS-ULP')]
                if errs:
                    out.add_bad(dict(what='index XML: ' + ' | '.join(errs[:3])))
                nontrivial = True
    except Exception as err:      # noqa: the file could not even be read: generator or reader problem, never hidden
        out.add_bad(dict(what='reading the generated file raised %r' % err))
    # ---- HTML summary
    fout = io.StringIO()
    min_n = min([fr['n'] for lf in lfs for fr in lf['frames'] if fr['n']] or [0])
    frame_slice = (0, None, 2) if min_n >= 4 and rnd.random() < 0.4 else (None, None, None)
    try:
        ScanHTML.html_scan_RP66V1_file_data_content(path_in, fout, False, Slice.Slice(*frame_slice), rnd.random() < 0.5)
        raised = None
    except Exception as err:      # noqa
        raised = err
    root = parse_or_report(fout.getvalue(), True, 'RP66V1 HTML', wit, out, ctrl, partial=raised is not None)
    if raised is not None:
        if isinstance(raised, UnicodeDecodeError) and high and \
                'rp66v1_index_non_ascii_byte_in_ident_or_units' in KNOWN_FINDINGS:
            out.add_known('rp66v1_index_non_ascii_byte_in_ident_or_units')
        elif isinstance(raised, KeyError) and frame_type_without_data and \
                'rp66v1_frame_type_without_frame_data' in KNOWN_FINDINGS:
            out.add_known('rp66v1_frame_type_without_frame_data')
        elif isinstance(raised, AttributeError) and "'NoneType' object has no attribute 'min'" in str(raised) and \
                channel_with_at_most_one_value(lfs, frame_slice) and \
                'rp66v1_html_channel_with_at_most_one_value' in KNOWN_FINDINGS:
            out.add_known('rp66v1_html_channel_with_at_most_one_value')
        elif isinstance(raised, ValueError) and 'Too many bins for data range' in str(raised) and \
                xaxis_spacing_histogram_impossible(lfs) and 'rp66v1_html_xaxis_spacing_histogram' in KNOWN_FINDINGS:
            out.add_known('rp66v1_html_xaxis_spacing_histogram')
        else:
            out.add_bad(dict(what='RP66V1 HTML: writer raised %r' % raised))
    elif root is not None:
        need_title = 'RP66V1 Scan of ' + path_in
        title = root.find('{%s}head/{%s}title' % (XHTML_NS, XHTML_NS))
        got_title = None if title is None else ''.join(title.itertext())
        if got_title != need_title:
            out.add_bad(dict(what='RP66V1 HTML title %s, expected %s' % (short(got_title), short(need_title))))
        # every table of the file has its own HTML table
        n_html = sum(1 for t in root.iter('{%s}table' % XHTML_NS) if t.get('class') == 'eflr')
        n_file = sum(1 for o in owner if o[0] == 'eflr')
        if n_html != n_file:
            out.add_bad(dict(what='RP66V1 HTML: %d EFLR tables, the file has %d' % (n_html, n_file)))
    os.unlink(path_in)
    return nontrivial


# ================================================================================================================
# Family 3: LAS -> HTML
# ================================================================================================================
def las_field(rnd, bad, forbid, maxlen=10, wrap=None):
    """Hostile text for one LAS field.  forbid: characters the LAS line grammar gives a meaning to in that field."""
    pools = [MARKUP, PLAIN, PLAIN, NON_ASCII, [' ', '\t']]
    s = hostile(rnd, bad, maxlen, pools)
    s = ''.join(c for c in s if c not in forbid and c not in '\n\r' and not 0xD800 <= ord(c) <= 0xDFFF)
    if wrap:
        s = wrap[0] + s + wrap[1]       # keeps the field from being stripped or read as a number / yes / no
    return s


def gen_las(rnd, bad):
    """LAS 2.0 text (CWLS LAS 2.0: '~' section lines, 'MNEM.UNIT DATA : DESCRIPTION' lines, '~A' data)."""
    lines = ['~VERSION INFORMATION', ' VERS.   2.0 : CWLS LOG ASCII STANDARD -VERSION 2.0', ' WRAP.   NO  : ONE LINE PER DEPTH STEP',
             '~WELL INFORMATION', '#MNEM.UNIT   DATA : DESCRIPTION']
    n_fr = rnd.randint(2, 6)
    rows = []           # (mnem, unit, value, description) of the hostile rows
    lines += [' STRT.M  %.1f : START DEPTH' % 100.0, ' STOP.M  %.1f : STOP DEPTH' % (100.0 + 0.5 * (n_fr - 1)),
              ' STEP.M  0.5 : STEP', ' NULL.  -999.25 : NULL VALUE']
    seen = {'STRT', 'STOP', 'STEP', 'NULL', 'VERS', 'WRAP', 'DEPT'}

    def mnem():
        while True:
            m = las_field(rnd, bad, ' .:\t', 6, ('M', 'm'))
            if m not in seen:
                seen.add(m)
                return m

    def row(with_value=True):
        r = (mnem(), las_field(rnd, bad, ' :\t', 5, ('u', 'U')) if rnd.random() < 0.7 else '',
             las_field(rnd, bad, ':', 12, ('v', 'w')) if with_value else '', las_field(rnd, bad, ':', 14, ('d', 'e')))
        rows.append(r)
        return ' %s.%s %s : %s' % r

    for _ in range(rnd.randint(0, 4)):
        lines.append(row())
    lines += ['~CURVE INFORMATION', ' DEPT.M  : 1 DEPTH']
    n_ch = rnd.randint(1, 4)
    curves = []
    for _ in range(n_ch):
        lines.append(row(with_value=rnd.random() < 0.3))
        curves.append(rows[-1])
    if rnd.random() < 0.7:
        lines.append('~PARAMETER INFORMATION')
        for _ in range(rnd.randint(0, 4)):
            lines.append(row())
    other = []
    if rnd.random() < 0.7:
        lines.append('~OTHER')
        for _ in range(rnd.randint(1, 3)):
            o = las_field(rnd, bad, '', 30, ('o', 'p'))
            other.append(o)
            lines.append(o)
    lines.append('~A  DEPT ' + ' '.join('C%d' % k for k in range(n_ch)))
    for f in range(n_fr):
        lines.append(' '.join(['%.1f' % (100.0 + 0.5 * f)] + ['%.3f' % rnd.choice([1.5, -2.25, 1000.125, 7.0, 0.0])
                                                          for _ in range(n_ch)]))
    return '\n'.join(lines) + '\n', rows, curves, other, n_fr


def case_las(rnd, out, tmpdir, wit):
    bad = rnd.random() < 0.2
    text, rows, curves, other, n_fr = gen_las(rnd, bad)
    fname = rnd.choice(['plain.las', 'a&b.las', "o'q\".las", 'x<y>z.las', 'caf\xe9.las'])
    path_in = os.path.join(tmpdir, fname)
    path_out = os.path.join(tmpdir, 'out.html')
    with open(path_in, 'w', encoding='utf-8', newline='') as f:
        f.write(text)
    wit.update(bad_chars=bad, file_name=fname, las=short(text, 700))
    try:
        LASToHTML.las_file_to_html(path_in, path_out, 'LAS2.0', False, False, Slice.Slice())
    except Exception as err:      # noqa
        out.add_bad(dict(what='LASToHTML.las_file_to_html raised %r' % err))
        return False
    with open(path_out, 'rb') as f:
        data = f.read()
    os.unlink(path_in)
    os.unlink(path_out)
    try:
        root = parse_xml(data, html_entities=True)
    except ET.ParseError as err:
        if bad and not representable(text) and 'non_xml_char_written_as_character_reference' in KNOWN_FINDINGS \
                and 'invalid character number' in str(err):
            out.add_known('non_xml_char_written_as_character_reference')
            return False
        out.add_bad(dict(what='LAS HTML not well-formed: %s' % err, doc=short(data, 500)))
        return False
    q = '{%s}' % XHTML_NS
    errs = []
    title = root.find(q + 'head/' + q + 'title')
    if title is None or ''.join(title.itertext()) != 'LAS Scan of ' + path_in:
        errs.append('title %s' % short(None if title is None else ''.join(title.itertext())))
    got_rows = [tuple(''.join(td.itertext()) for td in tr.findall(q + 'td')) for tr in root.iter(q + 'tr')]
    for r in rows:
        if all(representable(x) for x in r) and r not in got_rows:
            errs.append('no table row with the cells %s' % short(r))
    pres = [''.join(p.itertext()) for p in root.iter(q + 'pre')]
    for o in other:
        if representable(o) and o not in pres:
            errs.append('no <pre> with the ~O line %s' % short(o))
    # the array section: one row per curve with mnemonic and units
    for c in curves:
        if all(representable(x) for x in c) and not any(g[:2] == (c[0], c[1]) for g in got_rows if len(g) > 4):
            errs.append('no frame array row for curve %s' % short(c))
    if errs:
        out.add_bad(dict(what='LAS HTML: ' + ' | '.join(errs[:3]), doc=short(data, 300)))
    return True


# ================================================================================================================
# Family 4: LIS -> HTML
# ================================================================================================================
def lis68(v):
    """LIS-79 representation code 68: sign, 8 bit excess-128 exponent, 23 bit fraction, two's complement for negatives.
    Only exactly representable values are accepted."""
    if v == 0:
        return b'\x40\x00\x00\x00'
    m, e = math.frexp(abs(v))
    frac = m * 2 ** 23
    assert frac == int(frac)
    word = ((e + 128) << 23) | int(frac)
    if v < 0:
        word = (-word) & 0xFFFFFFFF
    return struct.pack('>L', word)


LIS_STATS = dict(ctrl=False)


def lis_bytes(rnd, n, bad, high, pad=b' '):
    """n bytes of hostile text (ASCII markup, optionally control bytes and bytes >= 0x80), padded."""
    pools = [list(b'<>&"\''), list(b'<>&"\''), list(b'ABCxyz019 -._'), list(b'ABCxyz019 -._')]
    if bad:
        pools.append(list(range(1, 32)))
    if high:
        pools.append([0x80, 0xb0, 0xe9, 0xff])
    k = rnd.randint(0, n)
    b = bytes(rnd.choice(rnd.choice(pools)) for _ in range(k)).ljust(n, pad)
    if any(c < 0x20 and c not in (9, 10, 13) for c in b):
        LIS_STATS['ctrl'] = True
    return b


def make_lis_records(rnd, bad, high_name):
    """Logical records of a small LIS file (LIS-79: 128 file header, 132/130 reel and tape headers, 34 well site data
    table, 232/224 text records, unknown record, 64 format specification + type 0 data, 129 file trailer)."""
    lrs = []

    def head_tail(t):       # file header / trailer, 56 bytes of fields
        return bytes([t, 0]) + lis_bytes(rnd, 10, bad, high_name) + b'  ' + lis_bytes(rnd, 6, bad, True) + lis_bytes(rnd, 8, bad, True) \
            + lis_bytes(rnd, 8, bad, True) + b' ' + b' 1024' + b'  ' + lis_bytes(rnd, 2, bad, True) + b'  ' + lis_bytes(rnd, 10, bad, True)

    def reel_tape(t):       # 126 bytes of fields
        return bytes([t, 0]) + lis_bytes(rnd, 6, bad, True) + b' ' * 6 + lis_bytes(rnd, 8, bad, True) + b'  ' \
            + lis_bytes(rnd, 4, bad, True) + b'  ' + lis_bytes(rnd, 8, bad, True) + b'  ' + b'01' + b'  ' \
            + lis_bytes(rnd, 8, bad, True) + b'  ' + lis_bytes(rnd, 74, bad, True)

    if rnd.random() < 0.5:
        lrs.append(reel_tape(132))
        lrs.append(reel_tape(130))
    lrs.append(head_tail(128))
    for _ in range(rnd.randint(0, 3)):
        k = rnd.random()
        if k < 0.4:
            # table: component blocks (type, rep code, size, category, mnemonic, units, value)
            def cb(t, mn, val, units=b'    '):
                return bytes([t, 65, len(val), 0]) + mn + units + val
            b = bytes([rnd.choice([34, 34, 39, 32]), 0]) + cb(73, b'TYPE', lis_bytes(rnd, 4, bad, False))
            cols = [b'MNEM', b'STAT', lis_bytes(rnd, 4, bad, False), b'VALU'][:rnd.randint(1, 4)]
            names = set()
            for _r in range(rnd.randint(1, 4)):
                while True:
                    nm = lis_bytes(rnd, 4, bad, False)
                    if nm not in names:
                        names.add(nm)
                        break
                for ci, c in enumerate(cols):
                    val = nm if ci == 0 else lis_bytes(rnd, rnd.choice([4, 8, 12]), bad, True)
                    b += cb(0 if ci == 0 else 69, c, val, lis_bytes(rnd, 4, bad, True) if rnd.random() < 0.3 else b'    ')
            lrs.append(b)
        elif k < 0.8:
            if rnd.random() < 0.6:
                # EBCDIC text (code page 500: 4C < 50 & 6E > 7D ' 7F " C1.. A.., 40 space): no control characters in
                # either of the two renderings of the record
                body = bytes(rnd.choice([0x4C, 0x50, 0x6E, 0x7D, 0x7F, 0x40, 0xC1, 0xC2, 0xC9, 0x81, 0x99, 0xF0, 0xF9, 0x4B])
                             for _ in range(rnd.choice([1, 20, 80])))
            else:
                body = lis_bytes(rnd, rnd.choice([1, 20, 80]), bad, True)
            lrs.append(bytes([rnd.choice([232, 224, 225, 227, 234]), 0]) + body)
        else:
            lrs.append(bytes([rnd.choice([85, 95, 47]), 0]) + bytes(rnd.randrange(256) for _ in range(rnd.randint(1, 40))))
    frames = 0
    if rnd.random() < 0.8:
        n_ch = rnd.randint(1, 4)
        b = bytes([64, 0])
        b += bytes([4, 1, 66, rnd.choice([0, 1, 255])])                      # up/down flag
        if rnd.random() < 0.5:
            b += bytes([9, 4, 65]) + lis_bytes(rnd, 4, bad, False)           # frame spacing units
        b += bytes([14, 4, 65]) + lis_bytes(rnd, 4, bad, False)              # depth units
        b += bytes([0, 1, 66, 0])
        for c in range(n_ch + 1):
            mn = b'DEPT' if c == 0 else lis_bytes(rnd, 4, bad, False)
            b += mn + lis_bytes(rnd, 6, bad, False) + lis_bytes(rnd, 8, bad, False) + (b'FEET' if c == 0 else lis_bytes(rnd, 4, bad, False)) \
                + bytes([45, 31, 1, 1]) + bytes([0, 1]) + bytes([0, 4]) + b'\x00\x00\x00' + bytes([1, 68]) + bytes(5)
        lrs.append(b)
        for r in range(rnd.randint(1, 3)):
            d = bytes([0, 0])
            for f in range(rnd.randint(1, 4)):
                d += lis68(1000.0 + 0.5 * frames)
                frames += 1
                for c in range(n_ch):
                    d += lis68(rnd.choice([0.0, 1.5, -2.25, 153.0, -999.25]))
            lrs.append(d)
    lrs.append(head_tail(129))
    return lrs, frames


def case_lis(rnd, out, tmpdir, wit):
    bad = rnd.random() < 0.2
    high_name = rnd.random() < 0.1      # bytes >= 0x80 in the file name field of the file header / trailer
    LIS_STATS['ctrl'] = False
    lrs, frames = make_lis_records(rnd, bad, high_name)
    bad = LIS_STATS['ctrl']             # from here on: some text field of the file really holds a control byte
    pr_len = rnd.choice([65535, 1024, 256, 64])
    data, starts = gen_lis.build(lrs, pr_len=pr_len, has_rec=rnd.random() < 0.3, file_num=rnd.choice([None, None, 3]),
                                 has_check=rnd.random() < 0.3, tif=rnd.random() < 0.3)
    fname = rnd.choice(['plain.lis', 'a&b.lis', "o'q\".lis", 'x<y>z.lis'])
    path_in = os.path.join(tmpdir, fname)
    path_out = os.path.join(tmpdir, 'lisout')
    with open(path_in, 'wb') as f:
        f.write(data)
    wit.update(bad_chars=bad, file_name=fname, lr_types=[lr[0] for lr in lrs], frames=frames)
    if len(data) <= 1500:
        wit['file_hex'] = data.hex()
    keep_going = rnd.random() < 0.5
    # text records are also shown "EBCDIC -> ASCII" (bytes decoded with code page 500): ordinary ASCII text then
    # becomes control characters (b"." -> U+0006, b"'" -> U+001B)
    ebcdic_ctrl = any(not representable(lr[2:].decode('cp500')) for lr in lrs if lr[0] in (224, 225, 227, 232, 234))
    wit.update(keep_going=keep_going, text_record_is_control_characters_in_cp500=ebcdic_ctrl)
    raised = None
    summary = None
    try:
        summary = LisToHtml.processFile(path_in, path_out, keep_going)
    except Exception as err:      # noqa
        raised = err
    if raised is None and summary is None and not os.path.exists(path_out + '.html') and \
            not bin_file_type.is_lis_file_type(bin_file_type.binary_file_type_from_path(path_in)):
        # processFile declined the file: its file type sniffer does not take it for LIS (not this property's business)
        out.add_known('(lis file not recognised by bin_file_type, no HTML attempted)')
        os.unlink(path_in)
        return False
    failed = raised is not None or summary is None       # with keepGoing the exception is logged and None returned
    root = None
    if os.path.exists(path_out + '.html'):
        with open(path_out + '.html', 'rb') as f:
            doc = f.read()
        os.unlink(path_out + '.html')
        if doc or not failed:
            # whatever was written (even when the writer failed half way) has to be well-formed
            try:
                root = parse_xml(doc, html_entities=True)
            except ET.ParseError as err:
                if (bad or ebcdic_ctrl) and 'non_xml_char_written_as_character_reference' in KNOWN_FINDINGS \
                        and 'invalid character number' in str(err):
                    out.add_known('non_xml_char_written_as_character_reference')
                else:
                    out.add_bad(dict(what='LIS HTML%s not well-formed: %s' % (' (partial, writer failed)' if failed else '', err),
                                     doc=short(doc, 500)))
    elif not failed:
        out.add_bad(dict(what='LisToHtml.processFile wrote no HTML (summary %s)' % summary))
    os.unlink(path_in)
    if failed:
        if high_name and any(b >= 0x80 for lr in lrs if lr[0] in (128, 129) for b in lr[2:12]) \
                and (raised is None or isinstance(raised, UnicodeDecodeError)) \
                and 'lis_html_non_ascii_byte_in_file_name' in KNOWN_FINDINGS:
            out.add_known('lis_html_non_ascii_byte_in_file_name')
        else:
            out.add_bad(dict(what='LisToHtml.processFile failed: %r' % (raised if raised is not None else 'returned None')))
        return False
    if root is None:
        return False
    q = '{%s}' % XHTML_NS
    errs = []
    title = root.find(q + 'head/' + q + 'title')
    if title is None or ''.join(title.itertext()) != 'LIS analysis of ' + path_in:
        errs.append('title %s' % short(None if title is None else ''.join(title.itertext())))
    # one anchor (named by a file position) per logical record; the data records belong to the format record's entry
    anchors = {a.get('name') for a in root.iter(q + 'a') if (a.get('name') or '').isdigit()}
    n_lr = sum(1 for lr in lrs if lr[0] not in (0, 1))
    if len(anchors) != n_lr:
        errs.append('%d record anchors, the file has %d logical records that are not frame data' % (len(anchors), n_lr))
    if errs:
        out.add_bad(dict(what='LIS HTML: ' + ' | '.join(errs[:3]), doc=short(doc, 300)))
    return True


# ================================================================================================================
# Family 5: SVG
# ================================================================================================================
def case_svg(rnd, out, tmpdir, wit):
    bad = rnd.random() < 0.2
    units = rnd.choice(['in', 'mm', 'px', 'pt', 'cm'])

    def dim():
        return Coord.Dim(rnd.randint(-4000, 4000) / 8.0, units)

    def pt():
        return Coord.Pt(dim(), dim())

    def fmt(d):
        return '%.3f%s' % (d.value, d.units)

    def attrs():
        return {k: hostile(rnd, bad) for k in rnd.sample(['id', 'class', 'fill', 'stroke', 'stroke-width', 'style', 'transform',
                                                          'onclick'], rnd.randint(0, 3))}
    exp_root = dict(name='svg', attrs={}, items=[])
    fout = io.StringIO()
    box = Coord.Box(dim(), dim())
    root_attrs = attrs() if rnd.random() < 0.5 else None
    with SVGWriter.SVGWriter(fout, box, root_attrs) as s:
        exp_root['attrs'] = dict({'xmlns': SVG_NS, 'version': '1.1', 'width': fmt(box.width), 'height': fmt(box.depth)},
                                 **(root_attrs or {}))

        def shapes(parent, depth):
            for _ in range(rnd.randint(0, 5)):
                k = rnd.randrange(9)
                a = attrs()
                items = []
                if k == 0 and depth > 0:
                    with SVGWriter.SVGGroup(s, a or None):
                        e = dict(name='g', attrs=dict(a), items=items)
                        parent.append(('e', e))
                        shapes(items, depth - 1)
                    continue
                if k in (0, 1):
                    p, b = pt(), Coord.Box(dim(), dim())
                    el = SVGWriter.SVGRect(s, p, b, a)
                    e = dict(name='rect', attrs=dict({'x': fmt(p.x), 'y': fmt(p.y), 'width': fmt(b.width), 'height': fmt(b.depth)}, **a))
                elif k == 2:
                    p, r = pt(), dim()
                    el = SVGWriter.SVGCircle(s, p, r, a)
                    e = dict(name='circle', attrs=dict({'cx': fmt(p.x), 'cy': fmt(p.y), 'r': fmt(r)}, **a))
                elif k == 3:
                    p, rx, ry = pt(), dim(), dim()
                    el = SVGWriter.SVGElipse(s, p, rx, ry, a)
                    e = dict(name='elipse', attrs=dict({'cx': fmt(p.x), 'cy': fmt(p.y), 'rx': fmt(rx), 'ry': fmt(ry)}, **a))
                elif k == 4:
                    p, p2 = pt(), pt()
                    el = SVGWriter.SVGLine(s, p, p2, a)
                    e = dict(name='line', attrs=dict({'x1': fmt(p.x), 'y1': fmt(p.y), 'x2': fmt(p2.x), 'y2': fmt(p2.y)}, **a))
                elif k in (5, 6):
                    pts = [Coord.Pt(Coord.Dim(rnd.randint(-4000, 4000) / 2.0, units), Coord.Dim(rnd.randint(-4000, 4000) / 2.0, units))
                           for _ in range(rnd.randint(0, 5))]
                    el = (SVGWriter.SVGPolyline if k == 5 else SVGWriter.SVGPolygon)(s, pts, a)
                    e = dict(name='polyline' if k == 5 else 'polygon',
                             attrs=dict({'points': ' '.join('%.1f,%.1f' % (p.x.value, p.y.value) for p in pts)}, **a))
                else:
                    p = pt() if rnd.random() < 0.8 else None
                    font, size = hostile(rnd, bad), rnd.randint(1, 40)
                    el = SVGWriter.SVGText(s, p, font, size, a)
                    e = dict(name='text', attrs=dict({'font-family': font, 'font-size': str(size)}, **a))
                    if p is not None:
                        e['attrs'].update({'x': fmt(p.x), 'y': fmt(p.y)})
                e['items'] = items
                parent.append(('e', e))
                with el:
                    if e['name'] == 'text':
                        for _t in range(rnd.randint(0, 2)):
                            t = hostile(rnd, bad, maxlen=20)
                            s.characters(t)
                            items.append(('t', t))
                    elif rnd.random() < 0.2:
                        t = safe_text(rnd)
                        s.comment(t)
                        items.append(('c', t, True))
        shapes(exp_root['items'], 2)
    data = fout.getvalue().encode('utf-8')
    wit.update(bad_chars=bad)
    has_bad = [False]

    def scan(e):
        for v in e['attrs'].values():
            if not representable(v):
                has_bad[0] = True
        for it in e['items']:
            if it[0] == 'e':
                scan(it[1])
            elif it[0] == 't' and not representable(it[1]):
                has_bad[0] = True
    scan(exp_root)
    try:
        root = parse_xml(data)
    except ET.ParseError as err:
        if has_bad[0] and 'non_xml_char_written_as_character_reference' in KNOWN_FINDINGS and 'invalid character number' in str(err):
            out.add_known('non_xml_char_written_as_character_reference')
            return False
        out.add_bad(dict(what='SVG not well-formed: %s' % err, doc=short(data, 500)))
        return False
    errs = []
    compare_element(exp_root, root, SVG_NS, '', errs)
    if errs:
        out.add_bad(dict(what='SVG: ' + '; '.join(errs[:3]), doc=short(data, 500)))
    return True


# ================================================================================================================
# The repository's example data (run once per invocation, not counted as cases)
# ================================================================================================================
def check_index_against_memory(root, logical_index, private, errs):
    """The index XML of a real file against the in-memory index it was written from: one EFLR entry per table, one
    FrameArray per frame type, run length entries expand to the frame numbers, positions and X values in memory."""
    ulp = False
    xlfs = list(root.find('LogicalFiles'))
    if len(xlfs) != len(logical_index.logical_files):
        errs.append('%d LogicalFile entries, %d logical files' % (len(xlfs), len(logical_index.logical_files)))
        return ulp
    vr = rle_expand(root.find('VisibleRecords'), lambda t: int(t, 16))
    if vr != list(logical_index.visible_record_positions):
        errs.append('VisibleRecords do not expand to the visible record positions in memory')
    for li, (xlf, lf) in enumerate(zip(xlfs, logical_index.logical_files)):
        xt = xlf.findall('EFLR')
        if len(xt) != len(lf.eflrs):
            errs.append('LogicalFile[%d]: %d EFLR entries, %d tables' % (li, len(xt), len(lf.eflrs)))
            continue
        for xe, pe in zip(xt, lf.eflrs):
            if int(xe.get('lrsh_position'), 16) != pe.lrsh_position.lrsh_position or \
                    int(xe.get('object_count')) != len(pe.eflr.objects) or \
                    len(list(xe)) != (len(pe.eflr.objects) if private or pe.eflr.lr_type < 128 else 0) or \
                    xe.get('set_type') != pe.eflr.set.type.decode('latin-1'):
                errs.append('LogicalFile[%d]: EFLR entry %r does not match the table %s' % (li, dict(xe.attrib), pe.eflr))
        xlp = xlf.findall('LogPass')
        if not lf.has_log_pass:
            if xlp:
                errs.append('LogicalFile[%d]: LogPass entry without log pass' % li)
            continue
        xfa = list(xlp[0]) if len(xlp) == 1 else []
        if len(xfa) != len(lf.log_pass.frame_arrays):
            errs.append('LogicalFile[%d]: %d FrameArray entries, %d frame types' % (li, len(xfa), len(lf.log_pass.frame_arrays)))
            continue
        for xf, fa in zip(xfa, lf.log_pass.frame_arrays):
            mem = list(lf.iflr_position_map[fa.ident])
            ifl = xf.find('IFLR')
            q = 'LogicalFile[%d]/FrameArray[%s]' % (li, xf.get('I'))
            if len(list(xf.find('Channels'))) != len(fa.channels):
                errs.append('%s: %d channels, %d in memory' % (q, len(list(xf.find('Channels'))), len(fa.channels)))
            if rle_expand(ifl.find('FrameNumbers'), int) != [m.frame_number for m in mem]:
                errs.append('%s: FrameNumbers differ from the in-memory index' % q)
            if rle_expand(ifl.find('LRSH'), lambda t: int(t, 16)) != [m.logical_record_position.lrsh_position for m in mem]:
                errs.append('%s: LRSH differ from the in-memory index' % q)
            want = [m.x_axis for m in mem]
            if want and isinstance(want[0], np.float32):
                got = rle_expand(ifl.find('Xaxis'), np.float32, lambda d, s, i: np.float32(d + s * np.float32(i)))
            else:
                got = rle_expand(ifl.find('Xaxis'), float)
            if len(got) != len(want) or any(float(a) != float(b) for a, b in zip(got, want)):
                if len(got) == len(want) and all(abs(float(a) - float(b)) <= 4 * sys.float_info.epsilon * abs(float(b))
                                                 for a, b in zip(got, want)):
                    ulp = True
                else:
                    errs.append('%s: Xaxis runs do not expand to the X values in memory' % q)
    return ulp


def run_examples(out, tmpdir):
    base = os.path.join(os.environ.get('PYVC_REPO', '/repo'), 'example_data')
    n = 0

    def parse(doc, html, what, name):
        try:
            return parse_xml(doc, html_entities=html)
        except ET.ParseError as err:
            k = KNOWN_EXAMPLE_FILES.get(name)
            if k in KNOWN_FINDINGS and 'invalid character number' in str(err):
                out.add_known(k)
            else:
                out.add_bad(dict(what='%s of example file %s not well-formed: %s' % (what, name, err)))
            return None

    for name in sorted(os.listdir(os.path.join(base, 'RP66V1', 'data'))):
        path = os.path.join(base, 'RP66V1', 'data', name)
        if os.path.getsize(path) > 200000:
            continue
        out.wit = dict(example=name)
        n += 1
        for private in (False, True):
            fout = io.StringIO()
            with LogicalFile.LogicalIndex(path) as logical_index:
                IndexXML.write_logical_file_sequence_to_xml(logical_index, fout, private)
                root = parse(fout.getvalue().encode('utf-8'), False, 'index XML', name)
                if root is not None:
                    errs = []
                    try:
                        if check_index_against_memory(root, logical_index, private, errs):
                            if 'rp66v1_index_xaxis_run_absorbs_values_one_ulp_off' in KNOWN_FINDINGS:
                                out.add_known('rp66v1_index_xaxis_run_absorbs_values_one_ulp_off')
                            else:
                                errs.append('Xaxis runs expand to values one ulp off the X values in memory')
                    except (AssertionError, ValueError, AttributeError) as err:
                        errs.append('run length entries: %r' % err)
                    if errs:
                        out.add_bad(dict(what='index XML of example file: ' + ' | '.join(errs[:3])))
        fout = io.StringIO()
        ScanHTML.html_scan_RP66V1_file_data_content(path, fout, False, Slice.Slice(), True)
        parse(fout.getvalue().encode('utf-8'), True, 'RP66V1 HTML', name)
    for name in sorted(os.listdir(os.path.join(base, 'LAS', 'data'))):
        out.wit = dict(example=name)
        n += 1
        path_out = os.path.join(tmpdir, 'ex.html')
        LASToHTML.las_file_to_html(os.path.join(base, 'LAS', 'data', name), path_out, 'LAS', False, False, Slice.Slice())
        with open(path_out, 'rb') as f:
            parse(f.read(), True, 'LAS HTML', name)
        os.unlink(path_out)
    for name in sorted(os.listdir(os.path.join(base, 'LIS', 'data'))):
        out.wit = dict(example=name)
        n += 1
        path_out = os.path.join(tmpdir, 'exlis')
        LisToHtml.processFile(os.path.join(base, 'LIS', 'data', name), path_out, False)
        with open(path_out + '.html', 'rb') as f:
            parse(f.read(), True, 'LIS HTML', name)
        os.unlink(path_out + '.html')
    return n


FAMILIES = [('xml', 36, case_xml), ('dlis', 34, case_dlis), ('las', 10, case_las), ('lis', 10, case_lis), ('svg', 10, case_svg)]


def main():
    ap = argparse.ArgumentParser()
    ap.add_argument('--seed', type=int, default=0)
    ap.add_argument('--cases', type=int, default=50)
    ap.add_argument('--only', type=int, default=None, help='run only this case number (to reproduce a witness)')
    ap.add_argument('--family', default=None, help='run only the cases of one family: xml dlis las lis svg')
    ap.add_argument('--no-examples', action='store_true', help="skip the repository's example files")
    args = ap.parse_args()
    out = Outcome()
    total = sum(w for _, w, _ in FAMILIES)
    n_examples = 0
    with tempfile.TemporaryDirectory(prefix='c18_') as tmpdir:
        if args.only is None and args.family is None and not args.no_examples:
            try:
                n_examples = run_examples(out, tmpdir)
            except Exception as err:      # noqa
                import traceback
                traceback.print_exc()
                out.add_bad(dict(what='example data: %r' % err))
        for i in range(args.cases):
            if args.only is not None and i != args.only:
                continue
            rnd = random.Random('c18:%d:%d' % (args.seed, i))
            pick = rnd.randrange(total)
            for name, w, fn in FAMILIES:
                if pick < w:
                    break
                pick -= w
            if args.family and name != args.family:
                continue
            wit = dict(case=i, seed=args.seed, family=name)
            out.wit = wit
            n_bad = len(out.bad)
            try:
                nontrivial = fn(rnd, out, tmpdir, wit)
            except Exception as err:      # noqa: harness error: never hide it
                import traceback
                traceback.print_exc()
                out.add_bad(dict(what='stand-in raised %r' % err))
                nontrivial = False
            out.cases += 1
            out.nontrivial += 1 if nontrivial else 0
            f = out.family.setdefault(name, [0, 0])
            f[0] += 1
            f[1] += len(out.bad) - n_bad
    print('example files checked (not counted as cases):', n_examples)
    print('families (cases, failures):', json.dumps(out.family))
    print('known findings met (not counted as bad):', json.dumps(out.known))
    for b in out.bad[5:]:
        print('further failure:', json.dumps(b)[:300])
    print(json.dumps(dict(cases=out.cases, nontrivial=out.nontrivial, bad=out.bad[:5])))
    return 1 if out.bad else 0


if __name__ == '__main__':
    sys.exit(main())
