#!/usr/bin/env python3
"""Bounded stand-in for property C14: DAT mud-log files parse to their declared channels and values.

For each case a model of a DAT file is drawn (gen.dat.random_model), laid out as text with a random mixture of spaces and
tabs, line endings and trailing blanks, and handed to the REAL DAT_parser.can_parse_file / DAT_parser.parse_file, both as an
io.StringIO and as a file on disk.  Checked against the model (which is the oracle; no repository code is used to build or
to predict anything):

valid text
  * one channel per header name, in header order: ident, long_name (declared description, words joined by one blank),
    units (declared), array shape (rows, 1), dtype object for UTIM/DATE/TIME and float64 otherwise;
  * every cell: UTIM -> datetime.datetime(1970,1,1)+seconds, DATE -> datetime.date, TIME -> datetime.time (exact types),
    numbers -> the correctly rounded double of the decimal that was written (bit-exact, including the sign of zero);
  * x_axis is the UTIM channel, ident/description arguments are passed through, channel_ident_map is name -> position;
  * can_parse_file is True exactly when there is at least one data row (it probes the first row), and leaves the file usable.

every single-line corruption from gen.dat.corruptions (row with too few / too many values, merged / split values, blank row,
header repeated as a row, values in the wrong columns, values that are not of their column's type, UTIM beyond any calendar,
header naming an undeclared / lower-cased / duplicate / surplus / missing channel, header missing, declaration of a named
channel deleted / blanked / renamed / lower-cased / truncated)
  * parse_file raises a DAT_parser.ExceptionDAT (never returns a frame array, never lets another exception out);
  * can_parse_file returns False without raising if the damage is at or before the first data row, True if it is later.

random character edits of one line (no oracle for the meaning)
  * parse_file either returns or raises ExceptionDAT; can_parse_file returns a bool; nothing else escapes.
"""
import argparse
import io
import json
import logging
import math
import os
import random
import sys
import tempfile
import datetime

sys.path.insert(0, os.path.join(os.environ.get('PYVC_REPO', '/repo'), 'src'))
sys.path.insert(0, os.path.dirname(os.path.dirname(os.path.abspath(__file__))))

logging.disable(logging.CRITICAL)
# UTIM is seconds since 1970-01-01 00:00:00 UTC whatever the local zone of the reader: run in a zone that is not UTC.
os.environ['TZ'] = 'XYZ-5:30'
import time  # noqa: E402
time.tzset()

import numpy as np  # noqa: E402
from gen import dat as G  # noqa: E402
from TotalDepth.DAT import DAT_parser  # noqa: E402

#: Genuine defects of the unchanged repository; the named input classes are generated but not judged.
# (repaired in /repo by the commit "fix: DAT_parser: a UTIM value outside the platform's time range ..."; the class is judged again)
KNOWN_FINDINGS = []


def known(cls, detail):
    for k in KNOWN_FINDINGS:
        if k['class'] == cls and (detail['value'] >= k['value_at_least'] or detail['value'] < k['or_value_below']):
            return True
    return False


def call(fn, text, path=None):
    """-> ('ok', result) | ('dat', exc) | ('other', exc)."""
    try:
        if path is None:
            return 'ok', fn(io.StringIO(text))
        with open(path) as f:      # as DAT_parser.parse_path opens it
            return 'ok', fn(f)
    except DAT_parser.ExceptionDAT as e:
        return 'dat', e
    except Exception as e:      # noqa
        return 'other', e


def same_float(a, b):
    return a == b and math.copysign(1.0, a) == math.copysign(1.0, b)


def compare(fa, model, ident, description):
    """List of discrepancies between the parsed FrameArray and the model."""
    errs = []
    exp = model.expected()
    if fa.ident != ident or fa.description != description:
        errs.append('ident/description not passed through: %r %r' % (fa.ident, fa.description))
    if len(fa) != len(exp) or len(fa.channels) != len(exp):
        errs.append('channel count %d != %d' % (len(fa.channels), len(exp)))
        return errs
    if list(fa.keys()) != [e[0] for e in exp] or [fa.channel_ident_map[e[0]] for e in exp] != list(range(len(exp))):
        errs.append('channel_ident_map %r' % (fa.channel_ident_map,))
    if fa.x_axis is not fa.channels[0]:
        errs.append('x_axis is not channel 0')
    want_type = {'utim': datetime.datetime, 'date': datetime.date, 'time': datetime.time, 'num': float}
    for i, (name, desc, units, kind, vals) in enumerate(exp):
        ch = fa.channels[i]
        if ch.ident != name or fa[name] is not ch or fa[i] is not ch:
            errs.append('channel %d ident %r != %r' % (i, ch.ident, name))
        if ch.long_name != desc:
            errs.append('channel %s long_name %r != %r' % (name, ch.long_name, desc))
        if ch.units != units:
            errs.append('channel %s units %r != %r' % (name, ch.units, units))
        if ch.array.shape != (len(vals), 1) or len(ch) != len(vals):
            errs.append('channel %s shape %r != %r' % (name, ch.array.shape, (len(vals), 1)))
            continue
        want_dtype = np.dtype('float64') if kind == 'num' else np.dtype(object)
        if ch.array.dtype != want_dtype:
            errs.append('channel %s dtype %s != %s' % (name, ch.array.dtype, want_dtype))
        for j, v in enumerate(vals):
            got = ch.array[j, 0]
            if kind == 'num':
                got = got.item() if hasattr(got, 'item') else got
                ok = type(got) is float and same_float(got, v)
            else:
                ok = type(got) is want_type[kind] and got == v
            if not ok:
                errs.append('channel %s frame %d: %r != %r' % (name, j, got, v))
                if len(errs) > 8:
                    return errs
    return errs


def short(text, limit=700):
    return text if len(text) <= limit else text[:limit] + '...(%d chars)' % len(text)


def main():
    ap = argparse.ArgumentParser()
    ap.add_argument('--seed', type=int, default=0)
    ap.add_argument('--cases', type=int, default=50)
    args = ap.parse_args()
    bad = []
    counts = {}
    skipped_known = 0
    nontrivial = 0

    def report(w):
        if len(bad) < 5:
            bad.append(w)
        else:
            bad.append(None)

    with tempfile.TemporaryDirectory() as tmp:
        path = os.path.join(tmp, 'case.dat')
        for case in range(args.cases):
            rng = random.Random('c14:%d:%d' % (args.seed, case))
            model = G.random_model(rng)
            lines = G.model_lines(model, rng)
            eol = rng.choice(['\n', '\n', '\r\n'])
            final_eol = rng.random() < 0.85
            text = G.render(lines, eol, final_eol)
            base = {'seed': args.seed, 'case': case, 'rows': len(model.rows), 'header': model.header}
            with open(path, 'w', newline='') as f:
                f.write(text)
            if model.rows:
                nontrivial += 1

            # ------------------------------------------------------------------ the valid file
            counts['valid'] = counts.get('valid', 0) + 1
            for src in ('stringio', 'file'):
                p = path if src == 'file' else None
                st, r = call(DAT_parser.can_parse_file, text, p)
                if st != 'ok' or r is not (len(model.rows) >= 1):
                    report(dict(base, what='valid: can_parse_file', via=src, observed=repr(r), expected=len(model.rows) >= 1,
                                text=short(text)))
                ident, description = 'id-%d' % case, 'descr %d' % case
                st, fa = call(lambda f: DAT_parser.parse_file(f, ident, description), text, p)
                if st != 'ok':
                    report(dict(base, what='valid: parse_file raised', via=src, observed=repr(fa), text=short(text)))
                else:
                    errs = compare(fa, model, ident, description)
                    if errs:
                        report(dict(base, what='valid: parse_file result differs from model', via=src, errors=errs[:6],
                                    text=short(text)))
            # same file object: probe, then parse
            fobj = io.StringIO(text)
            try:
                r1 = DAT_parser.can_parse_file(fobj)
                fa = DAT_parser.parse_file(fobj)
                errs = compare(fa, model, '', 'DAT File')
                if r1 is not (len(model.rows) >= 1) or errs:
                    report(dict(base, what='valid: probe then parse on one file object', errors=errs[:6], text=short(text)))
            except Exception as e:      # noqa
                report(dict(base, what='valid: probe then parse on one file object raised', observed=repr(e), text=short(text)))

            # ------------------------------------------------------------------ single-line corruptions
            first_row_index = len(model.declared) + 1
            for cls, detail, new_lines, idx in G.corruptions(model, lines, rng):
                counts[cls] = counts.get(cls, 0) + 1
                if known(cls, detail):
                    skipped_known += 1
                    continue
                ctext = G.render(new_lines, eol, final_eol)
                assert ctext != text
                w = dict(base, corruption=cls, detail=detail, line=idx + 1,
                         corrupted_line=new_lines[idx].text() if cls not in ('decl_deleted', 'header_deleted') else None,
                         text=short(ctext))
                st, r = call(DAT_parser.parse_file, ctext)
                if st == 'ok':
                    report(dict(w, what='corrupted file was read instead of rejected',
                                observed=[(c.ident, len(c)) for c in r.channels][:8]))
                elif st == 'other':
                    report(dict(w, what='parse_file let a non-DAT exception out', observed=repr(r)))
                want = idx > first_row_index
                st, r = call(DAT_parser.can_parse_file, ctext)
                if st != 'ok':
                    report(dict(w, what='can_parse_file raised', observed=repr(r)))
                elif r is not want:
                    report(dict(w, what='can_parse_file', observed=repr(r), expected=want))

            # ------------------------------------------------------------------ random edits: only the exception type
            for _ in range(6):
                counts['fuzz'] = counts.get('fuzz', 0) + 1
                new_lines, idx = G.fuzz_line(lines, rng)
                ctext = G.render(new_lines, eol, final_eol)
                w = dict(base, corruption='fuzz', line=idx + 1, corrupted_line=new_lines[idx].text(), text=short(ctext))
                st, r = call(DAT_parser.parse_file, ctext)
                if st == 'other':
                    report(dict(w, what='parse_file let a non-DAT exception out', observed=repr(r)))
                st, r = call(DAT_parser.can_parse_file, ctext)
                if st != 'ok' or not isinstance(r, bool):
                    report(dict(w, what='can_parse_file raised or returned a non-bool', observed=repr(r)))

    n_bad = len(bad)
    bad = [b for b in bad if b is not None]
    print('checks per class:', json.dumps(counts, sort_keys=True))
    print('skipped as KNOWN_FINDINGS: %d; failing checks: %d' % (skipped_known, n_bad))
    print(json.dumps({'cases': args.cases, 'nontrivial': nontrivial, 'bad': bad}, default=repr))
    return 1 if bad else 0


if __name__ == '__main__':
    sys.exit(main())
