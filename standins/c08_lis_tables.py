#!/venv/bin/python
"""Bounded stand-in for property C08: LIS table records and data format specification records survive
encode then decode.

  table:  LogiRec.LrTableWrite(...) (or LrTable + CbEngValWrite blocks) -> genLisBytes() -> physical records
          (gen.lis.build) -> File.FileRead -> LogiRec.LrTableRead
  DFSR:   LogiRec.EntryBlockSet().setEntryBlock(...) -> lisBytes() + datum specification blocks
          (LisGen.ChannelSpec.dsbBytes, cross-checked against an independent struct encoding) -> physical records
          -> LogiRec.LrDFSRRead

The oracle is what the generator chose: table name, row order (first of each duplicate row name kept), column set,
every cell (type, representation code chosen from the Python type, size, category, mnemonic, units, value), every
entry block (type, size, representation code, value; terminator sized to make the set even), every channel block
(mnemonic, service id/order, units, API codes, file number, size, samples, representation code, derived bursts and
sub-channels).  The bytes produced by the writer are additionally decoded by an independent component block / entry
block parser (stage "writer") so that a failure can be attributed to the writing or to the reading side.

Run:  /venv/bin/python /verif/standins/c08_lis_tables.py --seed <int> --cases <int>
"""
import argparse
import io
import json
import logging
import os
import random
import struct
import sys

sys.path[:0] = ['/verif', os.path.join(os.environ.get('PYVC_REPO', '/repo'), 'src')]

logging.disable(logging.CRITICAL)

from gen import lis as genlis  # noqa: E402
from TotalDepth.LIS.core import File, LogiRec, LisGen  # noqa: E402

# ----------------------------------------------------------------------------------------------------------------
# Input classes on which the UNCHANGED repository violates the property.  Each name switches off exactly one input
# class in the generators below (the values are redrawn); empty the list to see the failures.
#
# int16_no_writer          an int in -32768..32767 but outside 0..255 as a table cell (CbEngValWrite selects
#                          representation code 79) or an entry block with representation code 79:
#                          RepCode.writeBytes() has no writer for code 79, genLisBytes()/lisBytes() raise
#                          ExceptionRepCodeUnknown.
# trailing_empty_bytes     the very last component block of a table record holds b'' (size 0): LrTableRead returns the
#                          cell with value None (no EngVal) instead of b''.  (b'' anywhere else decodes as b''.)
# mnem_column_non_bytes    a cell in a column whose mnemonic is b'MNEM' holds an int or a float: LrTable.
#                          _indexLastRowOrDiscard passes it to Mnem.Mnem() -> TypeError (in LrTableWrite and in
#                          LrTableRead).
# dsb_repcode_65           a channel block with representation code 65 (text): RepCode.lisSize(65) == 0 and
#                          DatumSpecBlock._setBurstsSubChannels does size % 0 -> ZeroDivisionError, the whole DFSR is
#                          unreadable.
KNOWN_FINDINGS = [
    'int16_no_writer',
    'trailing_empty_bytes',
    'mnem_column_non_bytes',
    'dsb_repcode_65',
]

REL_TOL_68 = 2.0 ** -22
MT_UNIT = b'    '
TABLE_LR_TYPES = (32, 34, 39)
DFSR_LR_TYPE = 64
FILLER_LR_TYPE = 234  # blank record, never interpreted

# Representation code sizes (LIS-79 appendix B)
RC_SIZE = {49: 2, 50: 4, 56: 1, 66: 1, 68: 4, 70: 4, 73: 4, 77: 1, 79: 2}
DIPMETER_130 = 130  # 5 fast channels x 16 samples = 80 bytes
DIPMETER_234 = 234  # 80 bytes of fast channels + 10 slow channels = 90 bytes

# Entry block numbers that can be set (10 is undefined in LIS-79; EntryBlockSet refuses it by design)
EB_SETTABLE = (1, 2, 3, 4, 5, 6, 7, 8, 9, 11, 12, 13, 14, 15, 16)
EB_WRITE_ORDER = EB_SETTABLE + (0,)
EB_FLAG = {1: (0, 1), 2: (0,), 4: (0, 1, 255), 5: (0, 1, 255), 13: (0, 1), 15: (0, 49, 50, 56, 66, 68, 70, 73, 77, 79),
           16: (0, 1)}
EB_NUMERIC = (3, 6, 8, 11, 12)
EB_UNITS = (7, 9, 14)
EB_ATTRS = {'dataType': 1, 'dsbType': 2, 'upDown': 4, 'optLogScale': 5, 'frameSpacing': 8, 'frameSpacingUnits': 9,
            'absentValue': 12, 'recordingMode': 13, 'depthUnits': 14, 'depthRepCode': 15}


# ----------------------------------------------------------------------------------------------------------------
# Independent decoding of what the writer produced
# ----------------------------------------------------------------------------------------------------------------
def dec68(b):
    """LIS-79 representation code 68: sign, 8 bit excess-128 exponent, 23 bit fraction; negative numbers hold the
    two's complement of the fraction and the one's complement of the exponent."""
    w = struct.unpack('>I', b)[0]
    s, e, m = w >> 31, (w >> 23) & 0xFF, w & 0x7FFFFF
    if s:
        return -((0x800000 - m) / 8388608.0) * 2.0 ** ((255 - e) - 128)
    return (m / 8388608.0) * 2.0 ** (e - 128)


def dec_value(rc, b):
    if rc == 65:
        return bytes(b)
    if rc == 66:
        return b[0]
    if rc == 79:
        return struct.unpack('>h', b)[0]
    if rc == 73:
        return struct.unpack('>i', b)[0]
    if rc == 68:
        return dec68(b)
    raise ValueError('independent decoder: representation code %d' % rc)


def parse_component_blocks(b):
    out, i = [], 0
    while i < len(b):
        if i + 12 > len(b):
            raise ValueError('short component block preamble at %d' % i)
        t, rc, size, cat = b[i], b[i + 1], b[i + 2], b[i + 3]
        mnem, units = bytes(b[i + 4:i + 8]), bytes(b[i + 8:i + 12])
        i += 12
        if i + size > len(b):
            raise ValueError('short component block value at %d' % i)
        if rc != 65 and RC_SIZE.get(rc) != size:
            raise ValueError('component block size %d does not fit representation code %d' % (size, rc))
        out.append(dict(type=t, rc=rc, size=size, cat=cat, mnem=mnem, units=units, value=dec_value(rc, b[i:i + size])))
        i += size
    return out


def parse_entry_blocks(b):
    out, i = [], 0
    while i < len(b):
        if i + 3 > len(b):
            raise ValueError('short entry block preamble at %d' % i)
        t, size, rc = b[i], b[i + 1], b[i + 2]
        i += 3
        if i + size > len(b):
            raise ValueError('short entry block value at %d' % i)
        if size and rc != 65 and RC_SIZE.get(rc) != size:
            raise ValueError('entry block size %d does not fit representation code %d' % (size, rc))
        out.append((t, size, rc, dec_value(rc, b[i:i + size]) if size else None))
        i += size
    return out


def same_value(exp, got):
    if isinstance(exp, float):
        return isinstance(got, float) and abs(got - exp) <= abs(exp) * REL_TOL_68
    return type(exp) is type(got) and exp == got


# ----------------------------------------------------------------------------------------------------------------
# Generators
# ----------------------------------------------------------------------------------------------------------------
def gen_mnem(rng):
    k = rng.random()
    if k < 0.6:
        n = rng.randint(1, 4)
        return (bytes(rng.choice(b'ABCDEFGHIJKLMNOPQRSTUVWXYZ0123456789') for _ in range(n)) + b'    ')[:4]
    if k < 0.7:
        return bytes(rng.choice(b'\x00 AZ\xff') for _ in range(4))
    return bytes(rng.randrange(256) for _ in range(4))


def gen_bytes(rng, allow_empty=True):
    k = rng.random()
    if k < 0.08 and allow_empty:
        n = 0
    elif k < 0.55:
        n = 4
    elif k < 0.9:
        n = rng.randint(1, 16)
    elif k < 0.97:
        n = rng.randint(17, 254)
    else:
        n = 255
    if rng.random() < 0.6:
        return bytes(rng.choice(b'ABCDEFGHIJKLMNOPQRSTUVWXYZ0123456789 .-') for _ in range(n))
    return bytes(rng.randrange(256) for _ in range(n))


def gen_int(rng):
    """An int in the 8, 16 or 32 bit class together with the representation code it must be written with."""
    classes = ['i8', 'i16', 'i32']
    if 'int16_no_writer' in KNOWN_FINDINGS:
        classes.remove('i16')
    c = rng.choice(classes)
    if c == 'i8':
        return rng.choice((0, 1, 127, 128, 254, 255, rng.randint(0, 255)))
    if c == 'i16':
        return rng.choice((-1, -128, -129, 256, 32767, -32768, rng.randint(256, 32767), rng.randint(-32768, -1)))
    return rng.choice((32768, -32769, 65535, 65536, 2 ** 31 - 1, -2 ** 31, rng.randint(32768, 2 ** 31 - 1),
                       rng.randint(-2 ** 31, -32769)))


def int_rc(v):
    if 0 <= v <= 255:
        return 66, 1
    if -32768 <= v <= 32767:
        return 79, 2
    assert -2 ** 31 <= v <= 2 ** 31 - 1
    return 73, 4


def gen_float(rng):
    k = rng.random()
    if k < 0.25:
        return rng.choice((0.0, -999.25, 1.0, -1.0, 0.5, -0.5, 153.0, -153.0, 3.0, 1e-5, 1e30, -1e30, 0.1, -0.1))
    if k < 0.6:
        return rng.uniform(-10000.0, 10000.0)
    return rng.choice((-1.0, 1.0)) * rng.uniform(0.5, 1.0) * 2.0 ** rng.randint(-100, 100)


def gen_cell_value(rng, bytes_only=False, allow_empty=True):
    k = rng.random()
    if bytes_only or k < 0.45:
        return gen_bytes(rng, allow_empty)
    if k < 0.75:
        return gen_int(rng)
    return gen_float(rng)


def expected_cell(cb_type, value, mnem, units, cat):
    if type(value) is bytes:
        rc, size = 65, len(value)
    elif type(value) is float:
        rc, size = 68, 4
    else:
        rc, size = int_rc(value)
    return dict(type=cb_type, rc=rc, size=size, cat=cat, mnem=mnem, units=units if units else MT_UNIT, value=value)


def clearly_distinct(a, b):
    """Row names that can not be confused by any reasonable notion of 'duplicate': different type family or, for
    numbers, far further apart than the representation code 68 precision."""
    if isinstance(a, bytes) != isinstance(b, bytes):
        return True
    if isinstance(a, bytes):
        return a != b
    return abs(a - b) > 1e-3 * max(abs(a), abs(b))


def gen_phys(rng):
    p = dict(pr_len=rng.choice((rng.randint(16, 64), rng.randint(65, 300), 1024, 65535)),
             has_rec=rng.random() < 0.3, file_num=rng.choice((None, None, rng.randint(0, 65535))),
             has_check=rng.random() < 0.3, tif=rng.random() < 0.4)
    # Byte-order detection of TIF markers is a matter of the physical layer (property C05), not varied here.
    p['tif_big_endian'] = False
    return p


def gen_table(rng):
    """Returns a description (plain data) of a table case."""
    f3 = 'mnem_column_non_bytes' in KNOWN_FINDINGS
    while True:
        d = dict(lr_type=rng.choice(TABLE_LR_TYPES), attr=rng.choice((0, 0, rng.randint(0, 255))),
                 mode=rng.choice(('LrTableWrite', 'LrTableWrite', 'blocks')), name=gen_mnem(rng))
        ncols = rng.choice((1, 2, 2, 3, 4, 5, 6, 8, rng.randint(1, 20)))
        cols = []
        if rng.random() < 0.5:
            cols.append(b'MNEM')
        while len(cols) < ncols:
            m = b'MNEM' if rng.random() < 0.05 else gen_mnem(rng)
            if m not in cols:
                cols.append(m)
        d['cols'] = cols
        nrows = rng.choice((0, 1, 1, 2, 3, 4, 5, 6, rng.randint(0, 40)))
        pdup = rng.choice((0.0, 0.0, 0.2, 0.5, 0.9))
        # Row names: drawn from a pool of clearly distinct names, duplicates by drawing a used name again
        names, used = [], []
        for _ in range(nrows):
            if used and rng.random() < pdup:
                names.append(rng.choice(used))
                continue
            while True:
                k = rng.random()
                near = [u for u in used if isinstance(u, bytes) and len(u) >= 1]
                if near and rng.random() < 0.25:
                    # a name that is a DIFFERENT byte string but close to a used one: same first four bytes with another tail,
                    # or the same text with other trailing padding (blank, NUL, none)
                    u = rng.choice(near)
                    if rng.random() < 0.5:
                        v = (u + b'    ')[:4] + bytes(rng.choice(b'ABCXYZ_019') for _ in range(rng.randint(1, 8)))
                    else:
                        v = u.rstrip(b' \x00') + rng.choice((b'', b' ', b'\x00', b'  ', b' \x00'))
                    if v and len(v) <= 255 and all(clearly_distinct(v, w) for w in used):
                        break
                    continue
                if (f3 and cols[0] == b'MNEM') or k < 0.7:
                    v = gen_bytes(rng) if rng.random() < 0.5 else gen_mnem(rng)[:rng.randint(1, 4)]
                elif k < 0.85:
                    v = gen_int(rng)
                else:
                    v = gen_float(rng)
                if all(clearly_distinct(v, u) for u in used):
                    break
            used.append(v)
            names.append(v)
        blocks_mode = d['mode'] == 'blocks'
        ragged = blocks_mode and rng.random() < 0.5
        d['table_units'] = rng.choice((None, gen_mnem(rng))) if blocks_mode else MT_UNIT
        d['table_cat'] = rng.choice((0, rng.randint(0, 255))) if blocks_mode else 0
        rows = []
        for nm in names:
            row = []
            for c, m in enumerate(cols):
                if c and ragged and rng.random() < 0.3:
                    continue
                v = nm if c == 0 else gen_cell_value(rng, bytes_only=(f3 and m == b'MNEM'))
                if c and m == b'MNEM' and rows and rng.random() < 0.3:
                    # the same MNEM cell value in rows with different names: the rows stay different rows
                    prev = [x['value'] for r_ in rows for x in r_ if x['col'] == b'MNEM']
                    if prev:
                        v = rng.choice(prev)
                u = gen_mnem(rng) if rng.random() < 0.4 else None
                cat = rng.choice((0, rng.randint(0, 255))) if blocks_mode else 0
                form = rng.choice(('plain', 'tuple', 'list')) if u is None else rng.choice(('tuple', 'list'))
                row.append(dict(col=m, value=v, units=u, cat=cat, form=form))
            rows.append(row)
        d['rows'] = rows
        d['phys'] = gen_phys(rng)
        exp = expected_table(d)
        if 'trailing_empty_bytes' in KNOWN_FINDINGS and exp['written'][-1]['value'] == b'':
            continue  # excluded input class, draw another table
        return d, exp


def expected_table(d):
    """The oracle: which rows are kept, in which order the cells are written and what each block must decode to."""
    cols = d['cols']
    seen, kept_idx = [], []
    for i, row in enumerate(d['rows']):
        nm = row[0]['value']
        if not any(type(nm) is type(s) and nm == s for s in seen):
            seen.append(nm)
            kept_idx.append(i)
    # Ordered column super-set: order of first appearance over all composed rows
    g = []
    for row in d['rows']:
        for cell in row:
            if cell['col'] not in g:
                g.append(cell['col'])

    def row_blocks(row):
        cells = sorted(row, key=lambda c: g.index(c['col']))
        assert cells[0]['col'] == cols[0]
        return [expected_cell(0 if k == 0 else 69, c['value'], c['col'], c['units'], c['cat'])
                for k, c in enumerate(cells)]

    table_block = expected_cell(73, d['name'], b'TYPE', d['table_units'], d['table_cat'])
    kept = [row_blocks(d['rows'][i]) for i in kept_idx]
    if d['mode'] == 'LrTableWrite':
        written_rows = kept                 # the writer itself discards duplicate rows
    else:
        written_rows = [row_blocks(r) for r in d['rows']]   # all rows go out, the reader discards
    written = [table_block] + [c for r in written_rows for c in r]
    return dict(table_block=table_block, kept=kept, written=written, col_labels=g,
                dups=len(d['rows']) - len(kept_idx))


def gen_entry_block(rng, t):
    if t != 2 and rng.random() < 0.1:
        # an absent value (size 0); not for block 2, whose value must be 0 for the channel blocks to be readable
        return (t, 0, rng.choice((65, 66, 68, 73)), None)
    if t in EB_FLAG:
        v = rng.choice(EB_FLAG[t]) if (rng.random() < 0.7 or t == 2) else rng.randint(0, 255)
        return (t, 1, 66, v)
    if t in EB_UNITS:
        k = rng.random()
        n = 4 if k < 0.7 else (rng.randint(1, 12) if k < 0.95 else rng.randint(13, 255))
        v = gen_mnem(rng) if n == 4 else bytes(rng.randrange(256) for _ in range(n))
        return (t, n, 65, v)
    assert t in EB_NUMERIC
    rcs = [66, 79, 73, 68]
    if 'int16_no_writer' in KNOWN_FINDINGS:
        rcs.remove(79)
    rc = 68 if (t == 12 and rng.random() < 0.6) else rng.choice(rcs)
    if rc == 66:
        return (t, 1, 66, rng.choice((0, 1, 60, 255, rng.randint(0, 255))))
    if rc == 79:
        return (t, 2, 79, rng.choice((0, -1, 32767, -32768, rng.randint(-32768, 32767))))
    if rc == 73:
        return (t, 4, 73, rng.choice((0, -1, 2 ** 31 - 1, -2 ** 31, rng.randint(-2 ** 31, 2 ** 31 - 1))))
    return (t, 4, 68, gen_float(rng))


def gen_channel(rng):
    rcs = [49, 50, 56, 66, 68, 68, 68, 70, 73, 77, 79, 79, DIPMETER_130, DIPMETER_234, 65]
    if 'dsb_repcode_65' in KNOWN_FINDINGS:
        rcs.remove(65)
    rc = rng.choice(rcs)
    if rc == DIPMETER_130:
        size, samples, bursts, sub = 80, rng.choice((1, 1, rng.randint(1, 255))), 1, [16] * 5
    elif rc == DIPMETER_234:
        size, samples, bursts, sub = 90, rng.choice((1, 1, rng.randint(1, 255))), 1, [16] * 5 + [1] * 10
    elif rc == 65:
        samples = 1
        size, bursts, sub = rng.randint(1, 80), None, [1]      # bursts has no defined expectation for text
    else:
        w = RC_SIZE[rc]
        samples = rng.choice((1, 1, 1, 2, 4, 8, 16, rng.randint(1, 255)))
        maxb = 32767 // (w * samples)
        bursts = rng.choice((1, 1, 1, 2, 3, rng.randint(1, maxb)))
        size, sub = w * samples * bursts, [samples]
    api = (rng.randint(0, 99), rng.randint(0, 999), rng.randint(0, 99), rng.randint(0, 9))
    return dict(mnem=gen_mnem(rng), servId=gen_bytes_n(rng, 6), servOrd=gen_bytes_n(rng, 8), units=gen_mnem(rng),
                api=api, fileNumber=rng.choice((0, 1, rng.randint(0, 32767))), size=size, samples=samples, rc=rc,
                bursts=bursts, sub=sub)


def gen_bytes_n(rng, n):
    if rng.random() < 0.6:
        return bytes(rng.choice(b'ABCDEFGHIJKLMNOPQRSTUVWXYZ0123456789 ') for _ in range(n))
    return bytes(rng.randrange(256) for _ in range(n))


def channel_bytes(ch):
    """Datum specification block, LIS-79 section 3.3.2.2: mnemonic(4) service id(6) service order(8) units(4)
    API codes(4) file number(2) size(2) pad(2) process level(1) samples(1) representation code(1) indicators(5)."""
    a = ch['api']
    api_int = a[0] * 1000000 + a[1] * 1000 + a[2] * 10 + a[3]
    b = (ch['mnem'] + ch['servId'] + ch['servOrd'] + ch['units'] + struct.pack('>I', api_int)
         + struct.pack('>hh', ch['fileNumber'], ch['size']) + b'\x00\x00\x00'
         + bytes([ch['samples'], ch['rc']]) + b'\x00' * 5)
    assert len(b) == 40
    return b, api_int


def gen_dfsr(rng):
    d = dict(attr=rng.choice((0, 0, rng.randint(0, 255))))
    p = rng.choice((0.0, 0.15, 0.5, 0.5, 1.0))
    chosen = [t for t in EB_SETTABLE if rng.random() < p]
    sets = [gen_entry_block(rng, t) for t in chosen]
    # now and then a block is set twice: the last setting wins
    for t in chosen:
        if rng.random() < 0.1:
            sets.append(gen_entry_block(rng, t))
    rng.shuffle(sets)
    d['sets'] = sets
    nch = rng.choice((1, 1, 2, 3, 5, 8, rng.randint(1, 40), rng.randint(1, 200)))
    d['channels'] = [gen_channel(rng) for _ in range(nch)]
    d['phys'] = gen_phys(rng)
    return d


# ----------------------------------------------------------------------------------------------------------------
# Checks
# ----------------------------------------------------------------------------------------------------------------
class Mismatch(Exception):
    def __init__(self, stage, what):
        super().__init__(what)
        self.stage, self.what = stage, what


def need(cond, stage, what):
    if not cond:
        raise Mismatch(stage, what)


def short(x, n=700):
    s = repr(x)
    return s if len(s) <= n else s[:n] + '...(%d chars)' % len(s)


def compare_block(exp, got, stage, where):
    """exp: expected dict; got: dict with the same keys."""
    for k in ('type', 'rc', 'size', 'cat', 'mnem', 'units'):
        need(exp[k] == got[k], stage, '%s: %s expected %r got %r' % (where, k, exp[k], got[k]))
    need(same_value(exp['value'], got['value']), stage,
         '%s: value expected %r got %r' % (where, exp['value'], got['value']))


def cb_as_dict(cb):
    return dict(type=cb.type, rc=cb.rc, size=cb.size, cat=cb.category, mnem=cb.mnem, units=cb.units, value=cb.value)


def read_file(lr_bytes, phys, rng):
    """Wrap the logical record (between optional uninterpreted filler records) in physical records and position a
    FileRead on it."""
    filler = bytes([FILLER_LR_TYPE, 0]) + b'filler'
    lrs, idx = [lr_bytes], 0
    if rng.random() < 0.3:
        lrs.insert(0, filler)
        idx = 1
    if rng.random() < 0.3:
        lrs.append(filler)
    data, starts = genlis.build(lrs, **phys)
    f = File.FileRead(io.BytesIO(data), theFileId='c08', keepGoing=False)
    if idx or rng.random() < 0.5:
        f.seekLr(starts[idx])
    return f


def compose_table(d):
    if d['mode'] == 'LrTableWrite':
        rows = []
        for row in d['rows']:
            r = []
            for c in row:
                if c['form'] == 'plain':
                    r.append(c['value'])
                elif c['form'] == 'tuple':
                    r.append((c['value'], c['units'] if c['units'] else MT_UNIT))
                else:
                    r.append([c['value'], c['units'] if c['units'] else MT_UNIT])
            rows.append(r)
        return LogiRec.LrTableWrite(d['lr_type'], d['name'], list(d['cols']), rows)
    t = LogiRec.LrTable(d['lr_type'], 0)
    kw = {}
    if d['table_units'] is not None:
        kw['units'] = d['table_units']
    if d['table_cat']:
        kw['category'] = d['table_cat']
    t.tableCbEv = LogiRec.CbEngValWrite(73, d['name'], b'TYPE', **kw)
    for row in d['rows']:
        for k, c in enumerate(row):
            kw = {}
            if c['units'] is not None:
                kw['units'] = c['units']
            if c['cat']:
                kw['category'] = c['cat']
            cb = LogiRec.CbEngValWrite(0 if k == 0 else 69, c['value'], c['col'], **kw)
            if k == 0:
                t.startNewRow(cb)
            else:
                t.addDatumBlock(cb)
    return t


def check_table(d, exp, rng):
    stage = 'compose'
    try:
        w = compose_table(d)
        stage = 'write'
        body = b''.join(bytes(b) for b in w.genLisBytes())
    except Exception as err:  # the repository refused or crashed on a legal table
        raise Mismatch(stage, 'exception %s: %s' % (type(err).__name__, err))
    # Writer side object (LrTableWrite only: it has already discarded the duplicates)
    if d['mode'] == 'LrTableWrite':
        need(len(w) == len(exp['kept']), 'compose', 'writer holds %d rows, expected %d' % (len(w), len(exp['kept'])))
    # Independent decode of the written bytes
    try:
        blocks = parse_component_blocks(body)
    except ValueError as err:
        raise Mismatch('writer', 'written bytes do not parse: %s' % err)
    need(len(blocks) == len(exp['written']), 'writer',
         'wrote %d component blocks, expected %d' % (len(blocks), len(exp['written'])))
    for i, (e, g) in enumerate(zip(exp['written'], blocks)):
        compare_block(e, g, 'writer', 'written block %d' % i)
    # Decode with the code under test
    lr = bytes([d['lr_type'], d['attr']]) + body
    try:
        f = read_file(lr, d['phys'], rng)
        r = LogiRec.LrTableRead(f)
    except Exception as err:
        raise Mismatch('reader', 'exception %s: %s [lr=%s]' % (type(err).__name__, err, lr[:96].hex()))
    st = 'reader'
    need(r.type == d['lr_type'] and r.attr == d['attr'], st, 'LR header %r' % ((r.type, r.attr),))
    need(r.value == d['name'], st, 'table name expected %r got %r' % (d['name'], r.value))
    need(not r.isSingleParam, st, 'isSingleParam')
    compare_block(exp['table_block'], cb_as_dict(r.tableCbEv), st, 'table block')
    kept = exp['kept']
    need(len(r) == len(kept), st, 'rows expected %d got %d (%d duplicates composed)' % (len(kept), len(r), exp['dups']))
    got_names = list(r.genRowNames())
    for i, row in enumerate(kept):
        need(same_value(row[0]['value'], got_names[i]), st,
             'row %d name expected %r got %r' % (i, row[0]['value'], got_names[i]))
    need(list(r.colLabels()) == exp['col_labels'], st,
         'column labels expected %r got %r' % (exp['col_labels'], list(r.colLabels())))
    got_rows = list(r.genRows())
    need(len(got_rows) == len(kept), st, 'genRows length')
    for i, (erow, grow) in enumerate(zip(kept, got_rows)):
        cells = list(grow.genCells())
        need(len(cells) == len(erow) == len(grow), st, 'row %d has %d cells, expected %d' % (i, len(cells), len(erow)))
        for k, (e, g) in enumerate(zip(erow, cells)):
            compare_block(e, cb_as_dict(g), st, 'row %d cell %d' % (i, k))
            # access by index and by column label
            need(r[i][k] is g, st, 'row %d cell %d: table[i][k] is another object' % (i, k))
            need(e['mnem'] in grow and grow[e['mnem']] is g, st, 'row %d: lookup by label %r' % (i, e['mnem']))
        for m in exp['col_labels']:
            if m not in [e['mnem'] for e in erow]:
                need(m not in grow, st, 'row %d claims column %r' % (i, m))
    # Row index: labels in order; a bytes label finds the first row of that name
    labels = list(r.rowLabels())
    need(len(labels) == len(kept), st, 'rowLabels length')
    for i, row in enumerate(kept):
        nm = row[0]['value']
        need(same_value(nm, labels[i]), st, 'row label %d expected %r got %r' % (i, nm, labels[i]))
        if isinstance(nm, bytes):
            need(nm in r and r[nm] is got_rows[i], st, 'lookup of row %r' % nm)


def check_dfsr(d, rng):
    stage = 'compose'
    try:
        ebs = LogiRec.EntryBlockSet()
        defaults = [tuple(ebs[i]) for i in range(17)]
        for s in d['sets']:
            ebs.setEntryBlock(LogiRec.EntryBlock(*s))
        stage = 'write'
        eb_bytes = bytes(ebs.lisBytes())
    except Exception as err:
        raise Mismatch(stage, 'exception %s: %s' % (type(err).__name__, err))
    expected = list(defaults)
    for s in d['sets']:
        expected[s[0]] = s
    odd = sum(expected[t][1] for t in EB_SETTABLE) % 2
    expected[0] = (0, 1, 66, 1) if odd else (0, 0, 66, None)
    d['odd'] = bool(odd)
    # Independent decode of the written entry blocks
    need(len(eb_bytes) % 2 == 0, 'writer', 'entry block set is %d bytes long (odd)' % len(eb_bytes))
    try:
        ebl = parse_entry_blocks(eb_bytes)
    except ValueError as err:
        raise Mismatch('writer', 'written entry blocks do not parse: %s' % err)
    need([e[0] for e in ebl] == list(EB_WRITE_ORDER), 'writer', 'entry block types written: %r' % [e[0] for e in ebl])
    for e in ebl:
        x = expected[e[0]]
        need(e[:3] == tuple(x[:3]) and (same_value(x[3], e[3]) if x[3] is not None else e[3] is None), 'writer',
             'written entry block %d expected %r got %r' % (e[0], x, e))
    # Channel blocks: the repository's writer must agree with the independent encoding
    dsb = b''
    for i, ch in enumerate(d['channels']):
        mine, api_int = channel_bytes(ch)
        try:
            theirs = LisGen.ChannelSpec(ch['mnem'], ch['servId'], ch['servOrd'], ch['units'], api_int,
                                        ch['fileNumber'], ch['size'], ch['samples'], ch['rc']).dsbBytes
        except Exception as err:
            raise Mismatch('write', 'channel %d: exception %s: %s' % (i, type(err).__name__, err))
        need(bytes(theirs) == mine, 'writer', 'channel %d written as %s expected %s' % (i, bytes(theirs).hex(), mine.hex()))
        dsb += bytes(theirs)
    lr = bytes([DFSR_LR_TYPE, d['attr']]) + eb_bytes + dsb
    try:
        f = read_file(lr, d['phys'], rng)
        r = LogiRec.LrDFSRRead(f)
    except Exception as err:
        raise Mismatch('reader', 'exception %s: %s [lr=%s]' % (type(err).__name__, err, lr[:96].hex()))
    st = 'reader'
    need(r.type == DFSR_LR_TYPE and r.attr == d['attr'], st, 'LR header %r' % ((r.type, r.attr),))
    for t in range(17):
        g, x = r.ebs[t], expected[t]
        need((g.type, g.size, g.repCode) == tuple(x[:3])
             and (same_value(x[3], g.value) if x[3] is not None else g.value is None), st,
             'entry block %d expected %r got %r' % (t, x, tuple(g)))
    for name, t in EB_ATTRS.items():
        x, g = expected[t][3], getattr(r.ebs, name)
        need(same_value(x, g) if x is not None else g is None, st, 'ebs.%s expected %r got %r' % (name, x, g))
    need(r.ebs.lisSize() % 2 == 0, st, 'decoded entry block set has odd size %d' % r.ebs.lisSize())
    need(len(r.dsbBlocks) == len(d['channels']), st,
         'channels expected %d got %d' % (len(d['channels']), len(r.dsbBlocks)))
    for i, (ch, g) in enumerate(zip(d['channels'], r.dsbBlocks)):
        got = dict(mnem=g.mnem, servId=g.servId, servOrd=g.servOrd, units=g.units,
                   api=(g.apiLogType, g.apiCurveType, g.apiCurveClass, g.apiModifier), fileNumber=g.fileNumber,
                   size=g.size, rc=g.repCode)
        for k, v in got.items():
            need(ch[k] == v, st, 'channel %d %s expected %r got %r' % (i, k, ch[k], v))
        need(not g.isNull, st, 'channel %d isNull' % i)
        need(g.subChannels == len(ch['sub']), st,
             'channel %d sub-channels expected %d got %r' % (i, len(ch['sub']), g.subChannels))
        gs = [g.samples(sc) for sc in range(g.subChannels)]
        need(gs == ch['sub'], st, 'channel %d samples per sub-channel expected %r got %r' % (i, ch['sub'], gs))
        if ch['bursts'] is not None:
            gb = [g.bursts(sc) for sc in range(g.subChannels)]
            need(gb == [ch['bursts']] * len(ch['sub']), st,
                 'channel %d bursts expected %r got %r' % (i, ch['bursts'], gb))
            need(g.values() == sum(ch['sub']) * ch['bursts'], st,
                 'channel %d values() expected %d got %r' % (i, sum(ch['sub']) * ch['bursts'], g.values()))
        if len(ch['sub']) == 1:
            need(g.subChMnem(0) == ch['mnem'], st, 'channel %d subChMnem' % i)
    need(r.frameSize() == sum(ch['size'] for ch in d['channels']), st, 'frameSize() %r' % r.frameSize())


def table_summary(d):
    return dict(mode=d['mode'], lr_type=d['lr_type'], attr=d['attr'], name=short(d['name']), cols=short(d['cols'], 300),
                rows=short([[(c['col'], c['value'], c['units'], c['cat'], c['form']) for c in row]
                             for row in d['rows']]), phys=d['phys'])


def dfsr_summary(d):
    return dict(attr=d['attr'], sets=short(d['sets'], 500),
                channels=short([(c['mnem'], c['units'], c['size'], c['samples'], c['rc']) for c in d['channels']], 500),
                phys=d['phys'])


def main():
    ap = argparse.ArgumentParser()
    ap.add_argument('--seed', type=int, default=0)
    ap.add_argument('--cases', type=int, default=50)
    a = ap.parse_args()
    import TotalDepth
    print('TotalDepth from', os.path.dirname(TotalDepth.__file__))
    print('KNOWN_FINDINGS (excluded input classes):', KNOWN_FINDINGS)
    bad, nbad, nontrivial = [], 0, 0
    stats = dict(rows=0, cells=0, dup_rows=0, eb_set=0, odd_sets=0, channels=0)
    for case in range(a.cases):
        rng = random.Random(a.seed * 1000003 + case)
        failed = False
        d, exp = gen_table(rng)
        try:
            check_table(d, exp, rng)
        except Mismatch as m:
            failed = True
            nbad += 1
            if len(bad) < 5:
                bad.append(dict(seed=a.seed, case=case, kind='table', stage=m.stage, what=short(m.what, 400),
                                input=table_summary(d)))
        stats['rows'] += len(exp['kept'])
        stats['cells'] += sum(len(r) for r in exp['kept'])
        stats['dup_rows'] += exp['dups']
        q = gen_dfsr(rng)
        try:
            check_dfsr(q, rng)
        except Mismatch as m:
            failed = True
            nbad += 1
            if len(bad) < 5:
                bad.append(dict(seed=a.seed, case=case, kind='dfsr', stage=m.stage, what=short(m.what, 400),
                                input=dfsr_summary(q)))
        stats['eb_set'] += len(q['sets'])
        stats['odd_sets'] += 1 if q.get('odd') else 0
        stats['channels'] += len(q['channels'])
        if not failed and len(exp['kept']) >= 1 and len(d['cols']) >= 2 and q['sets']:
            nontrivial += 1
    print('coverage:', json.dumps(stats), 'failing checks:', nbad)
    print(json.dumps({'cases': a.cases, 'nontrivial': nontrivial, 'bad': bad}, default=repr))
    return 1 if bad else 0


if __name__ == '__main__':
    sys.exit(main())
