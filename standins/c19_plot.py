#!/usr/bin/env python3
"""C19 stand-in: curve scale wrapping (LineTransLin / LineTransLog10) and whole log plots (SVG) of generated log passes.

Part "wrap" (about 40 % of the cases).  One case = one REAL PRESCfg.LineTransLin or LineTransLog10 object (physical edges
leftP < rightP, scale edges in either direction, every BACKUP_* tuple the module knows) driven with about 45 binary64
values: scale edges, integer multiples of the scale width, neighbours (nextafter) of those, huge (1e12..1e38), tiny
(1e-38..1e-1, denormals), zero / negative values (log scale: must raise ExceptionLineTransBaseMath) and a few values
beyond the binary64 headroom.  Oracle: exact rational arithmetic on the float inputs (fractions.Fraction; for the
logarithmic scale decimal arithmetic with 80 digits):
    p = (val - leftL) / (rightL - leftL)            or   log10(val / leftL) / log10(rightL / leftL)
  * wrap is an int and equals floor(p); a difference of 1 is allowed only when p is within 1e-9 (relative) of an integer
    (plus floor(|p| * 2**-50) because for |p| > 2**50 binary64 can not hold p to the unit),
  * leftP <= pos <= rightP in binary64,
  * |pos + wrap * (rightP - leftP) - (leftP + p * (rightP - leftP))| <= 1e-6 * (rightP - leftP) whenever |wrap| < 1e6,
  * L2P(val) equals the unwrapped position (tolerance scaled by the conditioning of offset + scale * val),
  * offScale(w) / isOffScaleLeft / isOffScaleRight follow the (left limit, right limit; 0 = unlimited) meaning of the
    backup tuple for w in -4..4 and the wrap just computed; BACKUP_NONE: only w == 0 on scale, BACKUP_ALL: always on
    scale, BACKUP_ONCE / TWICE: |w| <= 1 / 2,
  * the constructor refuses leftP >= rightP.

Part "plot" (about 60 %).  One case = one generated log pass (2..40 frames, FEET / M / .1IN, up or down, direct or
implied X axis; curves: constant, ramp through several wraps, spiky (1e3..1e30 spikes), huge (1e30), tiny (1e-30),
negative / zero values (also on logarithmic tracks), values exactly on scale edges, absent values -999.25 in runs at the
start, in the middle and at the end) written as
    - a LIS file (independent encoders gen.lis_logical + gen.lis) with generated FILM and PRES tables (every supported
      GCOD/GDEC grid, every DSCA depth scale, TRAC T1 T2 T3 T23 T12 TD LHTn RHTn F1..F4 FD, MODE SHIF GRAD NB WRAP
      and an unknown mode, DEST film / BOTH / ALL / NEIT, scale edges in both directions) and plotted with
      Plot.PlotReadLIS.plotLogPassLIS (as PlotLogs._plotUsingLISLogicalRecords does) or through the command line
      class PlotLogs.PlotLogPasses,
    - a LIS file plotted with a BUILT-IN LgFormat XML plot format (Plot.PlotReadXML, every format that has curves with
      channel names of at most 4 characters) or with a GENERATED LgFormat XML (random track positions, linear and
      logarithmic curves, every WrapMode / WrapCount, any IndexScaler), optional integer scale override,
    - a LAS file (text written here) plotted with plotLogPassLAS and a built-in or generated LgFormat.
The SVG file is parsed with xml.etree.ElementTree (so it must be well formed; comments are kept).  What is used to
recognise things:
  * curve polylines: every element between the comments "Plot Curves START" and "Plot Curves END"; the comment
    "Output <name> START" gives the output channel; only <polyline> elements are expected there (line / polygon / path
    are read as well, anything else is a failure),
  * document size: root width / height (inches) and viewBox "0 0 W H" (W = 96 * width = 816),
  * plot area: the left and right margins are 0.25 in (PlotConstants.MarginQtrInch) of the 8.5 in paper: x in [24, 792];
    the main pane is the space between the two blue legend <rect> elements; its top must be 0.25 in + legend depth
    (0.5 in + a multiple of 0.5 in) and its depth |X last - X first| (inches) / scale,
  * track edges of a curve: from the format definition, independently of the code under test: the LIS FILM grid layouts
    (three track: 0-2.4 | 2.4-3.2 | 3.2-5.6 | 5.6-8 in; LLLL: 0-1 | 1-2.75 | 2.75-4.5 | 4.5-6.25 | 6.25-8 in) and the
    TRAC notation, or the LgTrack LeftPosition / RightPosition elements of the XML (parsed here).
Checked for every SVG:
  a. every curve point lies in the view box, between the plot margins (0.06 slack: points are written with one decimal)
     and inside the main pane,
  b. every polyline lies wholly inside the track of ONE of the curves that plot its output channel,
  c. no point for absent values: the depth (y) of every curve point lies within a run of consecutive non-absent samples
     (never at the depth of an absent sample, never in a gap made by absent samples, never before the first / after the
     last present sample),
  d. every sample that is present, can be transformed and is on scale for the curve's back-up mode has a point at
     (24 + 96 * (leftP + (p - floor(p)) * width), y(sample)) (exact oracle as in part "wrap"); when |wrap| >= 1e6 only a
     point in the track at that depth is required,
  e. conversely every point that is not on a track edge (wrap interpolation points are always on an edge) is such a
     sample point - so off scale values, values <= 0 on a logarithmic scale and absent values draw nothing; a point ON
     a track edge at the depth of a value <= 0 (logarithmic curves only) must be explainable as the first wrap
     interpolation point towards the next present sample (wrap change of 4 or more),
  f. the "Output" sections are exactly the output channels the format uses; the plot call returns the curve ids and the
     number of points (present samples * curves); LIS and LAS input both produce a file.
Every plot runs under a SIGALRM time limit.  Not generated (outside the quantifier, see the final diagnostics of the
author's report): PRES rows with equal edges or edges <= 0 on GRAD, unknown TRAC strings, non-integer scale overrides,
log passes of a single frame.  KNOWN_FINDINGS below lists the genuine defects of the unchanged repository that are
generated but not judged.

Deterministic for --seed.  Usage: c19_plot.py --seed N --cases N [--part wrap|plot|both] [--only INDEX] [--no-known]
                                 [--keep DIR] (keep the generated input and SVG files of failing cases)
Environment: PYVC_REPO (default /repo): the sources under test are $PYVC_REPO/src.
Last stdout line: {"cases": n, "nontrivial": n, "bad": [up to 5 witnesses]}; exit status 1 if bad else 0.
"""
import argparse
import decimal
import io
import json
import logging
import math
import os
import random
import re
import shutil
import signal
import sys
import tempfile
import traceback
import types
import xml.etree.ElementTree as ET
from fractions import Fraction

# ----------------------------------------------------------------------------------------------------------------------
# Genuine defects of the UNCHANGED repository that this check found.  The inputs are still generated; only the one
# named observation is not judged on exactly the described inputs.  --no-known shows the raw failures.
#
# 'las-plot-frame-holder-api':
#     Plot.plotLogPassLAS() / hasDataToPlotLAS() can not plot ANY LAS file: LAS.core.LASRead.LASRead has no
#     hasOutpMnem(), curveUnitsAsStr(), genOutpPoints(), nullValue, xAxisUnits (Plot.py calls them on the "frame
#     holder") and has_output_mnemonic() is asked with a Mnem object that never equals the str keys of the curve
#     section.  Minimal input: any LAS file with a GR curve, Plot.PlotReadXML('Resistivity_3Track_Logrithmic.xml')
#     .plotLogPassLAS(las, las.x_axis_start, las.x_axis_stop, uid, path) -> returns (None, None) without a file
#     ("no data to plot"); with has_output_mnemonic() bridged it raises AttributeError: 'LASRead' object has no
#     attribute 'hasOutpMnem'.  PlotLogs on a .las file therefore never writes a plot.
#     Not judged: "LAS input produces a plot" for the direct call.  The same LAS file is then plotted through a thin
#     adapter (class LasHolder below: the five missing names in terms of the real LASRead API) and that SVG IS judged.
#
# 'wrap-change-across-absent-gap':
#     Plot._plotSingleOutput() flushes the polyline at an absent value but keeps xPrev / prevWrap, so when the first
#     present sample after a run of absent values has a different wrap count than the last present sample before it,
#     _interpolateBackup() draws the back-up lines ACROSS the gap: points at depths where the value is absent (with one
#     absent sample and a wrap difference of 1 exactly AT the depth of the absent sample).  Minimal input: channel
#     values 20, -999.25, 200 (absent value -999.25) on a linear scale 0..150 with any back-up (PRES MODE SHIF or WRAP):
#     polyline "254.4,148.8" (one point, right track edge, depth of the absent sample) and a polyline starting at
#     "24.0,148.8".  Not judged: check c for points strictly inside a gap whose two neighbouring present samples have
#     different (or undecidable) wrap counts for a curve of that output.
#
# 'pos-one-ulp-right-of-track':
#     wrapPos() computes pos = leftP + (p - floor(p)) * (rightP - leftP).  When p is just below an integer, p - floor(p)
#     rounds to 1.0 and leftP + (rightP - leftP) can round to one ulp ABOVE rightP.  Minimal input:
#     LineTransLin(1.592, 7.87, 0.0, 150.0).wrapPos(-1e-300) == (-1, 7.870000000000001) (> 7.87); also with the standard
#     track edges 2.4 / 6.8.  Not judged: pos <= rightP when pos == leftP + (rightP - leftP) in binary64.
#
# 'binary64-headroom':
#     Inputs for which an intermediate of wrapPos() leaves the binary64 range are not handled: linear: val - leftL or
#     rightL - leftL or p overflows -> OverflowError / ValueError from math.floor (e.g. LineTransLin(0, 2.4, 0.0,
#     150.0).wrapPos(1e308) is fine but LineTransLin(0, 2.4, -1.5e308, 1e308).wrapPos(1e308) raises OverflowError);
#     logarithmic: val / leftL underflows to 0 -> ValueError "math domain error" (LineTransLog10(0, 2.4, 2.0, 2000.0)
#     .wrapPos(5e-324)), val / leftL overflows -> OverflowError (LineTransLog10(0, 2.4, 1e-30, 1e-29).wrapPos(1e300)),
#     rightL / leftL overflows -> silently wrong position (LineTransLog10(0, 2.4, 1e-300, 1e300).wrapPos(1.0) ==
#     (0, 0.0), expected 1.2).  None of these can come from LIS data (representation code 68 is within 1e-39..1.7e38).
#     Not judged: anything on inputs where the exact val - leftL, rightL - leftL, p (linear) or val / leftL,
#     rightL / leftL, leftL / rightL (logarithmic) is outside [2**-1022, 2**1023] in magnitude (and not zero).
#
# 'lis-single-data-record':
#     (root cause already recorded for C11) A LIS log pass whose frames all sit in ONE data record has
#     Rle.frameSpacing() == None, so Plot._loadFrameSet() -> LogPass.setFrameSetChX() -> frameFromX() raises
#     TypeError: unsupported operand type(s) for //: 'float' and 'NoneType' and no plot is written.  Minimal input:
#     DFSR + one data record with 2 frames + FILM/PRES.  Not judged: that TypeError on such log passes.
#
# 'lis-last-frame-not-plotted':
#     PlotLogs (and this check) plot a whole LIS log pass with plotLogPassLIS(file, logPass, logPass.xAxisFirstEngVal,
#     logPass.xAxisLastEngVal, ...).  Plot._loadFrameSet() -> LogPass.setFrameSetChX() turns that into
#     slice(frameFromX(first), frameFromX(last)), whose stop is exclusive: the LAST frame of every LIS log pass is never
#     loaded nor plotted (8 frames: the plot call reports 7 points per curve; the pane still spans all 8 depths).
#     Not judged: check d and the point count for the last frame of LIS log passes.
#
# 'xml-curve-repeated-per-channel':
#     FilmCfgXMLRead.addXMLRoot() appends the film id to _chOutpMnemFilmMap[channel] once per LgCurve, so with k curves
#     on one channel in an LgFormat PresCfg.add() registers every one of them k times and _plotSingleOutput() draws
#     each of these curves k times (k * k polylines, point count k times too large; the picture is the same).  Built-in:
#     Formation_Test (BQP1 on 4 curves).  Not judged: the multiplicity of curve ids and of the point count returned by
#     the plot call for LgFormat plots.
KNOWN_FINDINGS = ['xml-curve-repeated-per-channel', 'lis-last-frame-not-plotted', 'las-plot-frame-holder-api', 'wrap-change-across-absent-gap', 'pos-one-ulp-right-of-track',
                  'binary64-headroom', 'lis-single-data-record']

_HERE = os.path.dirname(os.path.abspath(__file__))
_REPO = os.environ.get('PYVC_REPO') or '/repo'
sys.path[:0] = [os.path.join(_REPO, 'src'), os.path.dirname(_HERE)]

import warnings  # noqa: E402

warnings.simplefilter('ignore')
logging.disable(logging.CRITICAL)

from gen import lis as plis  # noqa: E402
from gen import lis_logical as L  # noqa: E402

from TotalDepth.LIS.core import File, FileIndexer, LogiRec, Mnem  # noqa: E402
from TotalDepth.LAS.core import LASRead  # noqa: E402
from TotalDepth.util.plot import PRESCfg, PRESCfgXML, FILMCfgXML, Plot  # noqa: E402
from TotalDepth import PlotLogs  # noqa: E402

USE_KNOWN = True
STATS = {}


def stat(k, n=1):
    STATS[k] = STATS.get(k, 0) + n
PLOT_TIME_LIMIT = 20        # seconds per plot
F = Fraction
MAXF = F(2) ** 1023
MINF = F(2) ** -1022


def known(k):
    assert k in KNOWN_FINDINGS
    return USE_KNOWN


class Timeout(Exception):
    pass


def _alarm(signum, frame):
    raise Timeout('time limit of %d s' % PLOT_TIME_LIMIT)


def limited(fn, *a, **kw):
    signal.signal(signal.SIGALRM, _alarm)
    signal.setitimer(signal.ITIMER_REAL, PLOT_TIME_LIMIT)
    try:
        return fn(*a, **kw)
    finally:
        signal.setitimer(signal.ITIMER_REAL, 0)


# ------------------------------------------------------------------------------------------------------------ the oracle
_DCTX = decimal.Context(prec=80)


def _dec(fr):
    return _DCTX.divide(decimal.Decimal(fr.numerator), decimal.Decimal(fr.denominator))


def exact_p(is_log, lL, rL, val):
    """The normalised position as a Fraction (exact for the linear scale, 75+ digits for the logarithmic one)."""
    if not is_log:
        return (F(val) - F(lL)) / (F(rL) - F(lL))
    num = _DCTX.log10(_dec(F(val) / F(lL)))
    den = _DCTX.log10(_dec(F(rL) / F(lL)))
    return F(_DCTX.divide(num, den))


def out_of_headroom(is_log, lL, rL, val):
    def out(fr):
        return fr != 0 and not (MINF <= abs(fr) <= MAXF)
    if not is_log:
        den = F(rL) - F(lL)
        return out(F(val) - F(lL)) or out(den) or out((F(val) - F(lL)) / den) or out(1 / den)
    if val <= 0:
        return out(F(rL) / F(lL)) or out(F(lL) / F(rL))
    return out(F(val) / F(lL)) or out(F(rL) / F(lL)) or out(F(lL) / F(rL))


def flt(fr):
    try:
        return float(fr)
    except OverflowError:
        return math.copysign(math.inf, fr)


def near_integer(p):
    return abs(p - round(p)) <= F(1, 10 ** 9) * max(1, abs(p))


def expected_offscale(bu, w):
    if w < 0 and bu[0] != 0 and w < bu[0]:
        return -1
    if w > 0 and bu[1] != 0 and w > bu[1]:
        return 1
    return 0


def r68(v):
    """Nearest value that representation code 68 holds exactly (23 bit fraction, exponent -128..127)."""
    v = float(v)
    if v == 0.0 or v != v:
        return 0.0
    m, e = math.frexp(v)
    m = round(m * (1 << 23)) / (1 << 23)
    if abs(m) == 1.0:
        m /= 2
        e += 1
    if e > 127:
        return math.copysign(math.ldexp(1 - 2.0 ** -23, 127), v)
    if e < -127:
        return 0.0
    return math.ldexp(m, e)


# ===================================================================================================== part "wrap"
STD_EDGES = [0.0, 0.5, 1.0, 1.2, 1.75, 2.4, 2.75, 3.2, 4.4, 4.5, 5.6, 6.25, 6.8, 7.8, 8.0]
LIN_TYPICAL = [(0.0, 150.0), (-80.0, 20.0), (0.45, -0.15), (1.95, 2.95), (500.0, 0.0), (10000.0, 0.0), (6.0, 16.0),
               (-0.25, 0.25), (0.0, 0.1), (-40.0, 360.0), (14000.0, 4000.0), (0.0, 1.0)]
LOG_TYPICAL = [(0.2, 2000.0), (2000.0, 0.2), (1.0, 10.0), (0.1, 10000.0), (2.0, 20000.0), (2000.0, 200000.0),
               (1000.0, 1.0), (0.1, 25.0)]


def backup_modes():
    out = {}
    for n in dir(PRESCfg):
        v = getattr(PRESCfg, n)
        if n.startswith('BACKUP_') and isinstance(v, tuple) and len(v) == 2:
            out[n] = v
    for m in (PRESCfg.BACKUP_FROM_MODE_MAP, PRESCfgXML.BACKUP_FROM_MODE_MAP, PRESCfgXML.BACKUP_FROM_COUNT_MAP):
        for k, v in m.items():
            out.setdefault('map:%r' % (k,), v)
    return out


def gen_physical(rnd):
    s = rnd.random()
    if s < 0.45:
        a, b = sorted(rnd.sample(STD_EDGES, 2))
    elif s < 0.7:
        a = round(rnd.uniform(0, 8), rnd.choice([1, 2, 3, 15]))
        b = round(a + rnd.uniform(0.01, 8), rnd.choice([1, 2, 3, 15]))
    elif s < 0.8:
        a, b = 24.0, 792.0
    elif s < 0.9:
        a = rnd.uniform(-10, 10)
        b = a + 10.0 ** rnd.uniform(-3, 0)
    else:
        a = rnd.uniform(-1e3, 1e3)
        b = a + 10.0 ** rnd.uniform(0, 6)
    if not a < b:
        a, b = 0.0, 2.4
    return a, b


def gen_lin_edges(rnd):
    s = rnd.random()
    if s < 0.4:
        l, r = rnd.choice(LIN_TYPICAL)
    elif s < 0.6:
        l, r = rnd.uniform(-1000, 1000), rnd.uniform(-1000, 1000)
    elif s < 0.7:
        l = rnd.choice([-1, 1]) * 10.0 ** rnd.uniform(3, 30)
        r = l + rnd.choice([-1, 1]) * abs(l) * 10.0 ** rnd.uniform(-12, 1)
    elif s < 0.8:
        l = rnd.choice([0.0, 10.0 ** -rnd.uniform(3, 30)])
        r = l + rnd.choice([-1, 1]) * 10.0 ** -rnd.uniform(3, 30)
    elif s < 0.9:
        l, r = r68(rnd.uniform(-100, 100)), r68(rnd.uniform(-100, 100))
    else:
        l = rnd.choice([-1, 1]) * 10.0 ** rnd.uniform(-38, 38)
        r = rnd.choice([-1, 1]) * 10.0 ** rnd.uniform(-38, 38)
    if rnd.random() < 0.3:
        l, r = r, l
    if l == r or not (1e-38 <= abs(r - l) <= 1e38) or abs(l) > 1e38 or abs(r) > 1e38:
        l, r = 0.0, 150.0
    return l, r


def gen_log_edges(rnd):
    s = rnd.random()
    if s < 0.5:
        l, r = rnd.choice(LOG_TYPICAL)
    elif s < 0.8:
        l = 10.0 ** rnd.uniform(-3, 5)
        r = l * 10.0 ** (rnd.choice([-1, 1]) * rnd.uniform(0.05, 6))
    else:
        l = 10.0 ** rnd.uniform(-30, 30)
        r = 10.0 ** rnd.uniform(-30, 30)
    if rnd.random() < 0.2:
        l, r = r68(l), r68(r)
    if l <= 0 or r <= 0 or abs(math.log10(r / l)) < 0.01:
        l, r = 0.2, 2000.0
    return l, r


def near(v):
    return [v, math.nextafter(v, math.inf), math.nextafter(v, -math.inf)]


def gen_values(rnd, is_log, lL, rL):
    vals = []
    if not is_log:
        den = rL - lL
        for k in (0, 1, -1, 2, -2, 3, 0.5, 10, -10, 1000, 10 ** 6 - 1, -(10 ** 6), 10 ** 9):
            vals += near(lL + k * den) if abs(k) <= 3 else [lL + k * den]
        vals += near(rL)
        vals += [lL + rnd.uniform(-3, 4) * den for _ in range(6)]
        vals += [0.0, -0.0, 5e-324, -5e-324, 1e-300, -1e-300]
        vals += [rnd.choice([-1, 1]) * 10.0 ** rnd.uniform(12, 38) for _ in range(5)]
        vals += [rnd.choice([-1, 1]) * 10.0 ** -rnd.uniform(1, 38) for _ in range(3)]
        vals += [1e30, -1e30, 1e-30, -999.25, r68(rnd.uniform(-1e4, 1e4))]
        if rnd.random() < 0.3:
            vals += [1e308, -1.7e308, rnd.choice([-1, 1]) * 10.0 ** rnd.uniform(39, 307)]
    else:
        ratio = rL / lL
        for k in (0, 1, -1, 2, -2, 3, 0.5, 7, -7):
            try:
                v = lL * ratio ** k
            except OverflowError:
                continue
            if 0 < v < math.inf:
                vals += near(v) if abs(k) <= 3 else [v]
        vals += near(rL)
        vals += [lL * ratio ** rnd.uniform(-3, 4) for _ in range(6)]
        vals += [10.0 ** rnd.uniform(12, 38) for _ in range(4)]
        vals += [10.0 ** -rnd.uniform(1, 38) for _ in range(4)]
        vals += [1e30, 1e-30, 1.0, r68(10.0 ** rnd.uniform(-3, 5))]
        vals += [0.0, -0.0, -5e-324, -1e-30, -1.0, -999.25, -1e30, -10.0 ** rnd.uniform(-38, 38)]
        if rnd.random() < 0.3:
            vals += [5e-324, 1e-310, 1e300, 1.7e308]
    return [float(v) for v in vals if v == v and abs(v) != math.inf]


def run_wrap_case(rnd, idx):
    """Returns (nontrivial, list of witnesses)."""
    bad = []
    is_log = rnd.random() < 0.5
    lP, rP = gen_physical(rnd)
    lL, rL = gen_log_edges(rnd) if is_log else gen_lin_edges(rnd)
    if rnd.random() < 0.06:         # edges beyond the headroom
        lL, rL = rnd.choice([(1e-300, 1e300), (1e-200, 1e200), (1e30, 1e31)]) if is_log else \
            rnd.choice([(-1.5e308, 1e308), (0.0, 1e-300), (-1e308, 1.5e308)])
    modes = backup_modes()
    mname = rnd.choice(sorted(modes))
    bu = modes[mname]
    cls = PRESCfg.LineTransLog10 if is_log else PRESCfg.LineTransLin
    desc = dict(part='wrap', case=idx, cls=cls.__name__, leftP=lP, rightP=rP, leftL=lL, rightL=rL, backup=list(bu))

    def fail(what, **kw):
        w = dict(desc)
        w['what'] = what
        w.update(kw)
        bad.append(w)

    # the constructor refuses leftP >= rightP
    for a, b in ((rP, lP), (lP, lP)):
        try:
            cls(a, b, lL if not is_log else 0.2, rL if not is_log else 2000.0, bu)
        except PRESCfg.ExceptionLineTransBase:
            pass
        except Exception as e:
            fail('constructor with leftP >= rightP', observed=repr(e), expected='ExceptionLineTransBase')
        else:
            fail('constructor with leftP >= rightP', observed='no exception', expected='ExceptionLineTransBase')
    try:
        t = cls(lP, rP, lL, rL, bu)
    except Exception as e:
        if known('binary64-headroom') and out_of_headroom(is_log, lL, rL, 1.0 if is_log else lL):
            return False, bad
        fail('constructor', observed=repr(e), expected='an object')
        return False, bad
    if (t.leftL, t.rightL) != (lL, rL):
        fail('leftL / rightL properties', observed=[t.leftL, t.rightL])
    # offScale
    for w in list(range(-4, 5)) + [10 ** 6, -10 ** 6, 10 ** 30, -10 ** 30]:
        e = expected_offscale(bu, w)
        try:
            o = (t.offScale(w), t.isOffScaleLeft(w), t.isOffScaleRight(w))
        except Exception as ex:
            o = repr(ex)
        if o != (e, e == -1, e == 1):
            fail('offScale(%d)' % w, observed=o, expected=[e, e == -1, e == 1])
            break
    named = {PRESCfg.BACKUP_NONE: 0, PRESCfg.BACKUP_ONCE: 1, PRESCfg.BACKUP_TWICE: 2, PRESCfg.BACKUP_ALL: None}
    if (PRESCfg.BACKUP_NONE, PRESCfg.BACKUP_ALL, PRESCfg.BACKUP_ONCE, PRESCfg.BACKUP_TWICE) != \
            ((1, -1), (0, 0), (-1, 1), (-2, 2)):
        fail('BACKUP_* constants', observed=[PRESCfg.BACKUP_NONE, PRESCfg.BACKUP_ALL, PRESCfg.BACKUP_ONCE,
                                             PRESCfg.BACKUP_TWICE])
    if bu in named:
        lim = named[bu]
        for w in range(-4, 5):
            e = 0 if (lim is None or abs(w) <= lim) else (1 if w > 0 else -1)
            if t.offScale(w) != e:
                fail('offScale(%d) for a named back-up mode' % w, observed=t.offScale(w), expected=e)
                break
    width = F(rP) - F(lP)
    nontrivial = False
    for val in gen_values(rnd, is_log, lL, rL):
        hr = out_of_headroom(is_log, lL, rL, val)
        try:
            res = t.wrapPos(val)
        except PRESCfg.ExceptionLineTransBaseMath as e:
            nontrivial = True
            if not (is_log and val <= 0.0):
                fail('wrapPos raised', val=val, observed=repr(e), expected='a (wrap, pos) pair')
            continue
        except Exception as e:
            if hr and known('binary64-headroom'):
                continue
            fail('wrapPos raised', val=val, observed=repr(e),
                 expected='ExceptionLineTransBaseMath' if (is_log and val <= 0.0) else 'a (wrap, pos) pair')
            continue
        nontrivial = True
        if is_log and val <= 0.0:
            fail('wrapPos of a value <= 0 on a logarithmic scale', val=val, observed=repr(res),
                 expected='ExceptionLineTransBaseMath')
            continue
        if hr and known('binary64-headroom'):
            continue
        try:
            w, pos = res
        except Exception:
            fail('wrapPos result', val=val, observed=repr(res), expected='a (wrap, pos) pair')
            continue
        if isinstance(w, bool) or not isinstance(w, int):
            fail('wrap is not an int', val=val, observed=repr(w))
            continue
        p = exact_p(is_log, lL, rL, val)
        fl = math.floor(p)
        slack = (1 if near_integer(p) else 0) + int(abs(p) / 2 ** 50)
        if abs(w - fl) > slack:
            fail('wrap count', val=val, observed=w, expected=fl, p=flt(p))
            continue
        pos = float(pos)
        if not (lP <= pos <= rP):
            if not (known('pos-one-ulp-right-of-track') and pos > rP and pos == lP + (rP - lP)):
                fail('pos outside the track', val=val, observed=pos, wrap=w, p=flt(p))
                continue
        if abs(w) < 10 ** 6:
            unwrapped = F(lP) + p * width
            err = abs(F(pos) + w * width - unwrapped)
            if err > width / 10 ** 6:
                fail('pos + wrap * width differs from the unwrapped position', val=val, observed=pos, wrap=w,
                     expected=flt(unwrapped - w * width), p=flt(p))
                continue
        # L2P (skipped when the unwrapped position itself is not a binary64 number)
        if abs(F(lP) + p * width) > MAXF:
            continue
        try:
            l2p = float(t.L2P(val))
        except Exception as e:
            fail('L2P raised', val=val, observed=repr(e))
            continue
        if l2p != l2p or abs(l2p) == math.inf:
            fail('L2P is not finite', val=val, observed=repr(l2p), expected=flt(F(lP) + p * width))
            continue
        if is_log:
            lg = [abs(_DCTX.log10(_dec(F(x)))) for x in (lL, rL, val)]
            den = abs(_DCTX.log10(_dec(F(rL) / F(lL))))
            cond = F((lg[0] + lg[2] + den) / den)
        else:
            cond = (abs(F(lL)) + abs(F(val)) + abs(F(rL) - F(lL))) / abs(F(rL) - F(lL))
        tol = width * (F(1, 10 ** 9) + cond / 2 ** 46)
        unwrapped = F(lP) + p * width
        if abs(F(l2p) - unwrapped) > tol + abs(unwrapped) / 2 ** 48 + (abs(F(lP)) + abs(F(rP))) / 2 ** 46:
            fail('L2P differs from the unwrapped position', val=val, observed=l2p, expected=flt(unwrapped))
    return nontrivial, bad


# ===================================================================================================== part "plot"
MARGIN_IN = 0.25
PAPER_W_IN = 8.5
PX = 96.0
ABSENT = -999.25
NS = '{x-schema:LgSchema2.xml}'
UNITS_IN = {'FEET': F(12), 'M': 1 / F('0.0254'), '.1IN': F(1, 10)}
XML_WRAP_MODE = {'LG_LEFT_WRAPPED': (0, -1), 'LG_RIGHT_WRAPPED': (1, 0), 'LG_WRAPPED': (0, 0), 'LG_X10': (0, 0),
                 '1': (-1, 1), '2': (-2, 2)}
XML_WRAP_COUNT = {'1': (-1, 1), '2': (-2, 2)}
THREE_TRACK = [(0.0, 2.4), (2.4, 3.2), (3.2, 5.6), (5.6, 8.0)]          # T1, depth, T2, T3
FOUR_TRACK = [(0.0, 1.0), (1.0, 2.75), (2.75, 4.5), (4.5, 6.25), (6.25, 8.0)]   # depth, F1..F4
LIS_GRIDS3 = [(b'E20 ', b'-4--'), (b'E2E ', b'-1--'), (b'E2E ', b'-2--'), (b'E3E ', b'-3--'), (b'E4E ', b'-4--'),
              (b'EEE ', b'----'), (b'EEB ', b'----'), (b'EBE ', b'----'), (b'BBB ', b'----'), (b'EEE ', b'EEE-'),
              (b'EEB ', b'EEE-'), (b'EB0 ', b'----'), (b'E1E ', b'-4--'), (b'E40 ', b'-4--'), (b'EEE ', b'--- ')]
LIS_GRIDS4 = [(b'LLLL', b'1111')]
LIS_DSCA = {b'D20 ': 20, b'D40 ': 40, b'D200': 200, b'D500': 500, b'DM  ': 1000, b'S5  ': 240, b'S2  ': 600}
LIS_MODE = {b'SHIF': ((-1, 1), False), b'GRAD': ((1, -1), True), b'NB  ': ((1, -1), False), b'WRAP': ((0, 0), False),
            b'X10 ': ((0, 0), False)}
LIS_CODI = [b'LLIN', b'LSPO', b'LDAS', b'LGAP', b'HLIN', b'HSPO', b'HDAS', b'HGAP']
LIS_COLO = [None, None, b'BLAC', b'RED ', b'GREE', b'BLUE', b'AQUA', b'400 ', b'044 ', b'312 ']
TRAC3 = {b'T1  ': (0.0, 2.4), b'T2  ': (3.2, 5.6), b'T3  ': (5.6, 8.0), b'T23 ': (3.2, 8.0), b'T12 ': (0.0, 5.6),
         b'TD  ': (2.4, 3.2), b'LHT1': (0.0, 1.2), b'RHT1': (1.2, 2.4), b'LHT2': (3.2, 4.4), b'RHT2': (4.4, 5.6),
         b'LHT3': (5.6, 6.8), b'RHT3': (6.8, 8.0)}
TRAC4 = {b'F1  ': (1.0, 2.75), b'F2  ': (2.75, 4.5), b'F3  ': (4.5, 6.25), b'F4  ': (6.25, 8.0), b'FD  ': (0.0, 1.0),
         b'F23 ': (2.75, 6.25), b'F34 ': (4.5, 8.0), b'LHF1': (1.0, 1.875), b'RHF4': (7.125, 8.0)}


def new_curve(cid, outp, lP, rP, lL, rL, is_log, bu):
    return dict(id=cid, outp=outp, lP=float(lP), rP=float(rP), lL=float(lL), rL=float(rL), log=bool(is_log),
                bu=tuple(bu))


# ---------------------------------------------------------------------------------- LgFormat XML: reading (built-in)
def parse_lgformat(root):
    """Independent reading of an LgFormat document: returns dict(uid, scale, curves) or None."""
    if root.tag != NS + 'LgFormat' or root.get('UniqueId') is None:
        return None

    def one(e, name):
        els = e.findall(NS + name)
        return els[0].text if len(els) == 1 else None

    def num(e, name):
        t = one(e, name)
        return float(t) if t is not None else 0.0
    vs = root.findall(NS + 'LgVerticalScale')
    scale = int(one(vs[0], 'IndexScaler')) if vs and one(vs[0], 'IndexScaler') is not None else None
    curves = []
    seen = set()
    for tr in root.findall(NS + 'LgTrack'):
        lP, rP = num(tr, 'LeftPosition'), num(tr, 'RightPosition')
        for cu in tr.findall(NS + 'LgCurve'):
            cid = cu.get('UniqueId')
            ch = one(cu, 'ChannelName')
            if ch is None or cid in seen:
                continue
            lL, rL = num(cu, 'LeftLimit'), num(cu, 'RightLimit')
            if lL == rL:
                continue
            seen.add(cid)
            mode = one(cu, 'WrapMode')
            cnt = one(cu, 'WrapCount')
            if mode is not None and mode in XML_WRAP_MODE:
                bu = XML_WRAP_MODE[mode]
            elif cnt is not None and cnt in XML_WRAP_COUNT:
                bu = XML_WRAP_COUNT[cnt]
            else:
                bu = (0, 0)
            curves.append(new_curve(cid, ch, lP, rP, lL, rL, one(cu, 'Transform') == 'LG_LOGARITHMIC', bu))
    return dict(uid=root.get('UniqueId'), scale=scale, curves=curves)


_BUILTIN = None


def builtin_formats():
    global _BUILTIN
    if _BUILTIN is None:
        _BUILTIN = {}
        d = os.path.join(_REPO, 'src', 'TotalDepth', 'util', 'plot', 'formats')
        for name in sorted(os.listdir(d)):
            try:
                root = ET.parse(os.path.join(d, name)).getroot()
            except ET.ParseError:
                continue
            f = parse_lgformat(root)
            if f and f['uid'] not in _BUILTIN and f['scale'] is not None:
                _BUILTIN[f['uid']] = f
    return _BUILTIN


# ---------------------------------------------------------------------------------- LgFormat XML: writing (generated)
CHANNEL_POOL = ['GR', 'SP', 'CALI', 'RHOB', 'NPHI', 'ILD', 'ILM', 'SFL', 'DT', 'TENS', 'PEF', 'DRHO', 'C1', 'C2', 'BS',
                'ROP5', 'LLD', 'LLS', 'MSFL', 'TEST']


def num_text(rnd, v):
    if v == int(v) and abs(v) < 1e6 and rnd.random() < 0.6:
        return '%d' % int(v)
    return repr(float(v))


def gen_scale_edges(rnd, is_log):
    if is_log:
        l, r = gen_log_edges(rnd)
        if not (1e-6 <= l <= 1e6 and 1e-6 <= r <= 1e6):
            l, r = rnd.choice(LOG_TYPICAL)
        return l, r
    s = rnd.random()
    if s < 0.6:
        l, r = rnd.choice(LIN_TYPICAL)
    elif s < 0.85:
        l, r = round(rnd.uniform(-500, 500), 2), round(rnd.uniform(-500, 500), 2)
    else:
        l = round(rnd.uniform(-1e4, 1e4), 1)
        r = l + rnd.choice([-1, 1]) * 10.0 ** rnd.randint(-3, 4)
    if rnd.random() < 0.3:
        l, r = r, l
    if l == r:
        l, r = 0.0, 150.0
    return l, r


def gen_lgformat(rnd, channels):
    """Returns (xml text, format dict).  channels: names available in the log (some curves use other names)."""
    uid = rnd.choice(['Gen_Format', 'generated.xml', 'G1'])
    scale = rnd.choice([1, 5, 20, 25, 40, 100, 200, 240, 500, 600, 1000, rnd.randint(2, 2000)])
    if rnd.random() < 0.5:
        edges = list(THREE_TRACK)
    else:
        cuts = sorted(set([0.0, 8.0] + [round(rnd.uniform(0.2, 7.8), rnd.choice([1, 2, 3])) for _ in
                                        range(rnd.randint(1, 4))]))
        edges = [(a, b) for a, b in zip(cuts, cuts[1:]) if b - a >= 0.05]
    if rnd.random() < 0.4 and len(edges) >= 3:
        edges.append((edges[1][0], edges[-1][1]))           # an overlapping wide track like track23
    names = ['track%d' % (i + 1) for i in range(len(edges))]
    if len(edges) > 1:
        names[1] = 'depthTrack'
    out = ['<LgFormat UniqueId="%s" xmlns="x-schema:LgSchema2.xml">' % uid, '  <Description>generated &amp; &lt;odd&gt;'
           '</Description>', '  <LgVerticalScale UniqueId="VerticalScale">', '    <IndexScaler>%d</IndexScaler>' % scale,
           '    <IndexUnit>Ft</IndexUnit>', '  </LgVerticalScale>']
    curves = []
    used = 0
    for ti, ((a, b), name) in enumerate(zip(edges, names)):
        out.append('  <LgTrack UniqueId="%s">' % name)
        if name == 'depthTrack':
            out += ['    <IndexLinesVisible>0</IndexLinesVisible>', '    <IndexNumbersVisible>1</IndexNumbersVisible>']
        if a != 0.0 or rnd.random() < 0.5:
            out.append('    <LeftPosition>%s</LeftPosition>' % num_text(rnd, a))
        out.append('    <RightPosition>%s</RightPosition>' % num_text(rnd, b))
        g = rnd.random()
        if g < 0.4:
            out += ['    <LgLinearGrid UniqueId="g%d"><Color>818181</Color><LineCount>11</LineCount></LgLinearGrid>' % ti]
        elif g < 0.7:
            out += ['    <LgLogarithmicGrid UniqueId="g%d"><Color>818181</Color><Decade>%d</Decade>%s'
                    '</LgLogarithmicGrid>' % (ti, rnd.randint(1, 5),
                                              rnd.choice(['', '<LogScale>LG_LOG_2</LogScale>']))]
        ncu = rnd.choice([0, 1, 1, 2, 3]) if name != 'depthTrack' else rnd.choice([0, 0, 1])
        for _ in range(ncu):
            ch = rnd.choice(channels) if rnd.random() < 0.85 else rnd.choice(CHANNEL_POOL)
            used += 1
            cid = '%s_%d' % (ch, used)
            is_log = rnd.random() < 0.4
            lL, rL = gen_scale_edges(rnd, is_log)
            lt, rt = num_text(rnd, lL), num_text(rnd, rL)
            lL, rL = float(lt), float(rt)
            out.append('    <LgCurve UniqueId="%s">' % cid)
            out.append('      <ChannelName>%s</ChannelName>' % ch)
            out.append('      <Color>%06X</Color>' % rnd.randrange(1 << 24))
            if lL != 0.0 or rnd.random() < 0.5:
                out.append('      <LeftLimit>%s</LeftLimit>' % lt)
            if rL != 0.0 or rnd.random() < 0.5:
                out.append('      <RightLimit>%s</RightLimit>' % rt)
            if rnd.random() < 0.5:
                out.append('      <LineStyle>%s</LineStyle>' % rnd.choice(['LG_SOLID_LINE', 'LG_DOT_LINE', 'LG_DASH_LINE',
                                                                            'LG_LONG_DASH_LINE', 'LG_ODD_LINE']))
            out.append('      <Thickness>%s</Thickness>' % rnd.choice(['1', '1.75', '2']))
            if is_log:
                out.append('      <Transform>LG_LOGARITHMIC</Transform>')
            mode = rnd.choice([None, None, 'LG_LEFT_WRAPPED', 'LG_RIGHT_WRAPPED', 'LG_WRAPPED', 'LG_X10', '1', '2',
                               'LG_UNKNOWN'])
            cnt = rnd.choice([None, None, '0', '1', '2', '3'])
            if mode is not None:
                out.append('      <WrapMode>%s</WrapMode>' % mode)
            if cnt is not None:
                out.append('      <WrapCount>%s</WrapCount>' % cnt)
            out.append('    </LgCurve>')
            bu = XML_WRAP_MODE.get(mode) or XML_WRAP_COUNT.get(cnt) or (0, 0)
            curves.append(new_curve(cid, ch, a, b, lL, rL, is_log, bu))
        out.append('  </LgTrack>')
    out.append('</LgFormat>')
    return '\n'.join(out) + '\n', dict(uid=uid, scale=scale, curves=curves)


# ---------------------------------------------------------------------------------- LIS FILM / PRES tables (generated)
def gen_film_pres(rnd, channels):
    """Returns (FILM table LR bytes, PRES table LR bytes, {film id str: format dict})."""
    four = rnd.random() < 0.2
    grids = LIS_GRIDS4 if four else LIS_GRIDS3
    tracs = TRAC4 if four else TRAC3
    film_ids = rnd.sample([b'1   ', b'2   ', b'A   ', b'E   ', b'8   '], rnd.choice([1, 1, 2, 2, 3]))
    film_rows = []
    fmts = {}
    for fid in film_ids:
        gcod, gdec = rnd.choice(grids)
        dsca = rnd.choice(sorted(LIS_DSCA))
        film_rows.append([(b'MNEM', b'', 65, fid), (b'GCOD', b'', 65, gcod), (b'GDEC', b'', 65, gdec),
                          (b'DEST', b'', 65, b'PF' + fid[:1] + b' '), (b'DSCA', b'', 65, dsca)])
        fmts[fid.decode().strip()] = dict(uid=fid, scale=LIS_DSCA[dsca], curves=[])
    pres_rows = []
    used = set()
    for i in range(rnd.randint(1, 7)):
        while True:
            mnem = ('%s%d' % (rnd.choice('ABCDEFGH'), rnd.randint(0, 99))).ljust(4).encode()
            if mnem not in used:
                used.add(mnem)
                break
        outp = rnd.choice(channels) if rnd.random() < 0.85 else rnd.choice(CHANNEL_POOL)
        trac = rnd.choice(sorted(tracs))
        mode = rnd.choice(sorted(LIS_MODE))
        bu, is_log = LIS_MODE[mode]
        lL, rL = gen_scale_edges(rnd, is_log)
        lL, rL = r68(lL), r68(rL)
        if lL == rL or (is_log and (lL <= 0 or rL <= 0)):
            lL, rL = (0.25, 2048.0) if is_log else (0.0, 150.0)
        s = rnd.random()
        if s < 0.55:
            dest = rnd.choice(film_ids)
        elif s < 0.7:
            dest = b'ALL '
        elif s < 0.8:
            dest = b'BOTH'
        elif s < 0.9:
            dest = b''.join(f[:1] for f in rnd.sample(film_ids, rnd.randint(1, len(film_ids)))).ljust(4)
        else:
            dest = b'NEIT'
        row = [(b'MNEM', b'', 65, mnem), (b'OUTP', b'', 65, outp.ljust(4).encode()), (b'STAT', b'', 65, b'ALLO'),
               (b'TRAC', b'', 65, trac), (b'CODI', b'', 65, rnd.choice(LIS_CODI)), (b'DEST', b'', 65, dest),
               (b'MODE', b'', 65, mode), (b'FILT', b'', 68, 0.5), (b'LEDG', b'', 68, lL), (b'REDG', b'', 68, rL)]
        colo = rnd.choice(LIS_COLO)
        if colo is not None:
            row.append((b'COLO', b'', 65, colo))
        pres_rows.append(row)
        if dest == b'NEIT':
            continue
        if dest == b'ALL ':
            films = list(film_ids)
        elif dest == b'BOTH':
            films = list(film_ids) if len(film_ids) == 2 else [f for f in film_ids if f[:1] in dest]
        elif dest in film_ids:
            films = [dest]
        else:
            films = [f for f in film_ids if f[:1] in dest.strip()]
        for f in films:
            a, b = tracs[trac]
            fmts[f.decode().strip()]['curves'].append(new_curve(mnem.decode().strip(), outp, a, b, lL, rL, is_log, bu))
    return (L.table_record(34, b'FILM', film_rows), L.table_record(34, b'PRES', pres_rows), fmts)


# ---------------------------------------------------------------------------------- the log pass data
def gen_xaxis(rnd, max_scale, min_scale):
    units = rnd.choice(['FEET', 'FEET', 'FEET', 'M', '.1IN'])
    if units == 'FEET':
        step, lo, hi = rnd.choice([0.25, 0.5, 0.5, 1.0, 2.0]), 100, 9000
    elif units == 'M':
        step, lo, hi = rnd.choice([0.125, 0.25, 0.5]), 50, 3000
    else:
        step, lo, hi = rnd.choice([30.0, 60.0, 120.0]), 12000, 1200000
    per = float(UNITS_IN[units])
    while step * per * PX / max_scale < 0.45:          # at least 0.45 px between samples at the smallest plot
        step *= 2
    n = rnd.choice([2, 3, 5, 8, 12, 16, 24, 40])
    while n > 2 and (n - 1) * step * per / min_scale > 150:       # not more than 150 inches of plot
        n = max(2, n // 2)
    up = rnd.random() < 0.5
    start = math.floor(rnd.uniform(lo, hi) / step) * step
    xs = [start + i * step for i in range(n)]
    if up:
        xs.reverse()
    assert all(r68(x) == x for x in xs)
    return units, step, up, xs


def gen_channel(rnd, n, ref, for_lis):
    """n values for a channel whose first curve is ref (or None).  Absent samples are ABSENT."""
    if ref is None:
        ref = new_curve('x', 'x', 0, 1, 0.0, 150.0, False, (0, 0))
    lL, rL, is_log = ref['lL'], ref['rL'], ref['log']

    def at(k):          # the value at normalised position k
        try:
            return lL * (rL / lL) ** k if is_log else lL + k * (rL - lL)
        except OverflowError:
            return 1e38
    kind = rnd.choice(['constant', 'ramp', 'ramp', 'spiky', 'spiky', 'huge', 'tiny', 'negative', 'edges', 'random',
                       'absent', 'inscale'])
    if kind == 'constant':
        v = at(rnd.choice([0.5, 0.0, 1.0, rnd.uniform(0, 1), rnd.uniform(-2, 3)]))
        vals = [v] * n
    elif kind == 'ramp':
        a, b = rnd.choice([(0, 1), (-1, 2), (-2.5, 3.5), (0.1, 0.9), (3, -2), (0, 8)])
        vals = [at(a + (b - a) * i / max(1, n - 1)) for i in range(n)]
    elif kind == 'spiky':
        vals = [at(rnd.uniform(0.05, 0.95)) for _ in range(n)]
        for _ in range(max(1, n // 5)):
            mag = 10.0 ** rnd.uniform(0.5, 30)
            i = rnd.randrange(n)
            vals[i] = (vals[i] * mag if rnd.random() < 0.7 else vals[i] / mag) if is_log else \
                lL + rnd.choice([-1, 1]) * mag * abs(rL - lL)
    elif kind == 'huge':
        vals = [rnd.choice([1e30, -1e30, 1e30, 3e37, 10.0 ** rnd.uniform(12, 38), at(0.5)]) for _ in range(n)]
    elif kind == 'tiny':
        vals = [rnd.choice([1e-30, -1e-30, 1e-30, 0.0, 10.0 ** -rnd.uniform(5, 38), at(0.5)]) for _ in range(n)]
    elif kind == 'negative':
        vals = [rnd.choice([at(rnd.uniform(0, 1)), -at(rnd.uniform(0, 1)), 0.0, -1.0, -1e30, -0.0]) for _ in range(n)]
    elif kind == 'edges':
        vals = [at(rnd.choice([0, 1, 2, -1, 0.5, 3, -2])) for _ in range(n)]
    elif kind == 'random':
        vals = [rnd.uniform(-1000, 1000) for _ in range(n)]
    else:
        vals = [at(rnd.uniform(0.02, 0.98)) for _ in range(n)]
    vals = [max(-1.6e38, min(1.6e38, float(v))) for v in vals]
    if for_lis or rnd.random() < 0.5:
        vals = [r68(v) for v in vals]
    vals = [v + 0.5 if v == ABSENT else v for v in vals]
    # absent values
    pa = 0.6 if kind == 'absent' else 0.35
    if rnd.random() < pa:
        for _ in range(rnd.choice([1, 1, 2, 3])):
            s = rnd.choice(['start', 'end', 'mid', 'mid', 'one'])
            ln = 1 if s == 'one' else rnd.randint(1, max(1, n // 3))
            i0 = 0 if s == 'start' else (n - ln if s == 'end' else rnd.randrange(n))
            for i in range(i0, min(n, i0 + ln)):
                vals[i] = ABSENT
    if kind == 'absent' and rnd.random() < 0.15:
        vals = [ABSENT] * n
    return kind, vals


def gen_log(rnd, fmt_list, for_lis):
    """fmt_list: the format dicts that will be plotted.  Returns the log description (a dict)."""
    scales = [f['eff_scale'] for f in fmt_list]
    units, step, up, xs = gen_xaxis(rnd, max(scales), min(scales))
    if not for_lis and units == '.1IN':
        units = 'FEET'
    chans = []
    for f in fmt_list:
        for c in f['curves']:
            if c['outp'] not in chans and len(c['outp']) <= 4:
                chans.append(c['outp'])
    rnd.shuffle(chans)
    keep = max(1, min(len(chans), rnd.choice([1, 2, 3, 4, 6])))
    chans = chans[:keep]
    for extra in rnd.sample(CHANNEL_POOL, 2):                   # channels no format uses
        if extra not in chans and rnd.random() < 0.4 and all(extra != c['outp'] for f in fmt_list for c in f['curves']):
            chans.append(extra)
    if not chans:
        chans = [rnd.choice(CHANNEL_POOL)]
    data = {}
    kinds = {}
    for ch in chans:
        refs = [c for f in fmt_list for c in f['curves'] if c['outp'] == ch]
        kinds[ch], data[ch] = gen_channel(rnd, len(xs), rnd.choice(refs) if refs else None, for_lis)
    return dict(units=units, step=step, up=up, xs=xs, chans=chans, data=data, kinds=kinds)


def lis_units(u):
    return {'FEET': b'FEET', 'M': b'M   ', '.1IN': b'.1IN'}[u]


def build_lis(rnd, log, tables):
    """tables: LR bytes to put before the DFSR (FILM, PRES).  Returns the file bytes."""
    implied = rnd.random() < 0.3
    chans = ([] if implied else [('DEPT', log['units'])]) + [(c, 'UNIT') for c in log['chans']]
    fsize = 4 * len(chans)
    ebs = [(1, 66, 0), (2, 66, 0), (3, 79, fsize), (4, 66, 1 if log['up'] else 255), (12, 68, ABSENT),
           (13, 66, 1 if implied else 0), (16, 66, 0)]
    if implied or rnd.random() < 0.6:
        ebs += [(8, 68, log['step']), (9, 65, lis_units(log['units']))]
    if implied:
        ebs += [(14, 65, lis_units(log['units'])), (15, 66, 68)]
    ebs.sort()
    dsbs = [L.datum_spec_block(m.ljust(4).encode(), b'SRV', b'1', lis_units(u) if m == 'DEPT' else rnd.choice([b'GAPI',
            b'OHMM', b'    ', b'MV  ']), bytes(4), 1, 4, 1, 68) for m, u in chans]
    dfsr = L.dfsr([L.entry_block(*e) for e in ebs], dsbs)
    frames = []
    for i, x in enumerate(log['xs']):
        fb = b'' if implied else L.enc68(x)
        for c in log['chans']:
            fb += L.enc68(log['data'][c][i])
        frames.append(fb)
    n = len(frames)
    per = n if rnd.random() < 0.08 else rnd.choice([p for p in (1, 3, 8, 20) if p < n])
    log['single_record'] = per >= n
    recs = []
    for i in range(0, len(frames), per):
        recs.append(L.data_record(0, frames[i:i + per], L.enc68(log['xs'][i]) if implied else None))
    hdr = (b'FILE  .001', b'SUBLVL', b'VERS 1.0', b'83/12/31', b' 1024', b'LO')
    lrs = [L.file_header_trailer(128, *hdr, b'')] + list(tables) + [dfsr] + recs + [L.file_header_trailer(129, *hdr, b'')]
    data, _ = plis.build(lrs, rnd.choice([1024, 8192, 256]))
    return data


def build_las(rnd, log):
    u = {'FEET': 'FT', 'M': 'M'}[log['units']]
    xs = log['xs']
    step = xs[1] - xs[0]
    out = ['~VERSION INFORMATION', ' VERS.   2.0: CWLS LOG ASCII STANDARD -VERSION 2.0', ' WRAP.   NO: ONE LINE PER DEPTH STEP',
           '~WELL INFORMATION', ' STRT.%s  %r: START' % (u, xs[0]), ' STOP.%s  %r: STOP' % (u, xs[-1]),
           ' STEP.%s  %r: STEP' % (u, step), ' NULL.  %r: NULL' % ABSENT, ' WELL.  GENERATED: WELL',
           '~CURVE INFORMATION', ' DEPT.%s  : depth' % u]
    for c in log['chans']:
        out.append(' %s.%s  : curve' % (c, rnd.choice(['GAPI', 'OHMM', 'MV', 'LB'])))
    out.append('~A')
    for i, x in enumerate(xs):
        out.append(' '.join([repr(x)] + [repr(log['data'][c][i]) for c in log['chans']]))
    return '\n'.join(out) + '\n'


# ---------------------------------------------------------------------------------- reading the SVG
def _len_px(txt):
    """'1.250in' or a plain number (user units) -> user units (px)."""
    txt = txt.strip()
    if txt.endswith('in'):
        return float(txt[:-2]) * PX
    if txt.endswith('px'):
        return float(txt[:-2])
    return float(txt)


def _points_of(el):
    tag = el.tag.split('}')[-1]
    if tag in ('polyline', 'polygon'):
        pts = []
        for tok in el.get('points', '').split():
            xy = tok.split(',')
            if len(xy) != 2:
                raise ValueError('point %r' % tok)
            pts.append((float(xy[0]), float(xy[1])))
        return pts
    if tag == 'line':
        return [(_len_px(el.get('x1')), _len_px(el.get('y1'))), (_len_px(el.get('x2')), _len_px(el.get('y2')))]
    if tag == 'path':
        nums = [float(t) for t in re.findall(r'[-+]?(?:\d+\.?\d*|\.\d+)(?:[eE][-+]?\d+)?|nan|inf', el.get('d', ''))]
        return list(zip(nums[0::2], nums[1::2]))
    raise ValueError('unexpected element <%s> among the curves' % tag)


def read_svg(path):
    """Returns dict(W, H, width_in, height_in, rects=[(y, h) of the blue legend boxes in inches],
    outputs=[(name, [polyline points, ...])], problems=[...])."""
    parser = ET.XMLParser(target=ET.TreeBuilder(insert_comments=True))
    with open(path, 'rb') as f:
        root = ET.parse(f, parser=parser).getroot()
    out = dict(problems=[], outputs=[], rects=[])
    if root.tag.split('}')[-1] != 'svg':
        out['problems'].append('root element is %s' % root.tag)
    out['width_in'] = float(root.get('width', 'nan').replace('in', ''))
    out['height_in'] = float(root.get('height', 'nan').replace('in', ''))
    vb = [float(t) for t in root.get('viewBox', '').split()]
    if len(vb) != 4 or vb[0] != 0 or vb[1] != 0:
        out['problems'].append('viewBox %r' % root.get('viewBox'))
        vb = [0, 0, float('nan'), float('nan')]
    out['W'], out['H'] = vb[2], vb[3]
    in_curves = False
    current = None
    for el in root.iter():
        if el.tag is ET.Comment:
            txt = el.text or ''
            if 'Plot Curves START' in txt:
                in_curves = True
            elif 'Plot Curves END' in txt:
                in_curves = False
            elif in_curves:
                m = re.search(r'Output (.*?) (START|END)', txt)
                if m and m.group(2) == 'START':
                    current = (m.group(1).strip(), [])
                    out['outputs'].append(current)
                elif m:
                    current = None
            continue
        tag = el.tag.split('}')[-1]
        if in_curves:
            try:
                pts = _points_of(el)
            except ValueError as e:
                out['problems'].append(str(e))
                continue
            if current is None:
                out['problems'].append('<%s> among the curves but outside an Output section' % tag)
            else:
                current[1].append(pts)
        elif tag == 'rect' and el.get('stroke') == 'blue':
            out['rects'].append((_len_px(el.get('y')) / PX, _len_px(el.get('height')) / PX))
    return out


# ---------------------------------------------------------------------------------- judging one SVG
def sample_model(log, curves):
    """For one output channel: per sample and per curve the oracle (state, w, frac, p, loose).
    state: 'absent' | 'math' (not transformable) | 'off' | 'on' | 'amb' (on / off scale undecidable: p is within 1e-9
    of an integer near the back-up limits); loose: the position inside the track is not predictable."""
    vals = log['values']
    model = []
    for v in vals:
        row = []
        for c in curves:
            if v == ABSENT:
                row.append(('absent', None, None, None, False))
                continue
            if c['log'] and v <= 0:
                row.append(('math', None, None, None, False))
                continue
            p = exact_p(c['log'], c['lL'], c['rL'], v)
            w = math.floor(p)
            ni = near_integer(p)
            if ni and abs(round(p)) <= 3:
                row.append(('amb', w, p - w, p, True))
                continue
            loose = ni or abs(w) >= 10 ** 6         # the position inside the track is not predictable
            row.append(('off' if expected_offscale(c['bu'], w) else 'on', w, p - w, p, loose))
        model.append(row)
    return model


def judge_svg(svg, fmt, log, desc):
    """svg: read_svg() result; fmt: format dict (uid, eff_scale, curves); log: dict(units, xs, up, data, chans).
    Returns a list of (what, observed, expected)."""
    bad = []

    def fail(what, observed=None, expected=None, **kw):
        if len(bad) < 4:
            d = dict(what=what, observed=observed, expected=expected)
            d.update(kw)
            bad.append(d)
    for p in svg['problems']:
        fail('SVG structure', p)
    W, H = svg['W'], svg['H']
    if abs(svg['width_in'] - PAPER_W_IN) > 1e-3 or not abs(W - PX * PAPER_W_IN) <= 0.01:
        fail('document width', [svg['width_in'], W], [PAPER_W_IN, PX * PAPER_W_IN])
    if not abs(H - PX * svg['height_in']) <= 0.06:
        fail('viewBox height differs from the document height', H, PX * svg['height_in'])
    if len(svg['rects']) != 2:
        fail('legend boxes', len(svg['rects']), 2)
        return bad
    (ya, ha), (yb, hb) = sorted(svg['rects'])
    nsl = round((ha - 0.5) / 0.5)
    if abs(ha - hb) > 1e-3 or nsl < 0 or abs(ha - (0.5 + 0.5 * nsl)) > 1.5e-3 or abs(ya - MARGIN_IN) > 1.5e-3:
        fail('legend box geometry', [ya, ha, yb, hb], 'top box at 0.25 in, both 0.5 + k * 0.5 in deep')
        return bad
    pane_top = PX * (MARGIN_IN + 0.5 + 0.5 * nsl)
    xs = log['xs']
    span_in = abs(F(xs[-1]) - F(xs[0])) * UNITS_IN[log['units']]
    depth = float(span_in / fmt['eff_scale'] * 96)
    if abs(PX * yb - (pane_top + depth)) > 0.2 or abs(H - (pane_top + depth + PX * (ha + MARGIN_IN))) > 0.3:
        fail('main pane depth (scale %s)' % fmt['eff_scale'], [round(PX * yb - pane_top, 3), H],
             [round(depth, 3), round(pane_top + depth + PX * (ha + MARGIN_IN), 3)])
        return bad
    left, right = PX * MARGIN_IN, PX * (PAPER_W_IN - MARGIN_IN)
    tol = 0.06

    def ypos(x):
        fr = float((F(x) - F(xs[0])) / (F(xs[-1]) - F(xs[0])))
        return pane_top + depth * ((1 - fr) if log['up'] else fr)
    ys = [ypos(x) for x in xs]
    # f. output sections
    want = []
    for c in fmt['curves']:
        if c['outp'] not in want:
            want.append(c['outp'])
    got = [name for name, _ in svg['outputs']]
    if sorted(got) != sorted(want):
        fail('Output sections', sorted(got), sorted(want))
    for name, polys in svg['outputs']:
        curves = [c for c in fmt['curves'] if c['outp'] == name]
        if name not in log['data']:
            if polys:
                fail('polylines for a channel that is not in the log', name)
            continue
        if not curves:
            continue
        vals = log['data'][name]
        model = sample_model(dict(values=vals), curves)
        present = [i for i, v in enumerate(vals) if v != ABSENT]
        # runs of consecutive present samples -> allowed depth intervals
        runs = []
        for i in present:
            if runs and runs[-1][1] == i - 1:
                runs[-1][1] = i
            else:
                runs.append([i, i])
        spans = [(min(ys[a], ys[b]), max(ys[a], ys[b])) for a, b in runs]
        tracks = [(left + PX * c['lP'], left + PX * c['rP']) for c in curves]
        claimed = set()
        for pts in polys:
            stat('polylines')
            stat('points', len(pts))
            if not pts:
                fail('empty polyline', name)
                continue
            # a. view box, margins, pane
            for (x, y) in pts:
                if not (0 <= x <= W and 0 <= y <= H):
                    fail('curve point outside the view box', [x, y], [W, H], output=name)
                    break
                if not (left - tol <= x <= right + tol):
                    fail('curve point outside the plot margins', [x, y], [left, right], output=name)
                    break
                if not (pane_top - tol <= y <= pane_top + depth + tol):
                    fail('curve point outside the main pane', [x, y], [pane_top, pane_top + depth], output=name)
                    break
            else:
                # b. inside one curve's track
                owners = [k for k, (a, b) in enumerate(tracks) if all(a - tol <= x <= b + tol for x, _ in pts)]
                if not owners:
                    fail('polyline is not inside the track of a curve of its output', pts[:4],
                         [[round(a, 1), round(b, 1)] for a, b in tracks], output=name)
                    continue
                for (x, y) in pts:
                    # c. no point for absent values
                    if not any(a - tol <= y <= b + tol for a, b in spans):
                        if known('wrap-change-across-absent-gap') and _gap_excused(y, ys, vals, model, tol):
                            stat('known:gap points')
                        else:
                            fail('curve point at a depth without a present sample', [x, y],
                                 [[round(a, 1), round(b, 1)] for a, b in spans][:6], output=name)
                            break
                    # e. a point that is not on a track edge is a sample point
                    if any(abs(x - tracks[k][0]) <= tol or abs(x - tracks[k][1]) <= tol for k in owners):
                        # an edge point at the depth of a sample that can not be transformed (<= 0, logarithmic) must
                        # be explainable as a wrap interpolation point of the NEXT present sample
                        for i in present:
                            if abs(ys[i] - y) <= tol and all(model[i][k][0] == 'math' for k in owners) and \
                                    not _interpolation_possible(i, present, model, owners):
                                fail('curve point at the depth of a value <= 0 on a logarithmic scale', [x, y], None,
                                     output=name, value=vals[i], frame=i)
                                break
                        else:
                            continue
                        break
                    hit = False
                    for i in present:
                        if abs(ys[i] - y) > tol:
                            continue
                        for k in owners:
                            st, w, fr, p, loose = model[i][k]
                            if st in ('on', 'amb'):
                                a, b = tracks[k]
                                if loose:
                                    hit = True
                                elif abs(a + float(fr) * (b - a) - x) <= tol + (b - a) * 1e-9 * (abs(w) + 1):
                                    hit = True
                    if not hit:
                        fail('curve point that is not a sample on scale', [x, y], None, output=name)
                        break
        # d. every on scale sample has its point
        allpts = [pt for pts in polys for pt in pts]
        for i in present:
            if i == len(vals) - 1 and log.get('drop_last'):
                continue
            for k, c in enumerate(curves):
                st, w, fr, p, loose = model[i][k]
                stat('samples:' + st)
                if st != 'on':
                    continue
                a, b = tracks[k]
                if loose:
                    ok = any(abs(y - ys[i]) <= tol and a - tol <= x <= b + tol for x, y in allpts)
                    ex = None
                else:
                    ex = a + float(fr) * (b - a)
                    ok = any(abs(y - ys[i]) <= tol and abs(x - ex) <= tol + (b - a) * 1e-9 * (abs(w) + 1)
                             for x, y in allpts)
                if not ok:
                    fail('no curve point for a present sample that is on scale', None, [ex, round(ys[i], 2)],
                         output=name, curve=c['id'], value=vals[i], wrap=w, frame=i)
                    break
            else:
                continue
            break
    return bad


def _interpolation_possible(i, present, model, owners):
    """Can Plot._interpolateBackup() put a point at the depth of sample i?  Only as the start of the interpolation to
    the next present sample j (then xPrev is sample i) when the wrap count changes by so much that the first
    interpolated depth is practically that of sample i."""
    later = [j for j in present if j > i]
    if not later:
        return False
    j = later[0]
    for k in owners:
        sj = model[j][k]
        if sj[0] in ('absent', 'math'):
            continue
        prev = [model[h][k] for h in present if h < j and model[h][k][0] not in ('absent', 'math')]
        if prev and (sj[4] or prev[-1][4] or abs(sj[1] - prev[-1][1]) >= 4):
            return True
    return False


def _gap_excused(y, ys, vals, model, tol):
    """True when y lies strictly inside a gap of absent samples whose first present sample after the gap has, for some
    curve, a wrap count that differs (or may differ) from the wrap of the last transformable sample before it."""
    n = len(vals)
    for i in range(n):
        if vals[i] != ABSENT:
            continue
        a = i - 1
        while a >= 0 and vals[a] == ABSENT:
            a -= 1
        b = i + 1
        while b < n and vals[b] == ABSENT:
            b += 1
        if a < 0 or b >= n:
            continue
        lo, hi = min(ys[a], ys[b]), max(ys[a], ys[b])
        if not (lo - tol <= y <= hi + tol):
            continue
        for k in range(len(model[b])):
            sb = model[b][k]
            if sb[0] in ('absent', 'math'):
                continue
            j = b - 1
            while j >= 0 and model[j][k][0] in ('absent', 'math'):
                j -= 1
            if j < 0:
                continue
            sa = model[j][k]
            if sa[4] or sb[4] or sa[1] != sb[1]:
                return True
    return False


# ---------------------------------------------------------------------------------- running the real plotting code
class LasHolder(object):
    """The names Plot.py expects of a frame holder, in terms of the real LASRead API (see 'las-plot-frame-holder-api')."""
    def __init__(self, las):
        self._las = las

    def __getattr__(self, name):
        return getattr(self._las, name)

    @staticmethod
    def _name(m):
        return m.pStr(strip=True) if isinstance(m, Mnem.Mnem) else m

    def has_output_mnemonic(self, m):
        return self._las.has_output_mnemonic(self._name(m))

    def hasOutpMnem(self, m):
        return self._las.has_output_mnemonic(self._name(m))

    def curveUnitsAsStr(self, m):
        return self._las.curve_units_as_str(self._name(m)).decode('ascii')

    @property
    def nullValue(self):
        return self._las.null_value

    @property
    def xAxisUnits(self):
        return self._las.x_axis_units

    def genOutpPoints(self, m):
        import numpy
        fa = self._las.frame_array
        i = self._las['C'].find(self._name(m))
        xa = fa.x_axis.array
        ca = fa.channels[i].array
        mask = numpy.ma.getmaskarray(ca)
        for k in range(len(xa)):
            yield float(xa[k][0]), (self._las.null_value if mask[k][0] else float(ca[k][0]))


def make_plot_xml(case):
    """The Plot object for an LgFormat (built-in by unique id, or a generated document)."""
    if case['xml'] is None:
        return Plot.PlotReadXML(case['uid'], case['scale_arg'])
    fc = FILMCfgXML.FilmCfgXMLRead('')
    uid = fc.addXMLRoot(ET.fromstring(case['xml']))
    assert uid == case['uid']
    return Plot.Plot(fc, PRESCfgXML.PresCfgXMLRead(fc, uid), case['scale_arg'])


def _plot_lis_record_set(case, tmp, lisf, prs, res):
    src = case['source']
    lp = prs.logPass
    if src == 'lis-internal':
        lisf.seekLr(prs.tellFilm)
        lr_film = LogiRec.LrTableRead(lisf)
        lisf.seekLr(prs.tellPres)
        lr_pres = LogiRec.LrTableRead(lisf)
        plot = Plot.PlotReadLIS(lr_film, lr_pres, None, None, case['scale_arg'])
        films = {k: Mnem.Mnem(case['fmts'][k]['uid']) for k in case['fmts']}
        if sorted(f.pStr(strip=True) for f in plot.filmIdS()) != sorted(films):
            for key in case['fmts']:
                res[key] = dict(path=None, ret=None, via='direct',
                                error='film ids %r' % sorted(f.pStr(strip=True) for f in plot.filmIdS()))
            return
    else:
        plot = make_plot_xml(case)
        films = {case['uid']: case['uid']}
    for key, fid in films.items():
        p = os.path.join(tmp, 'plot_%s.svg' % re.sub(r'\W', '_', key))
        r = dict(path=None, ret=None, error=None, via='direct')
        try:
            if plot.hasDataToPlotLIS(lp, fid):
                r['ret'] = limited(plot.plotLogPassLIS, lisf, lp, lp.xAxisFirstEngVal, lp.xAxisLastEngVal, fid, p,
                                   frameStep=1, title='Plot: %s <&> "%s"' % (key, src))
        except Exception as e:      # noqa
            r['error'] = ''.join(traceback.format_exception_only(type(e), e)).strip()
            r['tb'] = traceback.format_exc(limit=-3)
        if os.path.isfile(p):
            r['path'] = p
        res[key] = r


def run_case_plots(case, tmp):
    """Returns {film key: dict(path=..., ret=..., error=..., via=...)} for every film of the case."""
    res = {}
    src = case['source']
    if src.startswith('lis'):
        fp_in = os.path.join(tmp, 'in.lis')
        with open(fp_in, 'wb') as f:
            f.write(case['bytes'])
        if case['cli']:
            opts = types.SimpleNamespace(recurse=False, keepGoing=False, apiHeader=False, LgFormat_min=0,
                                         scale=case['scale_arg'],
                                         LgFormat=None if src == 'lis-internal' else [case['uid']])
            fp_out = os.path.join(tmp, 'out', 'in.lis')
            os.makedirs(os.path.dirname(fp_out), exist_ok=True)
            err = None
            try:
                limited(PlotLogs.PlotLogPasses, fp_in, fp_out, opts)
            except Exception as e:      # noqa
                err = ''.join(traceback.format_exception_only(type(e), e)).strip()
            for key in case['fmts']:
                p = '%s_%04d_%s.svg' % (fp_out, 0, key)
                res[key] = dict(path=p if os.path.isfile(p) else None, ret=None, error=err, via='PlotLogPasses')
            return res
        lisf = File.FileRead(fp_in, theFileId=fp_in, keepGoing=False)
        idx = FileIndexer.FileIndex(lisf)
        nsets = 0
        for prs in idx.genPlotRecords(fromInternalRecords=(src == 'lis-internal')):
            # NOTE: the generator yields one mutable object and clears it later: use it inside the loop
            nsets += 1
            if nsets > 1:
                break
            _plot_lis_record_set(case, tmp, lisf, prs, res)
        if nsets != 1:
            for key in case['fmts']:
                res[key] = dict(path=None, ret=None, error='%d plot record sets' % nsets, via='direct')
        return res
    # LAS
    fp_in = os.path.join(tmp, 'in.las')
    with open(fp_in, 'w') as f:
        f.write(case['text'])
    key = case['uid']
    for via in ('direct', 'adapter'):
        p = os.path.join(tmp, 'las_%s.svg' % via)
        r = dict(path=None, ret=None, error=None, via=via)
        try:
            las = LASRead.LASRead(fp_in)
            holder = las if via == 'direct' else LasHolder(las)
            plot = make_plot_xml(case)
            if plot.hasDataToPlotLAS(holder, key):
                r['ret'] = limited(plot.plotLogPassLAS, holder, las.x_axis_start, las.x_axis_stop, key, p, frameStep=1,
                                   title='Plot: LAS', plotHeader=False)
                r['called'] = True
        except Exception as e:      # noqa
            r['error'] = ''.join(traceback.format_exception_only(type(e), e)).strip()
            r['tb'] = traceback.format_exc(limit=-3)
        if os.path.isfile(p) and r['error'] is None:
            r['path'] = p
        res[via] = r
    return res


# ---------------------------------------------------------------------------------- one plot case
def gen_plot_case(rnd, idx):
    s = rnd.random()
    source = 'lis-internal' if s < 0.4 else 'lis-builtin' if s < 0.65 else 'lis-generated' if s < 0.82 else \
        'las-builtin' if s < 0.92 else 'las-generated'
    case = dict(part='plot', case=idx, source=source, xml=None, uid=None, cli=False)
    case['scale_arg'] = 0 if rnd.random() < 0.6 else rnd.choice([1, 5, 20, 25, 40, 100, 200, 240, 500, 1000,
                                                                  rnd.randint(2, 3000)])
    for_lis = source.startswith('lis')
    chan_choice = rnd.sample(CHANNEL_POOL, rnd.randint(1, 5))
    if source == 'lis-internal':
        film, pres, fmts = gen_film_pres(rnd, chan_choice)
        case['cli'] = rnd.random() < 0.3
    elif source.endswith('builtin'):
        b = builtin_formats()
        uids = [u for u in sorted(b) if any(len(c['outp']) <= 4 for c in b[u]['curves'])]
        uid = rnd.choice(uids)
        fmts = {uid: dict(b[uid], curves=[dict(c) for c in b[uid]['curves']])}
        case['uid'] = uid
        case['cli'] = for_lis and rnd.random() < 0.3
    else:
        xml, fmt = gen_lgformat(rnd, chan_choice)
        fmts = {fmt['uid']: fmt}
        case['uid'] = fmt['uid']
        case['xml'] = xml
    for f in fmts.values():
        f['eff_scale'] = case['scale_arg'] or f['scale']
    log = gen_log(rnd, list(fmts.values()), for_lis)
    case['fmts'] = fmts
    case['log'] = log
    log['drop_last'] = for_lis and known('lis-last-frame-not-plotted')
    if for_lis:
        tables = [film, pres] if source == 'lis-internal' else []
        case['bytes'] = build_lis(rnd, log, tables)
    else:
        case['text'] = build_las(rnd, log)
    return case


def describe(case, key=None):
    log = case['log']
    d = dict(part='plot', case=case['case'], source=case['source'], cli=case['cli'], scale_arg=case['scale_arg'],
             units=log['units'], up=log['up'], frames=len(log['xs']), x=[log['xs'][0], log['xs'][-1]],
             kinds=log['kinds'])
    if key is not None:
        f = case['fmts'][key]
        d['film'] = key
        d['scale'] = f['eff_scale']
        d['curves'] = [[c['id'], c['outp'], c['lP'], c['rP'], c['lL'], c['rL'], 'log' if c['log'] else 'lin', list(c['bu'])]
                       for c in f['curves'] if c['outp'] in log['data']][:6]
    return d


def run_plot_case(rnd, idx, keep=None):
    case = gen_plot_case(rnd, idx)
    log = case['log']
    bad = []
    nontrivial = False
    tmp = tempfile.mkdtemp(prefix='c19_')

    def fail(key, what, **kw):
        w = describe(case, key)
        w['what'] = what
        w.update(kw)
        bad.append(w)
    try:
        try:
            results = run_case_plots(case, tmp)
        except Exception as e:      # noqa
            fail(None, 'reading the generated input failed', observed=traceback.format_exc(limit=-3))
            results = {}
        is_las = case['source'].startswith('las')
        for rkey, r in results.items():
            key = case['uid'] if is_las else rkey
            fmt = case['fmts'][key]
            plotted = [c for c in fmt['curves'] if c['outp'] in log['data']]
            expect_file = bool(plotted)
            if is_las and r['via'] == 'direct' and known('las-plot-frame-holder-api'):
                if r['path'] is None:
                    stat('known:las direct')
                    continue            # the known finding: no plot from a LAS file
            if log.get('single_record') and known('lis-single-data-record') and r['path'] is None and (
                    case['cli'] or (r['error'] or '').startswith('TypeError: unsupported operand type(s) for //')):
                stat('known:single record')
                continue
            if r['error'] is not None and not (case['cli'] and r['path']):
                fail(key, 'plotting raised (%s)' % r['via'], observed=r['error'], tb=r.get('tb'))
                continue
            if expect_file and r['path'] is None:
                fail(key, 'no plot was produced (%s)' % r['via'], observed=repr(r['ret']), expected='an SVG file')
                continue
            if not expect_file:
                if r['path'] is not None:
                    fail(key, 'a plot without any curve of the log (%s)' % r['via'], observed=r['path'])
                continue
            nontrivial = True
            stat('svg:%s:%s' % (case['source'], r['via']))
            try:
                svg = read_svg(r['path'])
            except Exception as e:      # noqa
                fail(key, 'the SVG can not be read (%s)' % r['via'], observed=repr(e))
                continue
            for b in judge_svg(svg, fmt, log, None):
                fail(key, b.pop('what') + ' (%s)' % r['via'], **b)
            if r['ret'] is not None:
                try:
                    ids, npts = r['ret']
                    got_ids = sorted(i.pStr(strip=True) for i in ids)
                except Exception:
                    fail(key, 'return value of the plot call', observed=repr(r['ret']))
                    continue
                want_ids = sorted(c['id'] for c in plotted)
                dl = 1 if log.get('drop_last') else 0

                def npresent(c):
                    return sum(1 for v in log['data'][c['outp']][:len(log['xs']) - dl] if v != ABSENT)
                want_n = [sum(npresent(c) for c in plotted)]
                if case['source'] != 'lis-internal' and known('xml-curve-repeated-per-channel'):
                    mult = {c['id']: sum(1 for d in plotted if d['outp'] == c['outp']) for c in plotted}
                    if got_ids != want_ids:
                        want_ids = sorted(i for c in plotted for i in [c['id']] * mult[c['id']])
                    want_n.append(sum(npresent(c) * mult[c['id']] for c in plotted))
                if got_ids != want_ids or npts not in want_n:
                    fail(key, 'return value of the plot call (%s)' % r['via'], observed=[got_ids, npts],
                         expected=[want_ids, want_n])
        if bad and keep:
            d = os.path.join(keep, 'case%d' % idx)
            shutil.copytree(tmp, d, dirs_exist_ok=True)
            with open(os.path.join(d, 'case.json'), 'w') as f:
                json.dump(dict(describe(case), fmts={k: v['curves'] for k, v in case['fmts'].items()},
                               data=log['data'], xs=log['xs']), f, default=repr, indent=1)
    finally:
        shutil.rmtree(tmp, ignore_errors=True)
    return nontrivial, bad


# ====================================================================================================== main
def main():
    global USE_KNOWN
    ap = argparse.ArgumentParser()
    ap.add_argument('--seed', type=int, default=0)
    ap.add_argument('--cases', type=int, default=50)
    ap.add_argument('--part', choices=['wrap', 'plot', 'both'], default='both')
    ap.add_argument('--only', type=int, default=None)
    ap.add_argument('--no-known', action='store_true')
    ap.add_argument('--keep', default=None)
    args = ap.parse_args()
    USE_KNOWN = not args.no_known
    ran = nontrivial = 0
    bad = []
    nbad = 0
    count = dict(wrap=0, plot=0)
    for i in range(args.cases):
        if args.only is not None and i != args.only:
            continue
        part = args.part if args.part != 'both' else ('wrap' if i % 5 in (1, 3) else 'plot')
        rnd = random.Random('c19:%d:%d:%s' % (args.seed, i, part))
        try:
            if part == 'wrap':
                nt, b = run_wrap_case(rnd, i)
            else:
                nt, b = run_plot_case(rnd, i, args.keep)
        except Exception:      # noqa
            nt, b = False, [dict(part=part, case=i, what='the stand-in itself failed',
                                 observed=traceback.format_exc(limit=-4))]
        ran += 1
        count[part] += 1
        nontrivial += bool(nt)
        nbad += len(b)
        for w in b:
            if len(bad) < 5:
                bad.append(w)
    print('c19_plot: repo=%s seed=%d cases=%d (wrap %d, plot %d) nontrivial=%d failures=%d' % (
        _REPO, args.seed, ran, count['wrap'], count['plot'], nontrivial, nbad))
    print('c19_plot: ' + ', '.join('%s=%d' % kv for kv in sorted(STATS.items())))
    sys.stdout.flush()
    print(json.dumps(dict(cases=ran, nontrivial=nontrivial, bad=bad), default=repr))
    return 1 if bad else 0


if __name__ == '__main__':
    sys.exit(main())
