"""C12 — batch conversion isolates bad files and is independent of job scheduling.

What contracts can decide here (exception-effect contracts, DESIGN §7 C12):
  * single_rp66v1_file_to_las, single_lis_file_to_las, single_bit_path_to_las_path (the three per-file converters handed
    to the batch drivers): for ANY behaviour of the readers and writers they call - every call, attribute access or
    operation the model does not track may raise an arbitrary Exception and returns an untracked value - no exception
    leaves the function and the result is a LASWriteResult whose path_input is the function's own path argument; a
    file of another type is reported ignored with nothing written.  This is the per-file isolation mechanism: a change
    that moves work out of the try block, narrows the except clauses or drops / mis-keys the result fails an
    obligation.
  * the two batch drivers hand every file the same call: the argument tuple built for the worker pool and the call in
    the sequential loop are read from the source and proved equal position by position (so jobs=N and sequential run
    the same function on the same arguments); the sequential result is keyed by the input path and the parallel result
    by result.path_input, which the first item proves equal.
Not decided by contracts (stated in MANIFEST / evidence): the schedule quantifier itself (process pool semantics are
trusted: apply_async(...).get() in task order returns each task's own result), equality of output file contents
across modes (bounded stand-in: whole directories with damaged files, jobs in {1, 2, 4, 16} against sequential and
file-by-file)."""
from pyvc.kinds import *
from pyvc.contract import Contract, Loop, Lemma

LEVEL = 'other'
EXPLANATION = ('C12 quantifies over worker-process schedules, which contract-based deductive verification cannot decide. What IS decided, for '
               'every input and every behaviour of the readers and writers underneath: each of the three per-file converters handed to the batch '
               'drivers returns a LASWriteResult keyed by its own input path and lets no Exception escape (exception-effect contracts discharged '
               'on the real bodies), and the sequential loop and the worker pool give every file the same call (argument tuples read from the '
               'source and proved equal). Not decided by contracts: that a process pool returns each task\'s own result whatever the schedule '
               '(trusted library semantics) and that the output files are byte-identical across sequential / jobs=N / file-by-file runs; both '
               'are exercised by the bounded stand-in only (directories with damaged files, 1, 2, 4 and 16 workers).')
WL = 'src/TotalDepth/LAS/core/WriteLAS.py'
NO_RAISE = ['os.path.getsize', 'time.perf_counter', 'bin_file_type.binary_file_type_from_path', 'bin_file_type.is_lis_file_type',
            'os.path.isfile']
ASSUMPTIONS = [
    'exception-effect model: every untracked operation may raise any subclass of Exception (not BaseException: KeyboardInterrupt, SystemExit, '
    'MemoryError in the interpreter itself are outside the claim); truth tests and comparisons of untracked values do not raise',
    'assumed total (raise nothing): os.path.getsize / os.path.isfile / open of the INPUT path (the input file exists and is readable during the run), '
    'time.perf_counter, bin_file_type.binary_file_type_from_path (this is property C20, decided by its own check), logging calls',
    'multiprocessing.Pool: apply_async(f, t).get() returns f(*t) for its own task whatever the schedule, worker processes share no state '
    '(trusted library semantics; exercised by the bounded stand-in with 1, 2, 4 and 16 workers)',
]
RES = ['cls_is(result, "LASWriteResult")', 'result.path_input == %s']


def register(reg):
    U = Untracked
    common = dict(returns=None, unknown_calls='may-raise', crosscheck=False)
    reg.add(Contract('src/TotalDepth/RP66V1/ToLAS.py', 'single_rp66v1_file_to_las',
                     {'path_in': Str, 'array_reduction': Str, 'path_out': Str, 'frame_slice': U, 'channels': U, 'field_width': Int, 'float_format': Str},
                     requires=['array_reduction == "first" or array_reduction == "mean" or array_reduction == "median" or array_reduction == "min" or array_reduction == "max"'],
                     ensures=['result.path_input == path_in',
                              # a file that is not RP66V1 is reported as ignored, nothing written, no failure
                              'implies(result.ignored, (not result.exception) and result.las_count == 0 and result.size_output == 0)',
                              'implies(result.exception, (not result.ignored) and result.las_count == 0)'],
                     no_raise_calls=NO_RAISE, canaries=['result.ignored', 'result.exception', 'not result.exception and not result.ignored'], **common))
    reg.add(Contract('src/TotalDepth/LIS/ToLAS.py', 'single_lis_file_to_las',
                     {'path_in': Str, 'array_reduction': Str, 'path_out': Str, 'frame_slice': U, 'channels': U, 'field_width': Int, 'float_format': Str},
                     requires=['array_reduction == "first" or array_reduction == "mean" or array_reduction == "median" or array_reduction == "min" or array_reduction == "max"'],
                     ensures=['result.path_input == path_in',
                              'implies(result.ignored, (not result.exception) and result.las_count == 0 and result.size_output == 0)',
                              'implies(result.exception, not result.ignored)'],
                     no_raise_calls=NO_RAISE, canaries=['result.ignored', 'result.exception', 'not result.exception and not result.ignored'], **common))
    reg.add(Contract('src/TotalDepth/BIT/ToLAS.py', 'single_bit_path_to_las_path',
                     {'bit_path': Str, '_array_reduction': Str, 'path_out': Str, 'frame_slice': U, 'channels': U, 'field_width': Int, 'float_format': Str},
                     ensures=['result.path_input == bit_path',
                              'implies(result.ignored, (not result.exception) and result.las_count == 0 and result.size_output == 0)',
                              'implies(result.exception, not result.ignored)'],
                     no_raise_calls=NO_RAISE + ['open'], canaries=['result.ignored', 'result.exception', 'not result.exception and not result.ignored'], **common))


def _find(fnode, pred):
    import ast
    return [n for n in ast.walk(fnode) if pred(n)]


def extra_obligations(reg):
    """The two batch drivers give every file the same call (read from the real source, compared position by position)."""
    import ast
    import z3
    from pyvc import source
    from pyvc.kinds import ContractError
    mod = source.load(WL)
    seq = mod.functions['convert_dir_or_file_to_las']
    par = mod.functions['convert_dir_or_file_to_las_multiprocessing']
    out = []
    # --- sequential: ret[<key>] = file_conversion_function(<args>) inside `for <v> in DirWalk.dirWalk(...)`
    loops = [n for n in ast.walk(seq) if isinstance(n, ast.For) and 'dirWalk' in ast.unparse(n.iter)]
    if len(loops) != 1 or not isinstance(loops[0].target, ast.Name):
        raise ContractError('convert_dir_or_file_to_las: expected one loop over DirWalk.dirWalk')
    var = loops[0].target.id
    assigns = [n for n in ast.walk(loops[0]) if isinstance(n, ast.Assign) and isinstance(n.targets[0], ast.Subscript)
               and isinstance(n.value, ast.Call) and ast.unparse(n.value.func) == 'file_conversion_function']
    if len(assigns) != 1:
        raise ContractError('convert_dir_or_file_to_las: expected one `ret[key] = file_conversion_function(...)` in the directory loop')
    key_seq = ast.unparse(assigns[0].targets[0].slice).replace(var + '.', 'FILE.')
    args_seq = [ast.unparse(a).replace(var + '.', 'FILE.') for a in assigns[0].value.args]
    # --- parallel: tasks = [(<args>) for t in DirWalk.dirWalk(...)]; apply_async(file_conversion_function, t); {r.path_input: r ...}
    comps = [n for n in ast.walk(par) if isinstance(n, ast.ListComp) and isinstance(n.elt, ast.Tuple) and 'dirWalk' in ast.unparse(n.generators[0].iter)]
    if len(comps) != 1:
        raise ContractError('convert_dir_or_file_to_las_multiprocessing: expected one task list built from DirWalk.dirWalk')
    tv = comps[0].generators[0].target.id
    args_par = [ast.unparse(a).replace(tv + '.', 'FILE.') for a in comps[0].elt.elts]
    applies = [n for n in ast.walk(par) if isinstance(n, ast.Call) and ast.unparse(n.func).endswith('.apply_async')]
    if len(applies) != 1 or ast.unparse(applies[0].args[0]) != 'file_conversion_function' or len(applies[0].args) != 2:
        raise ContractError('convert_dir_or_file_to_las_multiprocessing: expected pool.apply_async(file_conversion_function, t)')
    dcs = [n for n in ast.walk(par) if isinstance(n, ast.DictComp)]
    if len(dcs) != 1:
        raise ContractError('convert_dir_or_file_to_las_multiprocessing: expected the result dict comprehension')
    key_par = ast.unparse(dcs[0].key).replace(dcs[0].generators[0].target.id + '.', 'RESULT.')
    # every source expression becomes an uninterpreted constant named by its text: equal texts are equal terms
    S = z3.DeclareSort('Expr')
    c = lambda t: z3.Const('expr<%s>' % t, S)
    # the sequential path passes a copy of the channel set (set(channels)): equal content, its own object
    norm = lambda t: 'channels' if t == 'set(channels)' else t
    out.append(dict(name='WriteLAS.py:batch/same-number-of-arguments', pc=[], goal=z3.BoolVal(len(args_seq) == len(args_par)),
                    note='sequential call has %d arguments, task tuple has %d' % (len(args_seq), len(args_par)), func='convert_dir_or_file_to_las_multiprocessing'))
    for i, (a, b) in enumerate(zip(args_seq, args_par)):
        out.append(dict(name='WriteLAS.py:batch/argument-%d-same-in-both-modes' % i, pc=[], goal=c(norm(a)) == c(norm(b)),
                        note='sequential passes %s, worker task carries %s' % (a, b), func='convert_dir_or_file_to_las_multiprocessing'))
    # keys: sequential key is the input path given to the converter (argument 0); parallel key is result.path_input,
    # equal to argument 0 by the converters' postcondition (proved above)
    out.append(dict(name='WriteLAS.py:batch/sequential-key-is-the-input-path', pc=[], goal=c(key_seq) == c(args_seq[0]) if args_seq else z3.BoolVal(False),
                    note='ret[%s] = f(%s, ...)' % (key_seq, args_seq[0] if args_seq else '?'), func='convert_dir_or_file_to_las'))
    out.append(dict(name='WriteLAS.py:batch/parallel-key-is-result-path-input', pc=[], goal=z3.BoolVal(key_par == 'RESULT.path_input'),
                    note='{%s: r ...}' % key_par, func='convert_dir_or_file_to_las_multiprocessing'))
    # both walk the same directory listing (order may differ: bigFirst) with the same filter arguments
    it_seq = loops[0].iter
    it_par = comps[0].generators[0].iter

    def walk_args(call, rename):
        d = {}
        for i, a in enumerate(call.args):
            d['#%d' % i] = rename.get(ast.unparse(a), ast.unparse(a))
        for k in call.keywords:
            d[k.arg] = ast.unparse(k.value)
        d.pop('bigFirst', None)     # processing order only
        return d
    wa_seq = walk_args(it_seq, {'path_in': 'DIR_IN', 'path_out': 'DIR_OUT'})
    wa_par = walk_args(it_par, {'dir_in': 'DIR_IN', 'dir_out': 'DIR_OUT'})
    out.append(dict(name='WriteLAS.py:batch/same-directory-walk', pc=[], goal=z3.BoolVal(wa_seq == wa_par),
                    note='dirWalk arguments apart from bigFirst: %s vs %s' % (wa_seq, wa_par), func='convert_dir_or_file_to_las_multiprocessing'))
    # one result per input file: nothing the walk yields is filtered out before it is converted
    gens = comps[0].generators
    out.append(dict(name='WriteLAS.py:batch/every-walked-file-becomes-a-task', pc=[], goal=z3.BoolVal(len(gens) == 1 and not gens[0].ifs),
                    note='the task list comprehension has one generator and no condition (%s)' % ast.unparse(comps[0])[:160],
                    func='convert_dir_or_file_to_las_multiprocessing'))
    out.append(dict(name='WriteLAS.py:batch/every-walked-file-is-converted-sequentially', pc=[], goal=z3.BoolVal(assigns[0] in loops[0].body),
                    note='the conversion call is an unconditional statement of the directory loop', func='convert_dir_or_file_to_las'))
    out.append(dict(name='WriteLAS.py:batch/canary', pc=[], goal=c('FILE.filePathIn') == c('FILE.filePathOut'),
                    note='must fail: distinct source expressions are distinct terms', func='convert_dir_or_file_to_las_multiprocessing', expect_fail=True))
    return out


def standins(tier, seed):
    import os
    from pyvc import standin
    if not os.path.exists(os.path.join(standin.VERIF, 'standins', 'c11c12_tolas.py')):
        return []
    n = 9 if tier == 'quick' else 150
    return [standin.run_script('batch-directories-with-damaged-files', 'c11c12_tolas.py', seed, n,
                               'bounded: directories of 3-8 files (valid, truncated, bit-flipped, header-damaged, empty, foreign) converted sequentially, '
                               'with 1, 2, 4 and 16 worker processes and file by file; result keys, result tuples and output trees compared',
                               '%d directories' % n, extra_args=['--part', 'c12'])]
