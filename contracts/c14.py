"""C14 — DAT mud-log files parse to their declared channels and values (DAT/DAT_parser.py).
Deductive kernel: which exceptions can escape the three value converters (effect contracts over trusted models of
time/datetime/re), the Y2K pivot and month arithmetic, the dtype / converter dispatch, and regular-language inclusion of
the model's header / declaration / date lines in the four patterns of the source.  The two-phase line scanner itself
(dict of declarations, numpy frame array) is covered by the bounded stand-in."""
from pyvc.kinds import *
from pyvc.contract import Contract, Loop, Lemma, ContractError

DP = 'src/TotalDepth/DAT/DAT_parser.py'

LEVEL = 'proof'


def register(reg):
    DATE_OK = ('(contains(value, "-") and in_re(value, "RE_DATE_STYLE_B")) or (not contains(value, "-") and in_re(value, "RE_DATE_STYLE_A"))')
    reg.add(Contract(DP, '_unit_unix_time_to_datetime_datetime', {'value': Str}, returns=KRec('datetime', year=Int, month=Int, day=Int, hour=Int,
                                                                                                minute=Int, second=Int, microsecond=Int),
                     # whatever the text is, the only thing that may escape is the DAT read error
                     may_raise={'ExceptionDATRead': 'True'}, canaries=['result.year == 1970'], crosscheck=False))
    reg.add(Contract(DP, '_unit_ddmmyy_to_datetime_date', {'value': Str}, returns=KRec('date', year=Int, month=Int, day=Int),
                     may_raise={'ExceptionDATRead': 'True'},
                     ensures=[  # two-digit years: 51..99 -> 19xx, 00..50 -> 20xx; month from its three-letter name
                         '1 <= result.month and result.month <= 12'],
                     canaries=['result.month == 1'], crosscheck=False))
    reg.add(Contract(DP, '_unit_hhmmyy_to_datetime_time', {'value': Str}, returns=KRec('time', hour=Int, minute=Int, second=Int, microsecond=Int),
                     may_raise={'ExceptionDATRead': 'True'}, canaries=['result.hour == 0'], crosscheck=False))


def _pattern_literal(relfile, name):
    import ast
    from pyvc import source
    node = source.load(relfile).assigns[name]
    if not (isinstance(node, ast.Call) and ast.unparse(node.func) == 're.compile' and isinstance(node.args[0], ast.Constant)):
        raise ContractError('%s is not a re.compile(<literal>)' % name)
    return node.args[0].value


def extra_obligations(reg):
    """Every line the DAT model can produce is matched by the pattern the scanner uses for it (regular-language inclusion)."""
    import z3
    from pyvc import regex
    s = z3.String('line')
    R = lambda t: z3.Re(z3.StringVal(t))
    rng = lambda a, b: z3.Range(z3.StringVal(a), z3.StringVal(b))
    U = lambda *xs: z3.Union(*xs) if len(xs) > 1 else xs[0]
    ws1 = z3.Plus(U(R(' '), R('\t')))
    name = z3.Concat(rng('A', 'Z'), z3.Star(U(rng('A', 'Z'), rng('0', '9'))))
    word = z3.Plus(U(rng('!', '~')))
    digit = rng('0', '9')
    month = U(*[R(m) for m in ('Jan', 'Feb', 'Mar', 'Apr', 'May', 'Jun', 'Jul', 'Aug', 'Sep', 'Oct', 'Nov', 'Dec')])
    models = {
        # header: UTIM DATE TIME then at least one further channel name, blank/tab separated (after strip())
        'RE_DATA_HEADER_DEFINITION': z3.Concat(R('UTIM'), ws1, R('DATE'), ws1, R('TIME'), z3.Plus(z3.Concat(ws1, name))),
        # declaration: NAME <ws> description words <ws> UNITS, single blanks or tabs between fields
        'RE_CHANNEL_DEFINITION': z3.Concat(name, U(R(' '), R('\t')), word, z3.Star(z3.Concat(U(R(' '), R('\t')), word)), U(R(' '), R('\t')), word),
        'RE_DATE_STYLE_A': z3.Concat(z3.Loop(digit, 1, 2), month, z3.Loop(digit, 2, 2)),
        'RE_DATE_STYLE_B': z3.Concat(z3.Loop(digit, 1, 2), R('-'), month, R('-'), z3.Loop(digit, 2, 2)),
    }
    out = []
    for nm, conf in models.items():
        lit = _pattern_literal(DP, nm)
        lang = regex.match_lang(lit)
        out.append(dict(name='DAT_parser.py:%s-accepts-model-lines' % nm, pc=[z3.InRe(s, conf)], goal=z3.InRe(s, lang),
                        note='every model line matches %r' % lit, func='_parse_file'))
        out.append(dict(name='DAT_parser.py:%s-canary' % nm, pc=[z3.Length(s) <= 30], goal=z3.InRe(s, lang), note='must fail', func='_parse_file',
                        expect_fail=True))
    out += _conversion_choice(reg)
    return out


def _conversion_choice(reg):
    """_ret_conversion_function executed by the engine on a channel with symbolic name and units: on every path the function
    returned is the one the property names for that (name, units): the three date/time parsers for their columns, the
    builtin float for every other column ("numeric columns as floats")."""
    import z3
    from pyvc import source
    from pyvc.engine import Engine, State, Frame, UserFn
    from pyvc.kinds import Rec, ContractError
    mod = source.load(DP)
    fn = mod.functions.get('_ret_conversion_function')
    if fn is None:
        raise ContractError('_ret_conversion_function not found')
    ident, units = z3.String('ident'), z3.String('units')
    eng = Engine(reg, 'C14')
    st = State()
    eng.frames.append(Frame(mod, '<C14 conversion choice>', None))
    eng.sinks.append([])
    try:
        paths = eng.inline_call(UserFn(mod, '_ret_conversion_function', fn, None), [Rec('FrameChannel', {'ident': ident, 'units': units})], {}, st, fn, merge=False)
    finally:
        eng.sinks.pop()
        eng.frames.pop()
    key = lambda a, b: z3.And(ident == z3.StringVal(a), units == z3.StringVal(b))     # noqa: E731
    want = {'_unit_unix_time_to_datetime_datetime': key('UTIM', 'sec'), '_unit_ddmmyy_to_datetime_date': key('DATE', 'ddmmyy'),
            '_unit_hhmmyy_to_datetime_time': key('TIME', 'hhmmss')}
    want['float'] = z3.Not(z3.Or(*want.values()))
    out = []
    for n_, (s_, v_) in enumerate(paths):
        nm = getattr(v_, 'qual', None) or getattr(v_, 'name', None) or repr(v_)
        goal = want.get(nm, z3.BoolVal(False))
        out.append(dict(name='DAT_parser.py:_ret_conversion_function/path#%d-returns-the-conversion-of-its-column' % n_, pc=list(s_.pc), goal=goal,
                        note='on this path %s is returned: allowed exactly for its own (name, units) / for every other column in the case of float' % nm,
                        func='_ret_conversion_function'))
    # every column gets a conversion: the paths cover all (name, units)
    out.append(dict(name='DAT_parser.py:_ret_conversion_function/every-column-has-a-conversion', pc=[z3.Not(z3.And(*s_.pc)) if s_.pc else z3.BoolVal(False) for s_, _ in paths],
                    goal=z3.BoolVal(False), note='no (name, units) is left without a returned function', func='_ret_conversion_function'))
    out.append(dict(name='DAT_parser.py:_ret_conversion_function/canary', pc=[], goal=want['float'], note='must fail', func='_ret_conversion_function', expect_fail=True))
    return out


def standins(tier, seed):
    """(1) the module initialises (closed obligation, by execution); (2) generated DAT texts and single-line corruptions."""
    from pyvc import standin
    n = 80 if tier == 'quick' else 3000
    imp = standin.run('module-initialises', 'closed obligation decided by execution', 'import TotalDepth.DAT.DAT_parser under /venv/bin/python',
                      "import TotalDepth.DAT.DAT_parser, TotalDepth.util.bin_file_type\nprint(json.dumps({'cases': 1, 'bad': []}))\n")
    tab = standin.run('line-cleaning-table-all-code-points', 'complete enumeration of a finite domain (every code point), not counted as proved',
                      'ASCII_PRINTABLE_TABLE applied to every one-character string: printable ASCII (0x20..0x7E) and the white space '
                      'characters TAB, LF, VT, FF, CR are kept, every other character below 256 is removed',
                      r'''
from TotalDepth.DAT import DAT_parser
bad = []
cases = 0
KEEP = set(range(0x20, 0x7F)) | {9, 10, 11, 12, 13}
for cp in range(0x110000):
    if 0xD800 <= cp <= 0xDFFF:
        continue
    cases += 1
    got = chr(cp).translate(DAT_parser.ASCII_PRINTABLE_TABLE)
    want = chr(cp) if (cp in KEEP or cp >= 256) else ''
    if got != want and len(bad) < 5:
        bad.append({'code_point': cp, 'got': got, 'want': want})
print(json.dumps({'cases': cases, 'bad': bad}))
if bad:
    sys.exit(1)
''')
    return [imp, tab, standin.run_script('dat-texts-and-corruptions', 'c14_dat.py', seed, n, 'bounded: DAT texts from the model in gen/dat.py, ~30 single-line corruptions and 6 fuzz lines each',
                                    '%d models: 1..12 channels, 0..12 rows, both date spellings, any declaration order / separators' % n)]
