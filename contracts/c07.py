"""C07 — representation codes decode per the standards; encoders invert decoders.

Spec functions are transcribed from LIS-79 Appendix B and RP66V1 Appendix B: every fixed-length code as an
exact rational of the bit fields (integer * power of two), every variable-length code as (value, bytes consumed).
"""
from pyvc.kinds import *
from pyvc.contract import Contract, Loop

LP = 'src/TotalDepth/LIS/core/pRepCode.py'
RP = 'src/TotalDepth/RP66V1/core/pRepCode.py'
PF = 'src/TotalDepth/RP66V1/core/pFile.py'
BIT = 'src/TotalDepth/BIT/ReadBIT.py'

SPEC = '''
def s_n(x, bits):
    """two's complement value of the unsigned `bits`-bit field x"""
    return x - 2 ** bits if x >= 2 ** (bits - 1) else x

# ---- LIS-79 Appendix B
def lis49(w):
    """code 49: bits 15..4 two's complement fraction M (sign, then 2^-1 ...), bits 3..0 unsigned exponent E: M * 2^E"""
    return real(s_n(w // 16, 12)) / 2048 * pow2(w % 16)

def lis50(w):
    """code 50: bits 31..16 two's complement exponent E, bits 15..0 two's complement fraction M: M * 2^E"""
    return real(s_n(w % 65536, 16)) * pow2(s_n(w // 65536, 16) - 15)

def lis68(w):
    """code 68: bit 31 sign S, bits 30..23 exponent E (excess 128; one's complemented when S = 1), bits 22..0
    two's complement fraction M: M * 2^(E-128).  With m = bits 22..0: S=0: m * 2^(E-151); S=1: (m - 2^23) * 2^(104-E)"""
    return (real(w % 8388608) * pow2((w // 8388608) % 256 - 151) if w < 2147483648
            else real(w % 8388608 - 8388608) * pow2(104 - (w // 8388608) % 256))

def lis70(w):
    """code 70: 32-bit two's complement fixed point with 16 fraction bits"""
    return real(s_n(w, 32)) / 65536

# ---- RP66V1 Appendix B
def be(b, i, n):
    return b[i] if n == 1 else be(b, i, n - 1) * 256 + b[i + n - 1]

def ibm32(b, i):
    """IBM System/360 single: S (1 bit), E (7 bits, excess 64, base 16), M (24-bit fraction): (-1)^S * 16^(E-64) * M/2^24"""
    return (real(be(b, i + 1, 3)) / 16777216 * pow2(4 * (b[i] % 128 - 64))) * (1 if b[i] < 128 else -1)

def vax_s(b, i):
    return b[i + 1] // 128

def vax_e(b, i):
    return (b[i + 1] % 128) * 2 + b[i] // 128

def vax_m(b, i):
    return (b[i] % 128) * 65536 + b[i + 3] * 256 + b[i + 2]

def vax32(b, i):
    """VAX F floating [RP66V1 Appendix B.6]: bytes in the order 1, 0, 3, 2 of the big-endian picture; S = bit 7 of byte 1,
    E = 8 bits (excess 128), M = 23 fraction bits after a hidden leading 0.1 (binary): (-1)^S * (0.5 + M / 2^24) * 2^(E - 128);
    E = 0 with S = 0 is zero"""
    return (0 if (vax_e(b, i) == 0 and vax_s(b, i) == 0)
            else (real(8388608 + vax_m(b, i)) / 16777216 * pow2(vax_e(b, i) - 128)) * (1 if vax_s(b, i) == 0 else -1))

def uvari_len(b, i):
    return 1 if b[i] < 128 else (2 if b[i] < 192 else 4)

def uvari_val(b, i):
    return b[i] if b[i] < 128 else ((b[i] - 128) * 256 + b[i + 1] if b[i] < 192
                                    else (((b[i] - 192) * 256 + b[i + 1]) * 256 + b[i + 2]) * 256 + b[i + 3])

def ident_len(b, i):
    return 1 + b[i]

def obname_len(b, i):
    return uvari_len(b, i) + 1 + ident_len(b, i + uvari_len(b, i) + 1)
'''

LD = KRec('LogicalData', bytes=Bytes, index=Int)
LD_REQ = ['0 <= ld.index']


def fixed(n, value, canary=None, extra_req=()):
    """Contract of a fixed-length RP66V1 decoder: value = spec of the n bytes at ld.index, index advances by n,
    IndexError iff fewer than n bytes remain."""
    return dict(params={'ld': LD}, requires=LD_REQ + list(extra_req), modifies=['ld.index'],
                raises={'IndexError': 'len(ld.bytes) - ld.index < %d' % n},
                ensures=['ld.index == old(ld.index) + %d' % n] + ([value] if value else []),
                canaries=[canary or 'ld.index == old(ld.index)'])


def register(reg):
    reg.add_spec_source(SPEC)
    # ------------------------------------------------------------ LIS (pRepCode.py), theWord as the struct format gives it
    W16 = ['0 <= theWord', 'theWord < 65536']
    W32 = ['0 <= theWord', 'theWord < 4294967296']
    reg.add(Contract(LP, 'from49', {'theWord': Int}, requires=W16, returns=Real,
                     ensures=['result == lis49(theWord)'], canaries=['result == 0']))
    reg.add(Contract(LP, 'from50', {'theWord': Int}, requires=W32, returns=Real,
                     ensures=['result == lis50(theWord)'], canaries=['result == 0'],
                     domains={'theWord': [0x00084C80, 0x0008B380, 0, 0x00014000, 0xFFFF4000, 0x04004000, 0xFFF0C000, 0x03FF7FFF, 0x7FFF8000]}))
    reg.add(Contract(LP, 'from56', {'theWord': Int}, requires=['-128 <= theWord', 'theWord < 256'], returns=Int,
                     ensures=['result == s_n(theWord % 256, 8)'], canaries=['result == 0']))
    reg.add(Contract(LP, 'from66', {'theWord': Int}, requires=['0 <= theWord', 'theWord < 256'], returns=Int,
                     ensures=['result == theWord'], canaries=['result == 0']))
    reg.add(Contract(LP, 'from68', {'theWord': Int}, requires=W32, returns=Real,
                     ensures=['result == lis68(theWord)'], canaries=['result == 0'],
                     domains={'theWord': [0x444C8000, 0xBBB38000, 0, 0x40000000, 0x00400000, 0xFFC00000, 0x7FFFFFFF, 0xFF800001, 0x80000000, 0xFFFFFFFF]}))
    # the encoder: saturation, zero, and for every number in the normal range a word whose value is v truncated towards zero
    # to 23 fraction bits (so the loss is below one part in 2^22)
    reg.add(Contract(LP, 'to68', {'v': Real}, returns=Int,
                     ensures=['0 <= result and result <= 4294967295',
                              'implies(v == 0, result == 1073741824)',
                              'implies(v >= pow2(127), result == 2147483647)',
                              # saturation at the most negative number of the code, -2**127 (word 0x80000000), which is itself encoded exactly
                              'implies(v <= -pow2(127), lis68(result) == -pow2(127))',
                              'implies(v > 0 and v < pow2(-152), result == 1073741824)',
                              'implies(v >= pow2(-129) and v < pow2(127), lis68(result) <= v and (v - lis68(result)) * 4194304 < v)',
                              'implies(v <= -pow2(-129) and v > -pow2(127), lis68(result) >= v and (lis68(result) - v) * 4194304 < -v)'],
                     canaries=['result == 1073741824', 'result == 2147483647'], timeout=60,
                     domains={'v': [0.0, 1.0, -1.0, 153.0, -153.0, 0.1, 2.0 ** 126, 2.0 ** 127, -2.0 ** 127, 1.5 * 2.0 ** 127, 2.0 ** 128, 1.7e38, -1.7e38,
                                    3.0e38, -3.0e38, 2.0 ** -129, -2.0 ** -129, 2.0 ** -130, 2.0 ** -152, 2.0 ** -153, 1e-50, 1e300, -1e300,
                                    0.3 * 2.0 ** 127, 0.75 * 2.0 ** 127, 123456.789, -0.000123]}))
    reg.add(Contract(LP, 'from70', {'theWord': Int}, requires=W32, returns=Real,
                     ensures=['result == lis70(theWord)'], canaries=['result == 0']))
    reg.add(Contract(LP, 'from73', {'theWord': Int}, requires=['-2147483648 <= theWord', 'theWord < 2147483648'], returns=Int,
                     ensures=['result == theWord'], canaries=['result == 0']))
    reg.add(Contract(LP, 'from77', {'theWord': Int}, requires=['0 <= theWord', 'theWord < 256'], returns=Int,
                     ensures=['result == theWord'], canaries=['result == 0']))
    reg.add(Contract(LP, 'from79', {'theWord': Int}, requires=['-32768 <= theWord', 'theWord < 32768'], returns=Int,
                     ensures=['result == theWord'], canaries=['result == 0']))
    sizes = {49: 2, 50: 4, 56: 1, 66: 1, 68: 4, 70: 4, 73: 4, 77: 1, 79: 2}
    size_spec = ' and '.join('implies(r == %d, result == %d)' % kv for kv in sizes.items())
    known = ' or '.join('r == %d' % k for k in (49, 50, 56, 65, 66, 68, 70, 73, 77, 79, 130, 234))
    reg.add(Contract(LP, 'lisSize', {'r': Int}, returns=Int, raises={'ExceptionRepCodeUnknown': 'not (%s)' % known},
                     ensures=[size_spec, 'implies(r == 65, result == 0)'], canaries=['result == 4']))
    reg.add(Contract(LP, 'wordLength', {'r': Int}, returns=Int, raises={'ExceptionRepCodeUnknown': 'not (%s)' % known},
                     ensures=[size_spec, 'implies(r == 130 or r == 234, result == 1)'], canaries=['result == 4']))

    register_rp66(reg, True, spec=False)
    register_bit(reg, True, spec=False)


TIMEOUT = {'quick': 6, 'thorough': 30}


def register_bit(reg, verify=False, spec=True):
    """IBM float decoders of BIT/ReadBIT.py (verified under C07; used as callee contracts by C13)."""
    if spec:
        reg.add_spec_source(SPEC)
    # ------------------------------------------------------------ BIT (ReadBIT.py): same IBM format
    reg.add(Contract(BIT, 'bytes_to_float', {'b': Bytes}, returns=Real, raises={'ValueError': 'len(b) < 4'},
                     ensures=['result == ibm32(b, 0)'], canaries=['result == 0']), verify=verify)
    reg.add(Contract(
        BIT, 'gen_floats', {'b': Bytes}, requires=['len(b) % 4 == 0'], yields=Real,
        ensures=['len(out) == len(b) // 4', 'forall(0, len(out), lambda k: out[k] == ibm32(b, 4 * k))'],
        loops=[Loop('while len(b) > offset', invariants=[
            'offset == 4 * len(out)', 'offset <= len(b)', 'forall(0, len(out), lambda k: out[k] == ibm32(b, 4 * k))'],
            decreases='len(b) - offset')],
        canaries=['len(out) == 0']), verify=verify)



def register_rp66(reg, verify=False, spec=True):
    """RP66V1 decoders and the LogicalData cursor (verified under C07; callee contracts elsewhere)."""
    if spec:
        reg.add_spec_source(SPEC)
    saved = getattr(reg, 'verify_override', None)
    reg.verify_override = verify
    try:
        _register_rp66(reg)
    finally:
        reg.verify_override = saved


def _register_rp66(reg):
    # ------------------------------------------------------------ RP66V1 LogicalData cursor (pFile.py)
    reg.add(Contract(PF, 'LogicalData.read', {'self': LD}, requires=['0 <= self.index'], returns=Byte, modifies=['self.index'],
                     raises={'IndexError': 'self.index >= len(self.bytes)'},
                     ensures=['result == self.bytes[old(self.index)]', 'self.index == old(self.index) + 1', '0 <= result and result <= 255'],
                     canaries=['result == 0']))
    reg.add(Contract(PF, 'LogicalData.peek', {'self': LD}, requires=['0 <= self.index'], returns=Int,
                     raises={'IndexError': 'self.index >= len(self.bytes)'},
                     ensures=['result == self.bytes[self.index]'], canaries=['result == 0']))
    reg.add(Contract(PF, 'LogicalData.remain', {'self': LD}, requires=['0 <= self.index'], returns=Int,
                     ensures=['result == (len(self.bytes) - self.index if len(self.bytes) > self.index else 0)'],
                     canaries=['result == 0'], inline_at_calls=True))
    reg.add(Contract(PF, 'LogicalData.chunk', {'self': LD, 'length': Int}, requires=['0 <= self.index', 'length >= 0'],
                     returns=Bytes, modifies=['self.index'],
                     raises={'IndexError': 'length > (len(self.bytes) - self.index if len(self.bytes) > self.index else 0)'},
                     ensures=['len(result) == length', 'self.index == old(self.index) + length',
                              'forall(0, length, lambda j: result[j] == self.bytes[old(self.index) + j])'],
                     canaries=['len(result) == 0']))
    reg.add(Contract(PF, 'LogicalData.seek', {'self': LD, 'length': Int}, modifies=['self.index'],
                     ensures=['self.index == old(self.index) + length']))
    # ------------------------------------------------------------ RP66V1 decoders
    B = 'ld.bytes'
    I0 = 'old(ld.index)'
    reg.add(Contract(RP, 'ISINGL', returns=Real, **fixed(4, 'result == ibm32(ld.bytes, old(ld.index))', 'result == 0')))
    # VAX F: the fraction weight is a recorded finding (region: fraction bits not all zero); outside it the sign, the
    # exponent assembled from two bytes, the zero rule and the consumption are proved
    reg.add(Contract(RP, 'VSINGL', returns=Real, **fixed(4, 'result == vax32(ld.bytes, old(ld.index))', 'result == 0')))
    reg.add(Contract(RP, 'SSHORT', returns=Int, **fixed(1, 'result == s_n(ld.bytes[old(ld.index)], 8)', 'result == 0')))
    reg.add(Contract(RP, 'SNORM', returns=Int, **fixed(2, 'result == s_n(be(ld.bytes, old(ld.index), 2), 16)', 'result == 0')))
    reg.add(Contract(RP, 'SLONG', returns=Int, **fixed(4, 'result == s_n(be(ld.bytes, old(ld.index), 4), 32)', 'result == 0')))
    reg.add(Contract(RP, 'USHORT', returns=Int, **fixed(1, 'result == ld.bytes[old(ld.index)]', 'result == 0')))
    reg.add(Contract(RP, 'UNORM', returns=Int, **fixed(2, 'result == be(ld.bytes, old(ld.index), 2)', 'result == 0')))
    reg.add(Contract(RP, 'ULONG', returns=Int, **fixed(4, 'result == be(ld.bytes, old(ld.index), 4)', 'result == 0')))
    reg.add(Contract(RP, 'STATUS', returns=Int, **fixed(1, 'result == ld.bytes[old(ld.index)]', 'result == 0')))
    reg.add(Contract(RP, 'FSINGL', returns=Real, **fixed(4, None)))
    reg.add(Contract(RP, 'FDOUBL', returns=Real, **fixed(8, None)))
    VAR_RAISE = 'len(ld.bytes) - ld.index < 1 or len(ld.bytes) - ld.index < %s'
    reg.add(Contract(
        RP, 'UVARI', {'ld': LD}, requires=LD_REQ, returns=Int, modifies=['ld.index'],
        raises={'IndexError': VAR_RAISE % 'uvari_len(ld.bytes, ld.index)'},
        ensures=['result == uvari_val(ld.bytes, old(ld.index))',
                 'ld.index == old(ld.index) + uvari_len(ld.bytes, old(ld.index))',
                 '0 <= result and result < 1073741824'],
        canaries=['result == 0', 'ld.index == old(ld.index) + 1']))
    reg.add(Contract(RP, 'ORIGIN', {'ld': LD}, requires=LD_REQ, returns=Int, modifies=['ld.index'],
                     raises={'IndexError': VAR_RAISE % 'uvari_len(ld.bytes, ld.index)'},
                     ensures=['result == uvari_val(ld.bytes, old(ld.index))',
                              'ld.index == old(ld.index) + uvari_len(ld.bytes, old(ld.index))'], canaries=['result == 0']))
    LENF = dict(params={'by': Bytes, 'index': Int}, returns=Int, raises={'ExceptionRepCode': 'index < 0'})
    reg.add(Contract(RP, 'UVARI_len', ensures=['implies(index < len(by), result == uvari_len(by, index))',
                                                'implies(index >= len(by), result == 0)'], canaries=['result == 1'], **LENF))
    reg.add(Contract(RP, 'ORIGIN_len', ensures=['implies(index < len(by), result == uvari_len(by, index))',
                                                 'implies(index >= len(by), result == 0)'], canaries=['result == 1'], **LENF))
    reg.add(Contract(RP, 'IDENT_len', ensures=['implies(index < len(by), result == ident_len(by, index))',
                                                'implies(index >= len(by), result == 0)'], canaries=['result == 1'], **LENF))
    reg.add(Contract(RP, '_pascal_string', {'ld': LD}, requires=LD_REQ, returns=Bytes, modifies=['ld.index'],
                     raises={'IndexError': VAR_RAISE % 'ident_len(ld.bytes, ld.index)'},
                     ensures=['len(result) == ld.bytes[old(ld.index)]', 'ld.index == old(ld.index) + ident_len(ld.bytes, old(ld.index))',
                              'forall(0, len(result), lambda j: result[j] == ld.bytes[old(ld.index) + 1 + j])'],
                     canaries=['len(result) == 0']))
    reg.add(Contract(RP, 'IDENT', {'ld': LD}, requires=LD_REQ, returns=Bytes, modifies=['ld.index'],
                     raises={'IndexError': VAR_RAISE % 'ident_len(ld.bytes, ld.index)'},
                     ensures=['len(result) == ld.bytes[old(ld.index)]', 'ld.index == old(ld.index) + ident_len(ld.bytes, old(ld.index))',
                              'forall(0, len(result), lambda j: result[j] == ld.bytes[old(ld.index) + 1 + j])'],
                     canaries=['len(result) == 0']))
    reg.add(Contract(RP, 'UNITS', {'ld': LD}, requires=LD_REQ, returns=Bytes, modifies=['ld.index'],
                     raises={'IndexError': VAR_RAISE % 'ident_len(ld.bytes, ld.index)'},
                     ensures=['len(result) == ld.bytes[old(ld.index)]', 'ld.index == old(ld.index) + ident_len(ld.bytes, old(ld.index))',
                              'forall(0, len(result), lambda j: result[j] == ld.bytes[old(ld.index) + 1 + j])'],
                     canaries=['len(result) == 0']))
    reg.add(Contract(
        RP, 'ASCII', {'ld': LD}, requires=LD_REQ, returns=Bytes, modifies=['ld.index'],
        raises={'IndexError': (VAR_RAISE % 'uvari_len(ld.bytes, ld.index)') +
                ' or len(ld.bytes) - ld.index < uvari_len(ld.bytes, ld.index) + uvari_val(ld.bytes, ld.index)'},
        ensures=['len(result) == uvari_val(ld.bytes, old(ld.index))',
                 'ld.index == old(ld.index) + uvari_len(ld.bytes, old(ld.index)) + uvari_val(ld.bytes, old(ld.index))',
                 'forall(0, len(result), lambda j: result[j] == ld.bytes[old(ld.index) + uvari_len(ld.bytes, old(ld.index)) + j])'],
        canaries=['len(result) == 0']))
    OBN = KRec('ObjectName', O=Int, C=Int, I=Bytes)
    OB_RAISE = ('len(ld.bytes) - ld.index < 1 or len(ld.bytes) - ld.index < uvari_len(ld.bytes, ld.index) + 2'
                ' or len(ld.bytes) - ld.index < obname_len(ld.bytes, ld.index)')
    reg.add(Contract(
        RP, 'OBNAME', {'ld': LD}, requires=LD_REQ, returns=OBN, modifies=['ld.index'], raises={'IndexError': OB_RAISE},
        ensures=['result.O == uvari_val(ld.bytes, old(ld.index))',
                 'result.C == ld.bytes[old(ld.index) + uvari_len(ld.bytes, old(ld.index))]',
                 'len(result.I) == ld.bytes[old(ld.index) + uvari_len(ld.bytes, old(ld.index)) + 1]',
                 'forall(0, len(result.I), lambda j: result.I[j] == ld.bytes[old(ld.index) + uvari_len(ld.bytes, old(ld.index)) + 2 + j])',
                 'ld.index == old(ld.index) + obname_len(ld.bytes, old(ld.index))'],
        canaries=['result.O == 0']))
    reg.add(Contract(
        RP, 'OBNAME_len', {'by': Bytes, 'index': Int}, returns=Int, raises={'ExceptionRepCode': 'index < 0'},
        ensures=['implies(index < len(by) and index + uvari_len(by, index) + 1 < len(by), result == obname_len(by, index))',
                 'implies(index >= len(by), result == 0)'],
        canaries=['result == 0', 'result == 3']))
    reg.add(Contract(RP, 'DateTime.__init__', {'self': KRec('DateTime'), 'ld': LD}, requires=LD_REQ,
                     modifies=['ld.index', ('self.year', Int), ('self.tz', Int), ('self.month', Int), ('self.day', Int),
                               ('self.hour', Int), ('self.minute', Int), ('self.second', Int), ('self.millisecond', Int)],
                     raises={'IndexError': 'len(ld.bytes) - ld.index < 8'},
                     ensures=['ld.index == old(ld.index) + 8', 'self.year == 1900 + ld.bytes[old(ld.index)]',
                              'self.tz == ld.bytes[old(ld.index) + 1] // 16', 'self.month == ld.bytes[old(ld.index) + 1] % 16',
                              'self.day == ld.bytes[old(ld.index) + 2]', 'self.hour == ld.bytes[old(ld.index) + 3]',
                              'self.minute == ld.bytes[old(ld.index) + 4]', 'self.second == ld.bytes[old(ld.index) + 5]',
                              'self.millisecond == be(ld.bytes, old(ld.index) + 6, 2)'],
                     canaries=['self.year == 1900']))
    fl = {1: 2, 2: 4, 3: 8, 4: 12, 5: 4, 6: 4, 7: 8, 8: 16, 9: 24, 10: 8, 11: 16, 12: 1, 13: 2, 14: 4, 15: 1, 16: 2, 17: 4,
          21: 8, 26: 1}
    reg.add(Contract(RP, 'rep_code_fixed_length', {'rc': Int}, returns=Int,
                     raises={'ExceptionRepCode': 'not (%s)' % ' or '.join('rc == %d' % k for k in fl)},
                     ensures=[' and '.join('implies(rc == %d, result == %d)' % kv for kv in fl.items())],
                     canaries=['result == 4']))



def standins(tier, seed):
    """The three implementations of LIS code 68 (pRepCode Python, cRepCode Cython, cpRepCode C++): only the Python text is
    under contract, so their agreement "bit for bit on every word and every finite number" is sampled here (bounded):
    every exponent field x both signs x boundary and random mantissas for from68 (also against the exact rational value of
    the standard), and for to68 every exactly representable value, boundary numbers and random doubles of every magnitude;
    encode(decode(w)) must decode to the same value (outside the known finding v <= -2**127)."""
    from pyvc import standin
    from pyvc.check import load_findings
    n = 6 if tier == 'quick' else 200
    known = any(f.get('obligation') == 'pRepCode.py:to68/post#3' for f in load_findings('C07'))
    code = r"""
from fractions import Fraction
from TotalDepth.LIS.core import pRepCode, cRepCode, cpRepCode
rnd = random.Random(%d)
KNOWN_MIN = %r
def spec(w):
    s = w >> 31; e = (w >> 23) & 0xFF; m = w & 0x7FFFFF
    return Fraction(m) * Fraction(2) ** (e - 151) if s == 0 else Fraction(m - (1 << 23)) * Fraction(2) ** (104 - e)
bad = []
cases = 0
words = []
for s in (0, 1):
    for e in range(256):
        for m in [0, 1, 2, 0x3FFFFF, 0x400000, 0x400001, 0x7FFFFE, 0x7FFFFF] + [rnd.randrange(1 << 23) for _ in range(%d)]:
            words.append((s << 31) | (e << 23) | m)
for w in words:
    cases += 1
    vals = [pRepCode.from68(w), cRepCode.from68(w), cpRepCode.from68(w)]
    if not (vals[0] == vals[1] == vals[2]) or Fraction(vals[0]) != spec(w):
        if len(bad) < 3: bad.append({'from68_word': hex(w), 'python_cython_cpp': [repr(x) for x in vals], 'standard': float(spec(w))})
numbers = [float(spec(w)) for w in words] + [0.0, -0.0, 2.0 ** 127, -2.0 ** 127, 2.0 ** 127 * (1 - 2.0 ** -23), 1e-50, -1e-50, 1.7e38, -1.8e38, 3e38,
                                             5e-46, 1e300, -1e300, 2.0 ** -129, -2.0 ** -129, 2.0 ** -152, 2.0 ** -151]
for _ in range(%d):
    numbers.append(rnd.choice([1, -1]) * rnd.random() * 2.0 ** rnd.randint(-160, 130))
for v in numbers:
    cases += 1
    ws = [pRepCode.to68(v), cRepCode.to68(v), cpRepCode.to68(v)]
    if not (ws[0] == ws[1] == ws[2]):
        if len(bad) < 3: bad.append({'to68_value': repr(v), 'python_cython_cpp': [hex(x) for x in ws]})
for w in words:
    cases += 1
    v = spec(w)
    if KNOWN_MIN and v <= -Fraction(2) ** 127:
        continue
    w2 = pRepCode.to68(float(v))
    if spec(w2) != v:
        if len(bad) < 3: bad.append({'word': hex(w), 'value': float(v), 'encoded_again': hex(w2), 'which_decodes_to': float(spec(w2))})
print(json.dumps({'cases': cases, 'bad': bad}))
if bad:
    sys.exit(1)
""" % (seed, known, n, 3000 if tier == 'quick' else 200000)
    return [standin.run('code68-three-implementations', 'bounded: structured sample of words and numbers; Python / Cython / C++ compared bit for bit, '
                        'from68 also against the exact rational value of the standard, encode(decode(w)) value-preserving',
                        '512 exponent/sign combinations x %d mantissas; %d random doubles' % (8 + n, 3000 if tier == 'quick' else 200000), code)]
