"""C05 — LIS physical records: what is written is what is read, at any position (LIS/core/PhysRec.py, TifMarker.py,
DeTif.py).  Kernel under contract: trailer / attribute arithmetic, the writer's record loop, header decoding, TIF marker
arithmetic and TIF stripping.  The reader state machine as a whole is covered by the bounded stand-in."""
from pyvc.kinds import *
from pyvc.contract import Contract, Loop, Lemma

PR = 'src/TotalDepth/LIS/core/PhysRec.py'
TM = 'src/TotalDepth/LIS/core/TifMarker.py'
RS = 'src/TotalDepth/LIS/core/RawStream.py'
DT = 'src/TotalDepth/DeTif.py'

SPEC = '''
def bitset(a, k):
    return (a // 2 ** k) % 2 == 1

def prt_len(has_rec, has_file, has_check):
    """LIS-79 2.3.1.2: the optional trailer fields are two bytes each"""
    return (2 if has_rec else 0) + (2 if has_file else 0) + (2 if has_check else 0)

def prt_attr(has_rec, has_file, has_check):
    """LIS-79 2.3.1.1: attribute bits 9 (record number), 10 (file number), 12 (checksum)"""
    return (512 if has_rec else 0) + (1024 if has_file else 0) + (4096 if has_check else 0)

def be16(F, p):
    return F[p] * 256 + F[p + 1]

def norm16(v):
    return v % 65536
'''

TAIL = KRec('PhysRecTail', hasRec=Bool, _recNum=Int, _fileNum=KOpt(Int), hasCheck=Bool, checkSum=Int, _prtLen=Int, _prhAttr=Int)
TAIL_INV = ['self._prtLen == prt_len(self.hasRec, not is_none(self._fileNum), self.hasCheck)',
            'self._prhAttr == prt_attr(self.hasRec, not is_none(self._fileNum), self.hasCheck)',
            'implies(not is_none(self._fileNum), 0 <= self._fileNum and self._fileNum <= 65535)',
            '0 <= self.checkSum and self.checkSum <= 65535']


def register(reg):
    reg.add_spec_source(SPEC)
    # ------------------------------------------------------------ trailer
    reg.add(Contract(PR, 'PhysRecTail.normalise_integer', {'value': Int, 'value_min': Int, 'value_max': Int}, returns=Int,
                     raises={'ValueError': 'value_min >= value_max'},
                     ensures=['value_min <= result and result <= value_max', '(result - value) % (value_max - value_min + 1) == 0',
                              'implies(value_min <= value and value <= value_max, result == value)'], canaries=['result == value']))
    NEWT = [('self.hasRec', Bool), ('self._recNum', Int), ('self._fileNum', KOpt(Int)), ('self.hasCheck', Bool),
            ('self.checkSum', Int), ('self._prtLen', Int), ('self._prhAttr', Int)]
    reg.add(Contract(PR, 'PhysRecTail.__init__', {'self': KRec('PhysRecTail'), 'hasRecNum': Bool, 'fileNum': KOpt(Int), 'hasCheckSum': Bool},
                     modifies=NEWT,
                     ensures=TAIL_INV + ['self.hasRec == hasRecNum', 'self.hasCheck == hasCheckSum', 'self._recNum == 0',
                                         'is_none(self._fileNum) == is_none(fileNum)',
                                         'implies(not is_none(fileNum), (self._fileNum - fileNum) % 65536 == 0)'],
                     canaries=['self._prtLen == 0', 'self._prtLen == 6'], crosscheck=False))
    for prop, val in (('recNum', '_recNum'), ('fileNum', '_fileNum'), ('prtLen', '_prtLen'), ('prhAttr', '_prhAttr')):
        reg.add(Contract(PR, 'PhysRecTail.' + prop, inline=True))
    reg.add(Contract(PR, 'PhysRecTail.prtRecNum', {'self': TAIL}, requires=TAIL_INV, returns=Bytes, modifies=['self._recNum'],
                     ensures=TAIL_INV + ['len(result) == (2 if self.hasRec else 0)',
                                         'implies(self.hasRec, be16(result, 0) == norm16(old(self._recNum)) and self._recNum == norm16(old(self._recNum)) + 1)',
                                         'implies(not self.hasRec, self._recNum == old(self._recNum))'],
                     canaries=['len(result) == 0', 'len(result) == 2'], crosscheck=False))
    reg.add(Contract(PR, 'PhysRecTail.prtFileNum', {'self': TAIL}, requires=TAIL_INV, returns=Bytes,
                     ensures=['len(result) == (0 if is_none(self._fileNum) else 2)',
                              'implies(not is_none(self._fileNum), be16(result, 0) == self._fileNum)'],
                     canaries=['len(result) == 0', 'len(result) == 2'], crosscheck=False))
    reg.add(Contract(PR, 'PhysRecTail.prtCheckSum', {'self': TAIL}, requires=TAIL_INV, returns=Bytes,
                     ensures=['len(result) == (2 if self.hasCheck else 0)', 'implies(self.hasCheck, be16(result, 0) == self.checkSum)'],
                     canaries=['len(result) == 0', 'len(result) == 2'], crosscheck=False))
    reg.add(Contract(PR, 'PhysRecTail.computeCheckSum', {'self': TAIL, 'theB': Bytes}, requires=TAIL_INV, modifies=['self.checkSum'],
                     ensures=TAIL_INV + ['implies(not self.hasCheck, self.checkSum == 0)'],
                     loops=[Loop('for i in range(0, len(theB) - 1, 2)', index='k', invariants=['0 <= self.checkSum and self.checkSum <= 65535'])],
                     canaries=['self.checkSum == 1'], crosscheck=False))
    register_writer(reg)
    register_reader(reg)
    register_reader_walk(reg)
    register_tif(reg)


FOBJ = KRec('BinaryIO', data=Bytes, pos=Int)
STREAM = KRec('RawStream', _stream=FOBJ)
WR = KRec('PhysRecWrite', stream=STREAM, tif=NoneK, _prLen=Int, _prt=TAIL, _maxPayloadLen=Int, prAttr=Int)

SPEC_W = '''
def nrec(x, P):
    """number of physical records needed for x payload bytes with at most P bytes each"""
    return (x + P - 1) // P

def pay_len(r, N, P):
    return P if (r + 1) * P <= N else N - r * P

def pr_attr(r, N, P, tail_attr):
    """LIS-79 2.3.1.1: bit 0 successor, bit 1 predecessor, plus the trailer presence bits"""
    return tail_attr + (1 if (r + 1) * P < N else 0) + (2 if r > 0 else 0)
'''


def register_writer(reg):
    reg.add_spec_source(SPEC_W)
    for f in ('RawStream.tell', 'RawStream.write', 'RawStream.read', 'RawStream.seek', 'RawStream.readAndUnpack', 'RawStream.packAndWrite'):
        reg.add(Contract(RS, f, inline=True))
    for f in ('_isAttrBitSet', '_isAttrBitClear', '_setAttrBit', '_clearAttrBit', '_setOrClearAttrBit', '_hasSuccessor', '_hasPredecessor',
              '_hasRecordNumber', '_hasFileNumber', '_hasChecksum', '_setSuccessor', '_setPredecessor'):
        reg.add(Contract(PR, 'PhysRecBase.' + f, inline=True))
    D = 'self.stream._stream.data'
    N, P, T = 'len(theLr)', 'self._maxPayloadLen', 'self._prt._prtLen'
    TI = [x.replace('self.', 'self._prt.') for x in TAIL_INV]
    OFF = 'base + r * (4 + %s + %s)' % (P, T)
    hdr = ('forall(0, nrec(%%s, %s), lambda r: be16(%s, off[r]) == 4 + pay_len(r, %s, %s) + %s'
           ' and be16(%s, off[r] + 2) == pr_attr(r, %s, %s, self._prt._prhAttr)'
           ' and base <= off[r] and off[r] + 4 + pay_len(r, %s, %s) + %s <= len(%s), trigger=lambda r: [off[r]])'
           % (P, D, N, P, T, D, N, P, N, P, T, D))
    body = ('forall(0, %%s, lambda i: %s[base + i + 4 * (i // %s + 1) + %s * (i // %s)] == theLr[i], trigger=lambda i: [theLr[i]])' % (D, P, T, P))
    reg.add(Contract(
        PR, 'PhysRecWrite.writeLr', {'self': WR, 'theLr': Bytes},
        ghost={'base': Int}, ghost_init={'off': 'seq(nrec(%s, %s), lambda r: %s)' % (N, P, OFF)}, materialise_ghost=['off'],
        requires=TI + ['base == self.stream._stream.pos', 'base == len(%s)' % D, P + ' >= 1',
                       P + ' == self._prLen - 4 - ' + T, 'self._prLen <= 65535', '0 <= self._prt._prhAttr'],
        modifies=['self.stream._stream.data', 'self.stream._stream.pos', 'self.prAttr', 'self._prt._recNum', 'self._prt.checkSum'],
        returns=Int,
        ensures=TI + ['result == base',
                      # LIS-79 2.3.1: N payload bytes in ceil(N/P) records of 4 header + payload + trailer bytes
                      'len(%s) == base + %s + nrec(%s, %s) * (4 + %s)' % (D, N, N, P, T),
                      'self.stream._stream.pos == len(%s)' % D,
                      'forall(0, base, lambda n: %s[n] == old(%s)[n])' % (D, D),
                      body % N, hdr % N],
        loops=[Loop('while ofs < len(theLr)', havoc_extra=['self.stream._stream.data', 'self.stream._stream.pos', 'self._prt._recNum',
                                                           'self._prt.checkSum', 'self.prAttr'],
                    invariants=TI + [
            '0 <= ofs and ofs <= %s' % N, 'ofs %% %s == 0 or ofs == %s' % (P, N), 'myTell == base',
            # the number of records written so far times the payload size is the number of payload bytes written
            'nrec(ofs, %s) * %s == ofs or ofs == %s' % (P, P, N),
            'len(%s) == base + ofs + nrec(ofs, %s) * (4 + %s)' % (D, P, T), 'self.stream._stream.pos == len(%s)' % D,
            'forall(0, base, lambda n: %s[n] == old(%s)[n])' % (D, D),
            body % 'ofs', hdr % 'ofs'], decreases='%s - ofs' % N)],
        canaries=['len(%s) == base' % D, 'len(theLr) == 0'], crosscheck=False, timeout=60))


TIFR = KRec('TifMarkerRead', hasTif=False)
RD = KRec('PhysRecRead', stream=STREAM, tif=TIFR, keepGoing=False, pad_modulo=0, pad_non_null=False, isEOF=Bool, prLen=Int, prAttr=Int,
          ldLen=Int, _ldIndex=Int, _ldTell=Int, _isLrStart=Bool, _mustReadHead=Bool, startOfLr=Int, startPrPos=Int,
          recNum=KOpt(Int), fileNum=KOpt(Int), checksum=KOpt(Int))
SPEC_R = '''
def ld_len(prlen, attr):
    """LIS-79 2.3.1: logical data bytes in a physical record = length - 4 header bytes - 2 per trailer field present"""
    return prlen - 4 - (2 if bitset(attr, 9) else 0) - (2 if bitset(attr, 10) else 0) - (2 if bitset(attr, 12) else 0)
'''


def register_reader(reg):
    reg.add_spec_source(SPEC_R)
    reg.add(Contract(TM, 'TifMarkerRead.read', inline=True))
    reg.add(Contract(PR, 'PhysRecRead.isLrStart', inline=True))
    reg.add(Contract(PR, 'PhysRecRead._raiseOrErrorOnEOF', inline=True))
    reg.add(Contract(PR, 'PhysRecRead._consume_padding', inline=True))
    D = 'self.stream._stream.data'
    POS = 'self.stream._stream.pos'
    A0 = 'be16(%s, old(%s) + 2)' % (D, POS)
    L0 = 'be16(%s, old(%s))' % (D, POS)
    APRE = 'be16(%s, %s + 2)' % (D, POS)
    LPRE = 'be16(%s, %s)' % (D, POS)
    HAVE = 'len(%s) - %s >= 4' % (D, POS)
    MODS = ['self.stream._stream.pos', 'self.isEOF', 'self.prLen', 'self.prAttr', 'self.ldLen', 'self._ldIndex', 'self._ldTell',
            'self._isLrStart', 'self._mustReadHead', 'self.startOfLr', 'self.startPrPos']
    reg.add(Contract(
        PR, 'PhysRecRead._readHead', {'self': RD}, requires=[POS + ' >= 0', '0 <= self.prAttr and self.prAttr <= 65535'], modifies=MODS,
        raises={'ExceptionPhysRecUnknownType': '%s and bitset(%s, 14)' % (HAVE, APRE),
                'ExceptionPhysRecUndefinedChecksum': '%s and not bitset(%s, 14) and bitset(%s, 13)' % (HAVE, APRE, APRE),
                'ExceptionPhysRec': '%s and not bitset(%s, 14) and not bitset(%s, 13) and ld_len(%s, %s) < 0' % (HAVE, APRE, APRE, LPRE, APRE)},
        ensures=['implies(len(%s) - old(%s) < 4, self.isEOF)' % (D, POS),
                 'implies(len(%s) - old(%s) >= 4, self.isEOF == old(self.isEOF) and self.prLen == %s and self.prAttr == %s'
                 ' and self.ldLen == ld_len(%s, %s) and self._ldIndex == 0 and not self._mustReadHead'
                 ' and self.startPrPos == old(%s) and %s == old(%s) + 4)' % (D, POS, L0, A0, L0, A0, POS, POS, POS),
                 # a record is the start of a logical record iff the previous record had no successor bit
                 'implies(len(%s) - old(%s) >= 4 and not bitset(old(self.prAttr), 0), self._isLrStart and self.startOfLr == old(%s) and self._ldTell == 0)' % (D, POS, POS),
                 'implies(len(%s) - old(%s) >= 4 and bitset(old(self.prAttr), 0), not self._isLrStart and self.startOfLr == old(self.startOfLr)'
                 ' and self._ldTell == old(self._ldTell))' % (D, POS)],
        canaries=['self.isEOF', 'not self.isEOF'], crosscheck=False))
    reg.add(Contract(
        PR, 'PhysRecRead._readTail', {'self': RD}, requires=[POS + ' >= 0', POS + ' <= len(' + D + ')', '0 <= self.prAttr and self.prAttr <= 65535', 'not bitset(self.prAttr, 13)'],
        modifies=['self.stream._stream.pos', 'self.isEOF', 'self._mustReadHead', 'self.recNum', 'self.fileNum', 'self.checksum'],
        raises={'ExceptionPhysRecEOF': 'self.isEOF or len(%s) - %s < self.prLen - 4 - ld_len(self.prLen, self.prAttr)' % (D, POS)},
        ensures=['self._mustReadHead', '%s == old(%s) + (self.prLen - 4 - ld_len(self.prLen, self.prAttr))' % (POS, POS), 'not self.isEOF',
                 'implies(bitset(self.prAttr, 9), not is_none(self.recNum) and self.recNum == be16(%s, old(%s)))' % (D, POS),
                 'implies(bitset(self.prAttr, 10), not is_none(self.fileNum) and self.fileNum == be16(%s, old(%s) + (2 if bitset(self.prAttr, 9) else 0)))' % (D, POS)],
        canaries=['%s == old(%s)' % (POS, POS), '%s == old(%s) + 6' % (POS, POS)], crosscheck=False))
    reg.add(Contract(PR, 'PhysRecRead.hasLd', {'self': RD}, requires=['0 <= self.prAttr'], returns=Bool,
                     ensures=['result == (self.ldLen > self._ldIndex or bitset(self.prAttr, 0))'], canaries=['result'], crosscheck=False))
    reg.add(Contract(PR, 'PhysRecRead.tellLr', {'self': RD}, returns=Int, ensures=['result == self.startOfLr'], canaries=['result == 0'], crosscheck=False))


SPEC_WALK = '''
def prs_ok(F, isp, nx, rem):
    """Ghost layout of a LIS file by file position (no TIF markers, no padding): isp[x] == 1 marks the start of a physical
    record, nx[x] is where it ends (= start of the next one or the end of the file), rem[x] is the number of logical data
    bytes from the start of this record's data to the end of its logical record.  The clauses chain from a record to the
    next one, so as solver patterns isp[x] / nx[x] / rem[x] would instantiate without end: they carry the inert pattern
    mark(isp[x]): the solver never instantiates them, pyvc's one-round pre-instantiation does, at exactly the positions t for
    which isp[t] occurs in the VC (the cursor before and after the step); for that to be enough the successor clause states
    the well-formedness of the next header itself."""
    return (len(isp) == len(F) + 1 and len(nx) == len(F) + 1 and len(rem) == len(F) + 1
            and forall(0, len(F), lambda x: implies(isp[x] == 1, hdr_ok(F, x, nx, rem)), trigger=lambda x: [mark(isp[x])])
            # a record with the successor bit is followed by the next record of the same logical record
            and forall(0, len(F), lambda x: implies(isp[x] == 1 and bitset(be16(F, x + 2), 0),
                       nx[x] + 4 <= len(F) and isp[nx[x]] == 1 and hdr_ok(F, nx[x], nx, rem)
                       and rem[x] == ld_len(be16(F, x), be16(F, x + 2)) + rem[nx[x]]), trigger=lambda x: [mark(isp[x])])
            and forall(0, len(F), lambda x: implies(isp[x] == 1 and not bitset(be16(F, x + 2), 0),
                       rem[x] == ld_len(be16(F, x), be16(F, x + 2))), trigger=lambda x: [mark(isp[x])]))

def hdr_ok(F, x, nx, rem):
    """a well-formed physical record header at x: length field = distance to the end of the record, type bit and the
    undefined checksum bit clear, a non-negative amount of logical data"""
    return (x + 4 <= len(F) and be16(F, x) == nx[x] - x and nx[x] <= len(F)
            and not bitset(be16(F, x + 2), 14) and not bitset(be16(F, x + 2), 13)
            and ld_len(be16(F, x), be16(F, x + 2)) >= 0 and rem[x] >= ld_len(be16(F, x), be16(F, x + 2)))

def lre_ok(F, isp, nx, rem, lre):
    """lre[x] is where the logical record ends that the physical record at x belongs to (the end of its last physical record);
    the physical records tile the file: after a logical record comes another physical record or fewer than four bytes."""
    return (len(lre) == len(F) + 1
            and forall(0, len(F), lambda x: implies(isp[x] == 1 and bitset(be16(F, x + 2), 0), lre[x] == lre[nx[x]]), trigger=lambda x: [mark(isp[x])])
            and forall(0, len(F), lambda x: implies(isp[x] == 1 and not bitset(be16(F, x + 2), 0),
                       lre[x] == nx[x] and (len(F) - nx[x] < 4 or (isp[nx[x]] == 1 and hdr_ok(F, nx[x], nx, rem)))), trigger=lambda x: [mark(isp[x])]))

def cur_in(self, F, isp, nx):
    """the reader stands inside the physical record that starts at self.startPrPos, header read"""
    return (0 <= self.startPrPos and self.startPrPos < len(F) and isp[self.startPrPos] == 1 and not self._mustReadHead and not self.isEOF
            and self.prLen == be16(F, self.startPrPos) and self.prAttr == be16(F, self.startPrPos + 2)
            and self.ldLen == ld_len(self.prLen, self.prAttr) and 0 <= self._ldIndex and self._ldIndex <= self.ldLen
            and self.stream._stream.pos == self.startPrPos + 4 + self._ldIndex)
'''


TW = KRec('TifMarkerWrite', hasTif=True, tifType=Int, tifBack=Int, tifNext=Int, previousDiff=Int)
SPEC_T = '''
def le32(F, p):
    return F[p] + 256 * F[p + 1] + 65536 * F[p + 2] + 16777216 * F[p + 3]

def tif_chain_ok(F, tp, G, P, own):
    """file F is a chain of TIF markers at tp[t] (type, back, next little-endian), each followed by its payload up to the
    next marker; P is the concatenation of the payloads, G[t] the payload bytes before marker t"""
    return (len(tp) >= 1 and tp[0] == 0 and len(G) == len(tp) + 1 and G[0] == 0 and len(P) == G[len(tp)] and len(own) == len(P)
            and le32(F, 0) == 0 and le32(F, 4) == 0
            and forall(0, len(tp), lambda t: tp[t] + 12 <= le32(F, tp[t] + 8) and le32(F, tp[t] + 8) <= len(F)
                       and G[t + 1] == G[t] + (le32(F, tp[t] + 8) - tp[t] - 12) and G[t] >= 0 and G[t + 1] <= len(P)
                       and tp[t] >= 0, trigger=lambda t: [tp[t]])
            and forall(0, len(tp) - 1, lambda t: tp[t + 1] == le32(F, tp[t] + 8), trigger=lambda t: [G[t]])
            and le32(F, tp[len(tp) - 1] + 8) + 12 > len(F)
            and forall(0, len(P), lambda n: 0 <= own[n] and own[n] < len(tp) and G[own[n]] <= n and n < G[own[n] + 1]
                       and P[n] == F[tp[own[n]] + 12 + (n - G[own[n]])], trigger=lambda n: [P[n], own[n]])
            and forall_n(lambda n, t: implies(0 <= n and n < len(P) and 0 <= t and t < len(tp) and G[t] <= n and n < G[t + 1], own[n] == t),
                         trigger=lambda n, t: (own[n], tp[t])))
'''


def register_tif(reg):
    reg.add_spec_source(SPEC_T)
    D = 'theStream._stream.data'
    POS = 'theStream._stream.pos'
    LIM = 4294967296
    reg.add(Contract(
        TM, 'TifMarkerWrite.write', {'self': TW, 'theStream': STREAM, 'theLen': Int},
        # representation invariant of the writer at the position p where the next marker goes:
        # tifNext == p (where this marker is) and tifBack + previousDiff == p; tifBack is the previous marker's position
        requires=['%s == len(%s)' % (POS, D), 'self.tifNext == %s' % POS, 'self.tifBack + self.previousDiff == %s' % POS,
                  '0 <= self.tifBack', '0 <= self.previousDiff', '0 <= theLen', '%s + theLen + 12 < %d' % (POS, LIM),
                  '0 <= self.tifType and self.tifType <= 1'],
        modifies=['theStream._stream.data', 'theStream._stream.pos', 'self.tifNext', 'self.tifBack', 'self.previousDiff'],
        ensures=['len(%s) == len(old(%s)) + 12' % (D, D), '%s == len(%s)' % (POS, D),
                 'forall(0, len(old(%s)), lambda n: %s[n] == old(%s)[n])' % (D, D, D),
                 'le32(%s, old(%s)) == self.tifType' % (D, POS), 'le32(%s, old(%s) + 4) == old(self.tifBack)' % (D, POS),
                 'le32(%s, old(%s) + 8) == old(%s) + 12 + theLen' % (D, POS, POS),
                 # the invariant again, for the position after the physical record of theLen bytes
                 'self.tifNext == old(%s) + 12 + theLen' % POS, 'self.tifBack == old(%s)' % POS,
                 'self.tifBack + self.previousDiff == self.tifNext'],
        canaries=['len(%s) == len(old(%s))' % (D, D)], crosscheck=False))
    # TIF auto-detection: a file is taken as TIF-marked exactly when it has 12 bytes and its first two little-endian words are
    # zero (a first marker has type 0 and no predecessor); byte-reversed markers are recognised by the size of the third word
    NEWT = [('self.hasTif', Bool), ('self.isReversed', Bool), ('self.tifType', Int), ('self.tifBack', Int), ('self.tifNext', Int),
            ('self.previousTell', Int), ('self._prPad', Bool), ('self.raiseOnError', Bool)]
    reg.add(Contract(TM, 'TifMarkerBase.__init__', inline=True))
    reg.add(Contract(TM, 'TifMarkerRead._readBigEndian', inline=True))
    reg.add(Contract(
        TM, 'TifMarkerRead.__init__', {'self': KRec('TifMarkerRead'), 'theStream': STREAM, 'allowPrPadding': Bool}, requires=['theStream._stream.pos >= 0'],
        modifies=NEWT + ['theStream._stream.pos'],
        ensures=['self.hasTif == (len(%s) >= 12 and le32(%s, 0) == 0 and le32(%s, 4) == 0)' % (D, D, D),
                 'self.isReversed == (len(%s) >= 12 and le32(%s, 0) == 0 and le32(%s, 4) == 0 and le32(%s, 8) > 65535 + 12)' % (D, D, D, D),
                 '%s == 0' % POS, 'self.tifType == 0 and self.tifBack == 0 and self.tifNext == 0', 'self._prPad == allowPrPadding'],
        canaries=['self.hasTif', 'not self.hasTif'], crosscheck=False))
    FIN = KRec('BinaryIO', data=Bytes, pos=Int)
    TIFN = KRec('TifMarker', tell=Int, type=Int, prev=Int, next=Int)
    reg.add(Contract(DT, 'TifMarker.is_tif_start', inline=True))
    reg.add(Contract(DT, 'TifMarker.read_len', inline=True))
    reg.add(Contract(DT, '_read_tifs', {'fobj': FIN}, requires=['fobj.pos >= 0'], returns=TIFN, modifies=['fobj.pos'],
                     raises={'struct.error': 'len(fobj.data) - fobj.pos < 12'},
                     ensures=['result.tell == old(fobj.pos)', 'result.type == le32(fobj.data, old(fobj.pos))',
                              'result.prev == le32(fobj.data, old(fobj.pos) + 4)', 'result.next == le32(fobj.data, old(fobj.pos) + 8)',
                              'fobj.pos == old(fobj.pos) + 12'], canaries=['result.type == 0'], crosscheck=False))
    G = {'tp': KView(Int), 'G': KView(Int), 'P': Bytes, 'own': KView(Int)}
    reg.add(Contract(
        DT, 'strip_tif', {'file_in': FIN, 'file_out': FIN}, ghost=G,
        requires=['tif_chain_ok(file_in.data, tp, G, P, own)', 'len(file_out.data) == 0'],
        modifies=['file_in.pos', 'file_out.pos', 'file_out.data'], returns=KTup(Int, Int),
        # removing the markers yields exactly the payloads, in order: the unmarked file
        ensures=['len(file_out.data) == len(P)', 'forall(0, len(P), lambda n: file_out.data[n] == P[n])',
                 'result[0] == len(tp)', 'result[1] == len(P)'],
        loops=[Loop('while True', invariants=[
            '1 <= tif_markers_stripped and tif_markers_stripped <= len(tp)',
            'tif.tell == tp[tif_markers_stripped - 1]', 'tif.next == le32(file_in.data, tp[tif_markers_stripped - 1] + 8)',
            'file_in.pos == tp[tif_markers_stripped - 1] + 12',
            'bytes_written == G[tif_markers_stripped - 1]', 'len(file_out.data) == bytes_written', 'file_out.pos == bytes_written',
            'forall(0, len(file_out.data), lambda n: file_out.data[n] == P[n])'])],
        canaries=['result[0] == 1', 'len(file_out.data) == 0'], crosscheck=False, timeout=40))


def register_reader_walk(reg):
    """Sized reads and skips of logical data across physical records (PhysRecRead.readLrBytes / skipLrBytes with a size,
    __readOrSkip's sized branch, the two leaf helpers): for every layout of physical records, wherever the reader stands
    inside a logical record and whatever size is asked for, exactly min(size, bytes left in this logical record) bytes are
    consumed, the reader still stands inside a physical record of the SAME logical record (no trailer is consumed, the next
    record's header is not read), and the start of the logical record it reports is unchanged."""
    reg.add_spec_source(SPEC_WALK)
    D = 'self.stream._stream.data'
    POS = 'self.stream._stream.pos'
    G = {'isp': KView(Int), 'nx': KView(Int), 'rem': KView(Int)}
    LAY = 'prs_ok(%s, isp, nx, rem)' % D
    CUR = 'cur_in(self, %s, isp, nx)' % D
    AVAIL = '(rem[self.startPrPos] - self._ldIndex)'
    LEAFREQ = ['size >= 0', 'size <= self.ldLen - self._ldIndex', POS + ' >= 0', POS + ' + size <= len(' + D + ')']
    LEAFMOD = ['self.stream._stream.pos', 'self._ldIndex', 'self._ldTell']
    LEAFENS = ['%s == old(%s) + size' % (POS, POS), 'self._ldIndex == old(self._ldIndex) + size', 'self._ldTell == old(self._ldTell) + size']
    reg.add(Contract(PR, 'PhysRecRead.__readLdWithinPr', {'self': RD, 'theLd': Bytes, 'size': Int}, requires=LEAFREQ, modifies=LEAFMOD,
                     returns=Bytes,
                     ensures=LEAFENS + ['len(result) == len(theLd) + size', 'forall(0, len(theLd), lambda i: result[i] == theLd[i])',
                                        'forall(0, size, lambda i: result[len(theLd) + i] == %s[old(%s) + i])' % (D, POS)],
                     canaries=['len(result) == len(theLd)'], crosscheck=False))
    reg.add(Contract(PR, 'PhysRecRead.__skipLdWithinPr', {'self': RD, 'theCount': Int, 'size': Int}, requires=LEAFREQ, modifies=LEAFMOD,
                     returns=Int, ensures=LEAFENS + ['result == theCount + size'], canaries=['result == theCount'], crosscheck=False))
    WALKMOD = ['self.stream._stream.pos', 'self.isEOF', 'self.prLen', 'self.prAttr', 'self.ldLen', 'self._ldIndex', 'self._ldTell',
               'self._isLrStart', 'self._mustReadHead', 'self.startOfLr', 'self.startPrPos', 'self.recNum', 'self.fileNum', 'self.checksum']
    K = '(theSize if theSize <= old(%s) else old(%s))' % (AVAIL, AVAIL)
    for fn, leaf, acc0, res in (('PhysRecRead.readLrBytes', '__readLdWithinPr', '0', 'len(result)'),
                                ('PhysRecRead.skipLrBytes', '__skipLdWithinPr', '0', 'result')):
        params = {'self': RD, 'theSize': Int}
        if fn.endswith('readLrBytes'):
            params['theLd'] = NoneK
        c_ = Contract(
            PR, fn, params, ghost=G, name=fn + '[sized]',
            requires=[LAY, CUR, 'theSize >= 0', '0 <= self._ldTell',
                      # there is logical data left in this physical record or in a successor
                      'self.ldLen > self._ldIndex or bitset(self.prAttr, 0)'],
            modifies=WALKMOD, returns=(KOpt(Bytes) if fn.endswith('readLrBytes') else Int),
            ensures=[CUR, '%s == %s' % (res.replace('result', 'result' if fn.endswith('skipLrBytes') else 'result'), K) if fn.endswith('skipLrBytes')
                     else 'not is_none(result) and len(result) == %s' % K,
                     '%s == old(%s) - %s' % (AVAIL, AVAIL, K),
                     'self.startOfLr == old(self.startOfLr)', 'self._ldTell == old(self._ldTell) + %s' % K],
            canaries=['self.startPrPos == old(self.startPrPos)', 'self.startPrPos != old(self.startPrPos)'], crosscheck=False, timeout=15)
        # the layout clauses chain from a record to the next: plain e-matching can run to its time limit on them, MBQI is quick
        c_.solver_order = ['z3-mbqi-short', 'z3-ematch', 'z3-default', 'z3-seed1']
        reg.add(c_, callable_=False)
    # ---- seekLr: wherever the reader stood (inside a record with a successor, at EOF, ...), afterwards it stands at `offset` with
    # no memory of the records it came from: the header it reads next starts a logical record (no stale successor bit), the
    # logical position is 0 and the end-of-file flag is clear
    TIFR2 = KRec('TifMarkerRead', hasTif=False, tifType=Int, tifBack=Int, tifNext=Int, previousTell=KOpt(Int))
    RD2 = KRec('PhysRecRead', stream=STREAM, tif=TIFR2, keepGoing=False, pad_modulo=0, pad_non_null=False, isEOF=Bool, prLen=Int, prAttr=Int,
               ldLen=Int, _ldIndex=Int, _ldTell=Int, _isLrStart=Bool, _mustReadHead=Bool, startOfLr=Int, startPrPos=Int,
               recNum=KOpt(Int), fileNum=KOpt(Int), checksum=KOpt(Int))
    reg.add(Contract(PR, 'PhysRecBase._reset', inline=True))
    reg.add(Contract(PR, 'PhysRecRead._reset', inline=True))
    reg.add(Contract(TM, 'TifMarkerRead.reset', inline=True))
    reg.add(Contract(TM, 'TifMarkerBase.reset', inline=True))
    reg.add(Contract(
        PR, 'PhysRecRead.seekLr', {'self': RD2, 'offset': Int}, requires=['offset >= 0'], returns=Int,
        modifies=WALKMOD + ['self.tif.tifType', 'self.tif.tifBack', 'self.tif.tifNext', 'self.tif.previousTell'],
        ensures=['result == offset', '%s == offset' % POS, 'self._mustReadHead', 'not self.isEOF',
                 'self.prAttr == 0 and self.prLen == 0 and self.ldLen == 0', 'self._ldIndex == 0 and self._ldTell == 0 and self._isLrStart',
                 'is_none(self.recNum) and is_none(self.fileNum) and is_none(self.checksum)'],
        canaries=['self.isEOF'], crosscheck=False))
    reg.add(Contract(PR, 'PhysRecRead._readOrSkipPreamble', inline=True))
    reg.add(Contract(PR, 'PhysRecRead._hasSuccessor', inline=True))
    reg.add(Contract(PR, 'PhysRecRead._isAttrBitSet', inline=True))
    # __readOrSkip is executed from its real body inside its callers; its two loops are cut at these invariants (in a caller
    # with theSize >= 0 the first loop is unreachable, with theSize < 0 the second one)
    DONE = '(self._ldTell - old(self._ldTell))'
    reg.add(Contract(PR, 'PhysRecRead.__readOrSkip', inline=True, loops=[
        Loop('while 1', invariants=[
            CUR, 'self._ldTell >= old(self._ldTell)', '%s + %s == old(%s)' % (DONE, AVAIL, AVAIL),
            'self.startOfLr == old(self.startOfLr)', 'lre[self.startPrPos] == old(lre[self.startPrPos])',
            'implies(is_int(retVal), retVal == %s)' % DONE, 'implies(not is_int(retVal), len(retVal) == %s)' % DONE]),
        Loop('while bytesRead < theSize', invariants=[
            CUR, '0 <= bytesRead', 'bytesRead <= theSize', 'bytesRead + %s == old(%s)' % (AVAIL, AVAIL),
            'self.startOfLr == old(self.startOfLr)', 'self._ldTell == old(self._ldTell) + bytesRead',
            'implies(is_int(retVal), retVal == bytesRead)', 'implies(not is_int(retVal), len(retVal) == bytesRead)'])]))
    # ---- read / skip everything that is left of the logical record (theSize < 0)
    G2 = dict(G, lre=KView(Int))
    LRE = 'lre_ok(%s, isp, nx, rem, lre)' % D
    for fn in ('PhysRecRead.readLrBytes', 'PhysRecRead.skipLrBytes'):
        params = {'self': RD, 'theSize': Int}
        if fn.endswith('readLrBytes'):
            params['theLd'] = NoneK
        c_ = Contract(
            PR, fn, params, ghost=G2, name=fn + '[rest]',
            requires=[LAY, LRE, CUR, 'theSize < 0', '0 <= self._ldTell', 'self.ldLen > self._ldIndex or bitset(self.prAttr, 0)'],
            modifies=WALKMOD, returns=(KOpt(Bytes) if fn.endswith('readLrBytes') else Int),
            ensures=['result == old(%s)' % AVAIL if fn.endswith('skipLrBytes') else 'not is_none(result) and len(result) == old(%s)' % AVAIL,
                     # all the logical data and the trailer of the last physical record are consumed: the stream stands at the end
                     # of the logical record, the next thing to read is a header
                     '%s == old(lre[self.startPrPos])' % POS, 'self._mustReadHead', 'not self.isEOF',
                     'isp[self.startPrPos] == 1 and self.prAttr == be16(%s, self.startPrPos + 2) and not bitset(self.prAttr, 0)' % D,
                     'self.startOfLr == old(self.startOfLr)', 'self._ldTell == old(self._ldTell) + old(%s)' % AVAIL],
            canaries=['self.startPrPos == old(self.startPrPos)', 'self.startPrPos != old(self.startPrPos)'], crosscheck=False, timeout=15)
        c_.solver_order = ['z3-mbqi-short', 'z3-ematch', 'z3-default', 'z3-seed1']
        reg.add(c_, callable_=False)
    # ---- skipToNextLr from inside a logical record: everything above executed from the real bodies
    reg.add(Contract(PR, 'PhysRecRead.skipLrBytes', inline=True))
    c_ = Contract(
        PR, 'PhysRecRead.skipToNextLr', {'self': RD}, ghost=G2,
        requires=[LAY, LRE, CUR, '0 <= self._ldTell'], modifies=WALKMOD, returns=Int,
        ensures=['result == old(%s)' % AVAIL,
                 # end of file iff fewer than four bytes follow the logical record; otherwise the reader stands at the first data
                 # byte of the first physical record of the NEXT logical record
                 'self.isEOF == (len(%s) - old(lre[self.startPrPos]) < 4)' % D,
                 'implies(not self.isEOF, %s and self.startPrPos == old(lre[self.startPrPos]) and self._ldIndex == 0 '
                 'and self.startOfLr == self.startPrPos and self._ldTell == 0 and self._isLrStart)' % CUR],
        canaries=['self.isEOF', 'not self.isEOF'], crosscheck=False, timeout=15)
    c_.solver_order = ['z3-mbqi-short', 'z3-ematch', 'z3-default', 'z3-seed1']
    reg.add(c_)


def standins(tier, seed):
    """Round trips through the real writer and reader with every trailer option, TIF on/off, and random interleavings of
    read(n) / skip(n) / read-rest / seek-to-record; writer output compared with the independent encoder; strip_tif of a
    TIF-marked file equals the unmarked file.  The reader state machine (read/skip loops across physical records) is
    NOT under contract: this stand-in is its only coverage.  Bounded."""
    from pyvc import standin
    n = 120 if tier == 'quick' else 4000
    code = r'''
import io
from gen import lis
from TotalDepth.LIS.core import File, PhysRec
from TotalDepth import DeTif
rnd = random.Random(%d)
bad = []
cases = 0
for it in range(%d):
    nlr = rnd.randint(1, 5)
    lrs = [bytes(rnd.randrange(256) for _ in range(rnd.choice([2, 3, 10, 40, 100, 257]))) for _ in range(nlr)]
    has_rec, has_check = rnd.random() < 0.4, rnd.random() < 0.3
    file_num = rnd.choice([None, None, 3, 70000])
    tlen = (2 if has_rec else 0) + (2 if file_num is not None else 0) + (2 if has_check else 0)
    pr_len = rnd.choice([4 + tlen + 1, 4 + tlen + 7, 32 + tlen, 128, 65535])
    tif = rnd.random() < 0.5
    cases += 1
    why = None
    try:
        f = io.BytesIO()
        w = File.FileWrite(f, 'id', False, tif, pr_len, PhysRec.PhysRecTail(has_rec, file_num, has_check))
        tells = [w.write(lr) for lr in lrs]
        if tif:
            w._prh.tif.close(w._prh.stream)
        data = f.getvalue()
        want, starts = lis.build(lrs, pr_len, has_rec, file_num, has_check, tif)
        # compare ignoring checksum values (bytes the independent encoder writes as zero)
        if tells != starts:
            why = 'write positions %%r != %%r' %% (tells, starts)
        elif len(data) != len(want) or (not has_check and data != want):
            why = 'writer layout differs from LIS-79 layout'
        if why is None:
            r = File.FileRead(io.BytesIO(data), 'id', False)
            # sequential whole-record reads
            for k, lr in enumerate(lrs):
                got = r.readLrBytes()
                if got != lr or r.tellLr() != starts[k]:
                    why = 'sequential read of record %%d' %% k
                    break
        if why is None:
            # random interleavings
            for _ in range(6):
                k = rnd.randrange(nlr)
                r.seekLr(starts[k])
                acc = b''
                pos = 0
                lr = lrs[k]
                while pos < len(lr) and why is None:
                    op = rnd.choice(['read', 'skip', 'rest'])
                    sz = rnd.randint(0, 50)
                    if op == 'read':
                        got = r.readLrBytes(sz)
                        exp = lr[pos:pos + sz]
                        if (got or b'') != exp:
                            why = 'read(%%d) at %%d of record %%d' %% (sz, pos, k)
                        pos += len(exp)
                    elif op == 'skip':
                        got = r.skipLrBytes(sz)
                        exp = min(sz, len(lr) - pos)
                        if got != exp:
                            why = 'skip(%%d) at %%d of record %%d gave %%r' %% (sz, pos, k, got)
                        pos += exp
                    else:
                        got = r.readLrBytes()
                        if (got or b'') != lr[pos:]:
                            why = 'read-rest at %%d of record %%d' %% (pos, k)
                        pos = len(lr)
                # the record is used up: the next sized read / skip reports the end of the logical record (None / 0) instead of
                # running into the next record (a second one would move on to the next record: that is the reader's protocol)
                # (after a read-rest the trailer has been consumed and the next read starts the next record: not checked there)
                for _more in range(rnd.randint(0, 1) if op in ('read', 'skip') else 0):
                    if why is None:
                        if rnd.random() < 0.5:
                            got = r.readLrBytes(rnd.randint(1, 9))
                            if got not in (None, b''):
                                why = 'read after the end of record %%d returned %%r' %% (k, got)
                        else:
                            got = r.skipLrBytes(rnd.randint(1, 9))
                            if got not in (None, 0):
                                why = 'skip after the end of record %%d returned %%r' %% (k, got)
                if why is None and r.tellLr() != starts[k]:
                    why = 'tellLr() drifted to %%r after using up record %%d at %%d' %% (r.tellLr(), k, starts[k])
                if why:
                    break
        if why is None and tif:
            out = io.BytesIO()
            DeTif.strip_tif(io.BytesIO(data), out)
            plain, _ = lis.build(lrs, pr_len, has_rec, file_num, has_check, False)
            got = out.getvalue()
            if len(got) != len(plain) or (not has_check and got != plain):
                why = 'strip_tif output differs from the unmarked file'
    except Exception as e:
        why = 'exception %%r' %% (e,)
    if why and len(bad) < 3:
        bad.append({'iteration': it, 'why': why, 'lr_lengths': [len(x) for x in lrs], 'pr_len': pr_len, 'has_rec': has_rec,
                    'file_num': file_num, 'has_check': has_check, 'tif': tif})
print(json.dumps({'cases': cases, 'bad': bad}))
if bad:
    sys.exit(1)
''' % (seed, n)
    return [standin.run('lis-write-read-round-trips', 'bounded: random logical records / physical record lengths / trailer options / TIF; '
                        'random read(n), skip(n), read-rest, seek interleavings; independent LIS-79 encoder as layout oracle',
                        '%d files of 1..5 logical records of 2..257 bytes, 6 seek + interleaving rounds each' % n, code)]
