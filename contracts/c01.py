"""C01 — DLIS logical records are reassembled exactly from any physical layout."""
from pyvc.kinds import *
from pyvc.contract import Contract, Loop, Lemma
from contracts.dlis import *

SPEC1 = '''
def stream_ok(F, G, P, own, sg_pos, sg_len, sg_attr):
    """P is the concatenation, in file order, of the payloads of all segments; G[j] = payload bytes before segment j"""
    return (len(G) == len(sg_pos) + 1 and G[0] == 0 and len(P) == G[len(sg_pos)] and len(own) == len(P)
            and forall(0, len(sg_pos), lambda j: G[j + 1] == G[j] + plen(F, sg_pos[j], sg_len[j], sg_attr[j]) and G[j] >= 0 and G[j + 1] <= len(P),
                       trigger=lambda j: [sg_len[j]])
            # own[n] is THE segment whose byte range holds n (a consequence of G being non-decreasing, stated directly
            # so that no quadratic pairwise instantiation is needed)
            and forall_n(lambda n, j: implies(0 <= n and n < len(P) and 0 <= j and j < len(sg_pos) and G[j] <= n and n < G[j + 1], own[n] == j),
                         trigger=lambda n, j: (own[n], sg_len[j]))
            and forall(0, len(P), lambda n: 0 <= own[n] and own[n] < len(sg_pos) and G[own[n]] <= n and n < G[own[n] + 1]
                       and P[n] == F[sg_pos[own[n]] + 4 + (n - G[own[n]])], trigger=lambda n: [P[n], own[n]]))

def recs_ok(lr_first, lr_last, rec, sg_pos, sg_attr):
    """segments lr_first[k]..lr_last[k] are logical record k (first/last attribute bits); rec[j] = record of segment j"""
    return (len(lr_last) == len(lr_first) and len(rec) == len(sg_pos)
            and (len(lr_first) == 0) == (len(sg_pos) == 0)
            and implies(len(lr_first) > 0, lr_first[0] == 0 and lr_last[len(lr_first) - 1] == len(sg_pos) - 1)
            and forall(0, len(lr_first), lambda k: 0 <= lr_first[k] and lr_first[k] <= lr_last[k] and lr_last[k] < len(sg_pos),
                       trigger=lambda k: [lr_last[k]])
            and forall(0, len(lr_first) - 1, lambda k: lr_first[k + 1] == lr_last[k] + 1, trigger=lambda k: [lr_last[k]])
            # rec[j] is THE record whose segment range holds j (consequence of the ranges being disjoint and ordered)
            and forall_n(lambda j, k: implies(0 <= k and k < len(lr_first) and lr_first[k] <= j and j <= lr_last[k], rec[j] == k),
                         trigger=lambda j, k: (rec[j], lr_last[k]))
            and forall(0, len(sg_pos), lambda j: 0 <= rec[j] and rec[j] < len(lr_first)
                       and lr_first[rec[j]] <= j and j <= lr_last[rec[j]]
                       and (j == lr_last[rec[j]]) == (not bit(sg_attr[j], 5))
                       and (j == lr_first[rec[j]]) == (not bit(sg_attr[j], 6)), trigger=lambda j: [sg_attr[j], rec[j]]))
'''

FLDK = KRec('FileLogicalData', position=KRec('LogicalRecordPosition', vr_position=Int, lrsh_position=Int), lr_type=Int,
            lr_is_eflr=Bool, lr_is_encrypted=Bool, _bytes=NoneK, logical_data=KRec('LogicalData', bytes=Bytes, index=Int, _sha1=NoneK))
FLD = KRec('FileLogicalData', _bytes=Bytes, logical_data=NoneK)

GEN_SEQ = '''
import random
from gen import dlis, files

def gen(rnd, module):
    recs = dlis.random_records(rnd)
    data, lay = dlis.build(recs, rnd)
    f = files.CountingFile(data)
    fr = module.FileRead(f)
    fr._enter()
    S = len(lay['sg_pos'])
    G, P, own = [0], b'', []
    for j in range(S):
        G.append(G[-1] + len(lay['payload'][j]))
        own += [j] * len(lay['payload'][j])
        P += lay['payload'][j]
    lr_first = [j for j in range(S) if not (lay['sg_attr'][j] & 0x40)]
    lr_last = [j for j in range(S) if not (lay['sg_attr'][j] & 0x20)]
    g = dict(sg_pos=lay['sg_pos'], sg_len=lay['sg_len'], sg_attr=lay['sg_attr'], sg_type=lay['sg_type'],
             sg_vrp=lay['sg_vrp'], sg_vrl=lay['sg_vrl'], G=G, P=P, own=own, lr_first=lr_first, lr_last=lr_last, rec=lay['sg_lr'])
    g['self'] = fr
    return g
'''


def register(reg):
    register_physical(reg)
    reg.add_spec_source(SPEC1)
    for f in ('FileLogicalData.__init__', 'FileLogicalData._invariants', 'FileLogicalData.is_sealed', 'FileLogicalData.seal',
              'LogicalData.__init__', 'FileRead._set_file_and_read_first_visible_record',
              'FileRead._set_file_and_read_first_logical_record_segment_header'):
        reg.add(Contract(PF, f, inline=True))
    reg.add(Contract(PF, 'FileLogicalData.add_bytes', {'self': FLD, 'by': Bytes}, modifies=['self._bytes'],
                     ensures=['len(self._bytes) == len(old(self._bytes)) + len(by)',
                              'forall(0, len(self._bytes), lambda n: self._bytes[n] == (old(self._bytes)[n] if n < len(old(self._bytes))'
                              ' else by[n - len(old(self._bytes))]), trigger=lambda n: [self._bytes[n]])',
                              'is_none(self.logical_data)'],
                     canaries=['len(self._bytes) == 0'], crosscheck=False))
    G = dict(LAYOUT, G=KView(Int), P=Bytes, own=KView(Int), lr_first=KView(Int), lr_last=KView(Int), rec=KView(Int))
    STREAM = 'stream_ok(self.file.data, G, P, own, sg_pos, sg_len, sg_attr)'
    RECS = 'recs_ok(lr_first, lr_last, rec, sg_pos, sg_attr)'
    K = 'len(lr_first)'
    reg.add(Contract(
        PF, 'FileRead.iter_logical_records', {'self': FR}, ghost=G, ghost_init={'j': '0'}, yields=FLDK,
        # conformant file: the layout, the grouping into records, first visible record right after the 80-byte
        # label, nothing after the last segment
        requires=[LAYOUT_OK, STREAM, RECS, 'len(sg_pos) > 0', 'sg_vrp[0] == 80', 'sg_pos[0] == 84',
                  # consequences of the three predicates above for segment 0, stated to seed quantifier instantiation
                  'sg_len[0] >= 16 and rec[0] == 0 and lr_first[0] == 0 and lr_last[0] >= 0',
                  'sg_pos[len(sg_pos) - 1] + sg_len[len(sg_pos) - 1] == len(self.file.data)'],
        modifies=MOD_FILE + MOD_HDR + MOD_VR,
        ensures=['vr_ri(self.file.data, self.visible_record)', 'len(out) == ' + K,
                 'forall(0, len(out), lambda k: out[k].lr_type == sg_type[lr_first[k]] and out[k].lr_is_eflr == bit(sg_attr[lr_first[k]], 7)'
                 ' and out[k].lr_is_encrypted == bit(sg_attr[lr_first[k]], 4)'
                 ' and out[k].position.vr_position == sg_vrp[lr_first[k]] and out[k].position.lrsh_position == sg_pos[lr_first[k]]'
                 ' and len(out[k].logical_data.bytes) == G[lr_last[k] + 1] - G[lr_first[k]] and out[k].logical_data.index == 0)',
                 'forall_n(lambda k, i: implies(0 <= k and k < len(out) and 0 <= i and i < len(out[k].logical_data.bytes),'
                 ' out[k].logical_data.bytes[i] == P[G[lr_first[k]] + i]), trigger=lambda k, i: out[k].logical_data.bytes[i])'],
        loops=[
            Loop('while True', havoc_extra=['j'], kinds={'j': Int}, invariants=[
                'len(out) < ' + K, '0 <= j and j < len(sg_pos)', 'j == lr_first[len(out)]', 'j <= lr_last[len(out)]',
                'at(self, j, %s)' % LARGS, 'self.file.pos == sg_pos[j] + 4',
                'forall(0, len(out), lambda k: out[k].lr_type == sg_type[lr_first[k]] and out[k].lr_is_eflr == bit(sg_attr[lr_first[k]], 7)'
                ' and out[k].lr_is_encrypted == bit(sg_attr[lr_first[k]], 4)'
                ' and out[k].position.vr_position == sg_vrp[lr_first[k]] and out[k].position.lrsh_position == sg_pos[lr_first[k]]'
                ' and len(out[k].logical_data.bytes) == G[lr_last[k] + 1] - G[lr_first[k]] and out[k].logical_data.index == 0)',
                'forall_n(lambda k, i: implies(0 <= k and k < len(out) and 0 <= i and i < len(out[k].logical_data.bytes),'
                ' out[k].logical_data.bytes[i] == P[G[lr_first[k]] + i]), trigger=lambda k, i: out[k].logical_data.bytes[i])',
            ]),
            Loop('while not self.logical_record_segment_header.attributes.is_last', havoc_extra=['j', 'file_logical_data._bytes'],
                 kinds={'j': Int}, invariants=[
                'len(out) < ' + K, 'lr_first[len(out)] <= j and j <= lr_last[len(out)]', 'rec[j] == len(out)',
                'at(self, j, %s)' % LARGS, 'is_none(file_logical_data.logical_data)',
                'file_logical_data.lr_type == sg_type[lr_first[len(out)]]',
                'len(file_logical_data._bytes) == G[j + 1] - G[lr_first[len(out)]]',
                'forall(0, len(file_logical_data._bytes), lambda i: file_logical_data._bytes[i] == P[G[lr_first[len(out)]] + i])',
            ]),
        ],
        canaries=['len(out) == 0', 'len(out) == 1'], native_gen=GEN_SEQ, timeout=40))


TIMEOUT = {'quick': 25, 'thorough': 90}


def _pattern_literal(relfile, name):
    """The pattern literal of `NAME = re.compile(b'...')` read from the real source."""
    import ast
    from pyvc import source
    node = source.load(relfile).assigns[name]
    if not (isinstance(node, ast.Call) and ast.unparse(node.func) == 're.compile' and isinstance(node.args[0], ast.Constant)):
        raise ContractError('%s is not a re.compile(<literal>)' % name)
    return node.args[0].value


def extra_obligations(reg):
    """Storage unit label fields [RP66V1 2.3.2]: every conformant field text is accepted by the pattern in the source.
    Regular-language inclusion, decided by z3's regex theory on the pattern literal read from /repo."""
    import z3
    from pyvc import regex
    out = []
    s = z3.String('field')
    digit, nz = z3.Range(z3.StringVal('0'), z3.StringVal('9')), z3.Range(z3.StringVal('1'), z3.StringVal('9'))
    pad = z3.Star(z3.Union(z3.Re(z3.StringVal('0')), z3.Re(z3.StringVal(' '))))
    number = z3.Concat(pad, nz, z3.Star(digit))      # a positive integer, right-justified, zero or blank padded
    for name, width, conf in (('RE_STORAGE_UNIT_SEQUENCE_NUMBER', 4, number), ('RE_MAXIMUM_RECORD_LENGTH', 5, number),
                              ('RE_DLIS_VERSION', 5, z3.Concat(z3.Re(z3.StringVal('V1.')), digit, digit)),
                              ('RE_STORAGE_UNIT_STRUCTURE', 6, z3.Re(z3.StringVal('RECORD')))):
        lit = _pattern_literal(PF, 'StorageUnitLabel.' + name)
        lang = regex.match_lang(lit)
        hyp = [z3.Length(s) == width, z3.InRe(s, conf)]
        out.append(dict(name='pFile.py:StorageUnitLabel/%s-accepts-conformant' % name, pc=hyp, goal=z3.InRe(s, lang),
                        note='every conformant %d-character field matches %r' % (width, lit), func='StorageUnitLabel.__init__'))
        out.append(dict(name='pFile.py:StorageUnitLabel/%s-canary' % name, pc=[z3.Length(s) == width], goal=z3.InRe(s, lang),
                        note='must fail: not every string is accepted', func='StorageUnitLabel.__init__', expect_fail=True))
    return out


def standins(tier, seed):
    """StorageUnitLabel.__init__ end to end: each field's finite domain enumerated completely (the other fields fixed),
    identifiers sampled.  Exhaustive per field; not counted as proved."""
    import subprocess, json, os
    code = r'''
import sys, json, random
sys.path.insert(0, "%s/src")
from TotalDepth.RP66V1.core import pFile
rnd = random.Random(%d)
bad = []
n = 0
def lab(seq, ver, ml, ident):
    return seq + ver + b"RECORD" + ml + ident
ident0 = b"Default Storage Set".ljust(60)
def check(seq_txt, seq, ml_txt, ml, ident, ver=b"V1.00"):
    global n
    n += 1
    try:
        s = pFile.StorageUnitLabel(lab(seq_txt, ver, ml_txt, ident))
        ok = (s.storage_unit_sequence_number == seq and s.maximum_record_length == ml and s.storage_set_identifier == ident
              and s.dlis_version == ver and s.storage_unit_structure == b"RECORD")
    except Exception as e:
        ok = False
    if not ok and len(bad) < 5:
        bad.append([seq_txt.decode("latin-1"), ml_txt.decode("latin-1")])
for seq in range(1, 10000):
    for fill in (b" ", b"0"):
        check(str(seq).encode().rjust(4, fill), seq, b" 8192", 8192, ident0)
for ml in range(20, 16385):
    for fill in (b" ", b"0"):
        check(b"   1", 1, str(ml).encode().rjust(5, fill), ml, ident0)
for v in range(100):
    check(b"   1", 1, b" 8192", 8192, ident0, b"V1.%%02d" %% v)
for _ in range(%d):
    ident = bytes(rnd.randrange(256) for _ in range(60))
    check(b"  12", 12, b"16384", 16384, ident)
print(json.dumps({"cases": n, "bad": bad}))
''' % (os.environ.get('PYVC_REPO', '/repo'), seed, 300 if tier == 'quick' else 20000)
    p = subprocess.run(['/venv/bin/python', '-c', code], capture_output=True, text=True)
    try:
        r = json.loads(p.stdout.strip().split('\n')[-1])
    except Exception:
        r = {'cases': 0, 'bad': [['crash', (p.stdout + p.stderr)[-300:]]]}
    out = {'name': 'storage-unit-label-fields', 'kind': 'exhaustive per field (finite domains 1..9999, 20..16384, V1.00..V1.99), identifiers sampled',
           'bound': 'every sequence number and every maximum record length with blank and zero padding; %d random 60-byte identifiers' % (300 if tier == 'quick' else 20000),
           'cases': r['cases']}
    if r['bad']:
        out['violation'] = 'conformant storage unit label rejected or misreported: %s' % r['bad'][:3]
        out['witness'] = r['bad'][0]
        out['replay'] = ('#!/venv/bin/python\n"""Storage unit label %r is conformant (RP66V1 2.3.2) but is rejected or misreported"""\n'
                         'import sys\nsys.path.insert(0, "/repo/src")\nfrom TotalDepth.RP66V1.core import pFile\n'
                         'by = %r.encode("latin-1") + b"V1.00RECORD" + %r.encode("latin-1") + b"Default Storage Set".ljust(60)\n'
                         'try:\n    s = pFile.StorageUnitLabel(by)\n    print(s)\nexcept Exception as e:\n    print("REJECTED", e)\n    sys.exit(1)\n'
                         % (r['bad'][0], r['bad'][0][0], r['bad'][0][1]))
    return [out]
