"""C11 — conversion to LAS keeps exactly the selected frames, channels and values.
Kernel under contract: the selector arithmetic the converters rely on - Slice.last / Sample.last (used for the LAS STOP value
in the RP66V1 converter and for the frame range in the LIS and BIT converters) against the selection proved under C15.
End-to-end conversions are covered by the bounded stand-in."""
from pyvc.kinds import *
from pyvc.contract import Contract, Loop, Lemma
from contracts import c15

F = c15.F


def register(reg):
    # the frame selection the three converters rely on (count, first, step, indices of a slice with a positive or a negative
    # step, of a sample): the same contracts as C15, verified here too because C11's "exactly the selected frames" rests on them
    c15.register(reg)
    # "the last X ... of the rows actually written": last() must be the last index the selector generates
    reg.add(Contract(F, 'Slice.last', {'self': c15.SLICE, 'length': Int}, requires=c15.SLICE_REQ + ['sl_count(self._slice, length) > 0'],
                     returns=Int, ensures=['result == sl_elem(self._slice, length, sl_count(self._slice, length) - 1)'],
                     canaries=['result == 0'], domains={'length': [1, 2, 3, 5, 10]}))
    reg.add(Contract(F, 'Sample.last', {'self': c15.SAMPLE, 'length': Int}, requires=c15.SAMPLE_REQ + ['length > 0'], returns=Int,
                     ensures=['result == smp_elem(self._sample_size, length, smp_count(self._sample_size, length) - 1)'],
                     canaries=['result == 0'], domains={'length': [1, 2, 3, 5, 7, 10]}))


    # "each written value is the source value [under the chosen reduction]", "only the requested channels": the array section
    # writer all three converters end in (the C10 contracts: one token per frame and selected channel, in order)
    from contracts import c10
    c10.register(reg)


def standins(tier, seed):
    import os
    from pyvc import standin
    if not os.path.exists(os.path.join(standin.VERIF, 'standins', 'c11c12_tolas.py')):
        return []
    n = 12 if tier == 'quick' else 400
    return [standin.run_script('convert-to-las-end-to-end', 'c11c12_tolas.py', seed, n,
                               'bounded: generated RP66V1 / LIS / BIT files converted by the real single_*_to_las functions with every kind of '
                               'slice / sample / channel subset / reduction / width / format, output parsed with LASRead',
                               '%d source files per format' % n, extra_args=['--part', 'c11'])]
