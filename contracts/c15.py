"""C15 — frame slice and sample selectors select what they say (common/Slice.py)."""
from pyvc.kinds import *
from pyvc.contract import Contract, Loop

F = 'src/TotalDepth/common/Slice.py'

# Spec of Python slicing for step >= 1 (the property's domain), written independently of slice.indices:
# list(range(n))[s:e:t] has elements lo + j*t for 0 <= j < ceil((hi - lo)/t) where lo, hi are the bounds
# moved into 0..n (negative values count from the end).  Python Language Reference 3.3.1 / 6.3.3.
SPEC = '''
def sl_bound(b, n, dflt):
    return dflt if b is None else ((b + n if b + n > 0 else 0) if b < 0 else (b if b < n else n))

def sl_step(t):
    return 1 if t is None else t

def sl_lo(sl, n):
    return sl_bound(sl.start, n, 0)

def sl_hi(sl, n):
    return sl_bound(sl.stop, n, n)

def sl_count(sl, n):
    return (sl_hi(sl, n) - sl_lo(sl, n) + sl_step(sl.step) - 1) // sl_step(sl.step) if sl_hi(sl, n) > sl_lo(sl, n) else 0

def sl_elem(sl, n, j):
    return sl_lo(sl, n) + j * sl_step(sl.step)

def smp_count(N, n):
    return N if n > N else n

def smp_elem(N, n, j):
    return (j * n) // N if n > N else j
'''

SLICE = KRec('Slice', _slice=KRec('slice', start=KOpt(Int), stop=KOpt(Int), step=KOpt(Int)))
SLICE_REQ = ['length >= 0', 'implies(not (self._slice.step is None), self._slice.step >= 1)']
SAMPLE = KRec('Sample', _sample_size=Int)
SAMPLE_REQ = ['self._sample_size >= 1', 'length >= 0']


def register(reg):
    reg.add_spec_source(SPEC)
    P = 'C15'
    # ---------------------------------------------------------------- Slice
    reg.add(Contract(F, 'Slice.gen_indices', {'self': SLICE, 'length': Int}, requires=SLICE_REQ, yields=Int,
                     ensures=['len(out) == sl_count(self._slice, length)',
                              'forall(0, len(out), lambda j: out[j] == sl_elem(self._slice, length, j))',
                              # what Python slicing means: in range, inside the requested bounds, on the step grid
                              'forall(0, len(out), lambda j: 0 <= out[j] and out[j] < length)',
                              ],
                     canaries=['len(out) == 0', 'len(out) > 0']))
    reg.add(Contract(F, 'Slice.first', {'self': SLICE, 'length': Int}, requires=SLICE_REQ, returns=Int,
                     ensures=['result == sl_lo(self._slice, length)',
                              'implies(sl_count(self._slice, length) > 0, result == sl_elem(self._slice, length, 0))'],
                     canaries=['result == 0']))
    reg.add(Contract(F, 'Slice.step', {'self': SLICE, 'length': Int}, requires=SLICE_REQ, returns=Int,
                     ensures=['result == sl_step(self._slice.step)'], canaries=['result == 1']))
    reg.add(Contract(F, 'Slice.count', {'self': SLICE, 'length': Int}, requires=SLICE_REQ, returns=Int,
                     ensures=['result == sl_count(self._slice, length)'], canaries=['result == 0']))
    reg.add(Contract(F, 'Slice.indices', {'self': SLICE, 'length': Int}, requires=SLICE_REQ, returns=KView(Int),
                     ensures=['len(result) == sl_count(self._slice, length)',
                              'forall(0, len(result), lambda j: result[j] == sl_elem(self._slice, length, j))'],
                     canaries=['len(result) == 0']))
    # ---------------------------------------------------------------- Sample
    reg.add(Contract(F, 'Sample.__init__', {'self': KRec('Sample'), 'sample_size': Int},
                     raises={'ValueError': 'sample_size < 1'}, modifies=['self._sample_size'],
                     ensures=['self._sample_size == sample_size']))
    reg.add(Contract(
        F, 'Sample.gen_indices', {'self': SAMPLE, 'length': Int}, requires=SAMPLE_REQ, yields=Int,
        ensures=['len(out) == smp_count(self._sample_size, length)',
                 'forall(0, len(out), lambda j: out[j] == smp_elem(self._sample_size, length, j))'],
        loops=[Loop('while index < length', invariants=[
            '0 <= remainder and remainder < self._sample_size',
            'index * self._sample_size + remainder == len(out) * length',
            'len(out) <= self._sample_size',
            'forall(0, len(out), lambda j: out[j] == (j * length) // self._sample_size)',
            'int_incr * self._sample_size + rem_incr == length and 0 <= rem_incr and rem_incr < self._sample_size',
            'length > self._sample_size',
        ], decreases='length - index')],
        canaries=['len(out) == 0', 'len(out) != length']))
    # consequences the property names, as lemmas over the generator's postcondition (proved from the spec alone)
    reg.add(Contract(F, 'Sample.indices', {'self': SAMPLE, 'length': Int}, requires=SAMPLE_REQ, returns=KView(Int),
                     ensures=['len(result) == smp_count(self._sample_size, length)',
                              'forall(0, len(result), lambda j: result[j] == smp_elem(self._sample_size, length, j))',
                              'implies(len(result) > 0, result[0] == 0)',
                              'forall(0, len(result), lambda j: 0 <= result[j] and result[j] < length)',
                              'forall(0, len(result) - 1, lambda j: result[j] < result[j + 1])',
                              'forall(0, len(result) - 1, lambda j: result[j + 1] - result[j] == length // self._sample_size'
                              ' or result[j + 1] - result[j] == length // self._sample_size + 1 or length <= self._sample_size)',
                              'forall(0, len(result) - 1, lambda j: implies(length <= self._sample_size, result[j + 1] - result[j] == 1))',
                              ],
                     canaries=['len(result) == 0']))
    reg.add(Contract(F, 'Sample.count', {'self': SAMPLE, 'length': Int}, requires=SAMPLE_REQ, returns=Int,
                     ensures=['result == smp_count(self._sample_size, length)'], canaries=['result == 0']))
    reg.add(Contract(F, 'Sample.first', {'self': SAMPLE, 'length': Int}, requires=SAMPLE_REQ, returns=Int,
                     ensures=['result == 0'], canaries=['result == 1']))
