"""C15 — frame slice and sample selectors select what they say (common/Slice.py)."""
from pyvc.kinds import *
from pyvc.contract import Contract, Loop

F = 'src/TotalDepth/common/Slice.py'

# Spec of Python slicing for step >= 1 (the property's domain), written independently of slice.indices:
# list(range(n))[s:e:t] has elements lo + j*t for 0 <= j < ceil((hi - lo)/t) where lo, hi are the bounds
# moved into 0..n (negative values count from the end).  Python Language Reference 3.3.1 / 6.3.3.
SPEC = '''
def sl_bound(b, n, dflt):
    return dflt if b is None else ((b + n if b + n > 0 else 0) if b < 0 else (b if b < n else n))

def sl_step(t):
    return 1 if t is None else t

def sl_lo(sl, n):
    return sl_bound(sl.start, n, 0)

def sl_hi(sl, n):
    return sl_bound(sl.stop, n, n)

def sl_count(sl, n):
    return (sl_hi(sl, n) - sl_lo(sl, n) + sl_step(sl.step) - 1) // sl_step(sl.step) if sl_hi(sl, n) > sl_lo(sl, n) else 0

def sl_elem(sl, n, j):
    return sl_lo(sl, n) + j * sl_step(sl.step)

# negative steps (outside C15's stated domain, but the selectors are used with them by the converters, C04 / C11):
# Python Language Reference 3.3.1: missing start = n-1, missing stop = "before index 0"; bounds clipped into -1..n-1
def sn_bound(b, n, dflt):
    return dflt if b is None else ((b + n if b + n > -1 else -1) if b < 0 else (b if b < n else n - 1))

def sn_lo(sl, n):
    return sn_bound(sl.start, n, n - 1)

def sn_hi(sl, n):
    return sn_bound(sl.stop, n, -1)

def sn_step(t):
    return -1 if t is None else t

def sn_count(sl, n):
    return (sn_lo(sl, n) - sn_hi(sl, n) - sn_step(sl.step) - 1) // (0 - sn_step(sl.step)) if sn_lo(sl, n) > sn_hi(sl, n) else 0

def sn_elem(sl, n, j):
    return sn_lo(sl, n) + j * sn_step(sl.step)

def smp_count(N, n):
    return N if n > N else n

def smp_elem(N, n, j):
    return (j * n) // N if n > N else j
'''

SLICE = KRec('Slice', _slice=KRec('slice', start=KOpt(Int), stop=KOpt(Int), step=KOpt(Int)))
SLICE_REQ = ['length >= 0', 'implies(not (self._slice.step is None), self._slice.step >= 1)']
SAMPLE = KRec('Sample', _sample_size=Int)
SAMPLE_REQ = ['self._sample_size >= 1', 'length >= 0']


def register(reg):
    reg.add_spec_source(SPEC)
    P = 'C15'
    # ---------------------------------------------------------------- Slice
    reg.add(Contract(F, 'Slice.gen_indices', {'self': SLICE, 'length': Int}, requires=SLICE_REQ, yields=Int,
                     ensures=['len(out) == sl_count(self._slice, length)',
                              'forall(0, len(out), lambda j: out[j] == sl_elem(self._slice, length, j))',
                              # what Python slicing means: in range, inside the requested bounds, on the step grid
                              'forall(0, len(out), lambda j: 0 <= out[j] and out[j] < length)',
                              ],
                     canaries=['len(out) == 0', 'len(out) > 0']))
    reg.add(Contract(F, 'Slice.first', {'self': SLICE, 'length': Int}, requires=SLICE_REQ, returns=Int,
                     ensures=['result == sl_lo(self._slice, length)',
                              'implies(sl_count(self._slice, length) > 0, result == sl_elem(self._slice, length, 0))'],
                     canaries=['result == 0']))
    reg.add(Contract(F, 'Slice.step', {'self': SLICE, 'length': Int}, requires=SLICE_REQ, returns=Int,
                     ensures=['result == sl_step(self._slice.step)'], canaries=['result == 1']))
    reg.add(Contract(F, 'Slice.count', {'self': SLICE, 'length': Int}, requires=SLICE_REQ, returns=Int,
                     ensures=['result == sl_count(self._slice, length)'], canaries=['result == 0']))
    reg.add(Contract(F, 'Slice.indices', {'self': SLICE, 'length': Int}, requires=SLICE_REQ, returns=KView(Int),
                     ensures=['len(result) == sl_count(self._slice, length)',
                              'forall(0, len(result), lambda j: result[j] == sl_elem(self._slice, length, j))'],
                     canaries=['len(result) == 0']))
    NEG_REQ = ['length >= 0', 'not (self._slice.step is None)', 'self._slice.step <= -1']
    GNEG = Contract(F, 'Slice.gen_indices', {'self': SLICE, 'length': Int}, name='Slice.gen_indices[negative step]', requires=NEG_REQ, yields=Int,
                    ensures=['len(out) == sn_count(self._slice, length)',
                             'forall(0, len(out), lambda j: out[j] == sn_elem(self._slice, length, j))',
                             'forall(0, len(out), lambda j: 0 <= out[j] and out[j] < length)'],
                    canaries=['len(out) == 0', 'len(out) > 0'])
    reg.add(GNEG, callable_=False)
    # inside the negative-step variants the generator is called through its negative-step contract
    reg.add_alternative(GNEG, lambda eng, fn, args, st: bool(eng.frames) and eng.frames[0].contract is not None
                        and '[negative step]' in eng.frames[0].contract.name)
    reg.add(Contract(F, 'Slice.count', {'self': SLICE, 'length': Int}, name='Slice.count[negative step]', requires=NEG_REQ, returns=Int,
                     ensures=['result == sn_count(self._slice, length)'], canaries=['result == 0']), callable_=False)
    reg.add(Contract(F, 'Slice.indices', {'self': SLICE, 'length': Int}, name='Slice.indices[negative step]', requires=NEG_REQ, returns=KView(Int),
                     ensures=['len(result) == sn_count(self._slice, length)',
                              'forall(0, len(result), lambda j: result[j] == sn_elem(self._slice, length, j))'],
                     canaries=['len(result) == 0']), callable_=False)
    # ---------------------------------------------------------------- Sample
    reg.add(Contract(F, 'Sample.__init__', {'self': KRec('Sample'), 'sample_size': Int},
                     raises={'ValueError': 'sample_size < 1'}, modifies=[('self._sample_size', Int)],
                     ensures=['self._sample_size == sample_size']))
    reg.add(Contract(
        F, 'Sample.gen_indices', {'self': SAMPLE, 'length': Int}, requires=SAMPLE_REQ, yields=Int,
        ensures=['len(out) == smp_count(self._sample_size, length)',
                 'forall(0, len(out), lambda j: out[j] == smp_elem(self._sample_size, length, j))'],
        loops=[Loop('while index < length', invariants=[
            '0 <= remainder and remainder < self._sample_size',
            'index * self._sample_size + remainder == len(out) * length',
            'len(out) <= self._sample_size',
            'forall(0, len(out), lambda j: out[j] == (j * length) // self._sample_size)',
            'int_incr * self._sample_size + rem_incr == length and 0 <= rem_incr and rem_incr < self._sample_size',
            'length > self._sample_size',
        ], decreases='length - index')],
        canaries=['len(out) == 0', 'len(out) != length']))
    # consequences the property names, as lemmas over the generator's postcondition (proved from the spec alone)
    reg.add(Contract(F, 'Sample.indices', {'self': SAMPLE, 'length': Int}, requires=SAMPLE_REQ, returns=KView(Int),
                     ensures=['len(result) == smp_count(self._sample_size, length)',
                              'forall(0, len(result), lambda j: result[j] == smp_elem(self._sample_size, length, j))',
                              'implies(len(result) > 0, result[0] == 0)',
                              'forall(0, len(result), lambda j: 0 <= result[j] and result[j] < length)',
                              'forall(0, len(result) - 1, lambda j: result[j] < result[j + 1])',
                              'forall(0, len(result) - 1, lambda j: result[j + 1] - result[j] == length // self._sample_size'
                              ' or result[j + 1] - result[j] == length // self._sample_size + 1 or length <= self._sample_size)',
                              'forall(0, len(result) - 1, lambda j: implies(length <= self._sample_size, result[j + 1] - result[j] == 1))',
                              ],
                     canaries=['len(result) == 0']))
    reg.add(Contract(F, 'Sample.count', {'self': SAMPLE, 'length': Int}, requires=SAMPLE_REQ, returns=Int,
                     ensures=['result == smp_count(self._sample_size, length)'], canaries=['result == 0']))
    reg.add(Contract(F, 'Sample.first', {'self': SAMPLE, 'length': Int}, requires=SAMPLE_REQ, returns=Int,
                     ensures=['result == 0'], canaries=['result == 1']))


    # ---------------------------------------------------------------- option string parser (string builtins abstract)
    reg.add(Contract(F, 'Slice.__init__', {'self': KRec('Slice'), 'start': KOpt(Int), 'stop': KOpt(Int), 'step': KOpt(Int)},
                     modifies=[('self._slice', KRec('slice', start=KOpt(Int), stop=KOpt(Int), step=KOpt(Int)))],
                     ensures=['self._slice.start == start', 'self._slice.stop == stop', 'self._slice.step == step'],
                     loops=[Loop("for name in ('start', 'stop', 'step')", unroll=True)], crosscheck=False))
    PART = ('(is_none({f}) if (py_strip(split_part(slice_string, {i})) == "None" or py_strip(split_part(slice_string, {i})) == "")'
            ' else ({f} == py_int(py_strip(split_part(slice_string, {i})))))')
    BADPART = ('(py_strip(split_part(slice_string, {i})) != "None" and py_strip(split_part(slice_string, {i})) != ""'
               ' and not py_int_ok(py_strip(split_part(slice_string, {i}))))')
    reg.add(Contract(
        F, 'create_slice_or_sample', {'slice_string': Str},
        raises={'ValueError':
                # a comma: wrong number of parts, or a part that is neither absent ('' / 'None') nor an integer
                '(contains(slice_string, ",") and (split_len(slice_string) != 3 or exists(0, split_len(slice_string), lambda k:'
                ' py_strip(split_part(slice_string, k)) != "None" and py_strip(split_part(slice_string, k)) != ""'
                ' and not py_int_ok(py_strip(split_part(slice_string, k))))))'
                # no comma: not an integer, or a sample size below one
                ' or (not contains(slice_string, ",") and (not py_int_ok(slice_string) or py_int(slice_string) < 1))'},
        ensures=['cls_is(result, "Slice") == contains(slice_string, ",")', 'cls_is(result, "Sample") == (not contains(slice_string, ","))',
                 '((%s) and (%s) and (%s)) if cls_is(result, "Slice") else (result._sample_size == py_int(slice_string))'
                 % (PART.format(f='result._slice.start', i=0), PART.format(f='result._slice.stop', i=1), PART.format(f='result._slice.step', i=2))],
        canaries=['cls_is(result, "Slice")', 'cls_is(result, "Sample")'], crosscheck=False))


def standins(tier, seed):
    """create_slice_or_sample on real strings (split / strip / int are abstract in the proof): all strings over a small
    alphabet against an independent reference parser; Slice vs Python slicing exhaustively for small n."""
    from pyvc import standin
    maxlen = 6 if tier == 'quick' else 8
    code = r'''
import itertools, re
from TotalDepth.common import Slice
INT = re.compile(r'^[+-]?[0-9]+$')
def ref(s):
    """reference parser written from the option's documentation"""
    if ',' in s:
        parts = [p.strip() for p in s.split(',')]
        if len(parts) != 3:
            return 'error'
        vals = []
        for p in parts:
            if p in ('', 'None'):
                vals.append(None)
            elif INT.match(p):
                vals.append(int(p))
            else:
                return 'error'
        return ('slice', tuple(vals))
    p = s.strip()
    if not INT.match(p) or int(p) < 1:
        return 'error'
    return ('sample', int(p))
bad = []
cases = 0
ALPHA = '1-, Nonex'
for n in range(0, %d):
    for tup in itertools.product(ALPHA, repeat=n):
        s = ''.join(tup)
        if n >= 5 and s.count(',') not in (0, 2, 3):
            continue
        cases += 1
        want = ref(s)
        try:
            r = Slice.create_slice_or_sample(s)
            got = ('slice', (r._slice.start, r._slice.stop, r._slice.step)) if isinstance(r, Slice.Slice) else ('sample', r._sample_size)
        except ValueError:
            got = 'error'
        except Exception as e:
            got = 'exception %%r' %% (e,)
        if got != want and len(bad) < 5:
            bad.append({'option_string': s, 'got': repr(got), 'want': repr(want)})
# Slice against Python slicing, Sample against its statement, exhaustively for small n.  One selector object is applied to
# sequences of several lengths, shorter and longer ones in turn, as the converters do with the one --frame-slice selector they
# are given: its answers must not depend on what it was asked before
LENGTHS = list(range(0, 9)) + [6, 3, 8, 0, 5, 2, 7]
for start in [None] + list(range(-10, 11)):
    for stop in [None] + list(range(-10, 11)):
        for step in [None, 1, 2, 3, 7]:
            sl = Slice.Slice(start, stop, step)
            for n in LENGTHS:
                cases += 1
                want = list(range(n))[start:stop:step]
                if sl.indices(n) != want or list(sl.gen_indices(n)) != want or sl.count(n) != len(want) or (want and sl.first(n) != want[0]):
                    if len(bad) < 5:
                        bad.append({'slice': [start, stop, step], 'n': n, 'lengths_asked_in_this_order': LENGTHS})
                    break
for N in range(1, 12):
    sm = Slice.Sample(N)
    for n in LENGTHS:
        cases += 1
        idx = sm.indices(n)
        gaps = [b - a for a, b in zip(idx, idx[1:])]
        if len(idx) != min(N, n) or (idx and idx[0] != 0) or any(g <= 0 for g in gaps) or (gaps and max(gaps) - min(gaps) > 1) \
                or sm.count(n) != len(idx) or list(sm.gen_indices(n)) != idx or any(i >= n for i in idx):
            if len(bad) < 5:
                bad.append({'sample': N, 'n': n, 'indices': idx})
            break
print(json.dumps({'cases': cases, 'bad': bad}))
if bad:
    sys.exit(1)
''' % (maxlen + 1)
    return [standin.run('option-strings-and-small-selectors', 'bounded: all option strings over the alphabet "1-, Nonex" up to length %d; '
                        'all slices with start, stop in -10..10 or absent, step in {absent,1,2,3,7}, n in 0..8; samples 1..11' % maxlen,
                        'strings up to length %d; n <= 8' % maxlen, code)]
