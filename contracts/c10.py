"""C10 — LAS written by TotalDepth reads back as the same log (LAS/core/WriteLAS.py).
Kernel: the channel-selection conditions of the three section writers are read out of the real source (the `if` inside each
`for c, channel in enumerate(frame_array.channels)` loop) and proved to select the same channels - the first channel plus the
requested subset - once the X axis has been added to the subset.  Printing precision and the whole write/read round trip
are covered by the bounded stand-in."""
import ast
from pyvc.kinds import *
from pyvc.contract import Contract, Loop, Lemma, ContractError

WL = 'src/TotalDepth/LAS/core/WriteLAS.py'
LEVEL = 'proof'
ASSUMPTIONS = ['channel idents are left unchanged by _stringify (str idents) and are distinct within a frame array (FrameArray.append enforces it)',
               'each writer visits frame_array.channels once, in order, and writes one field per channel whose condition holds (loop structure read, not proved)']


def _requested():
    import z3
    from pyvc.engine import AbsSet
    mem = z3.Function('requested', z3.IntSort(), z3.BoolSort())     # membership in the requested subset
    empty = z3.Bool('requested_is_empty')
    return AbsSet(lambda e: mem(to_int(e)), empty), mem, empty


def register(reg):
    # the helper the two array-section writers call first: the X axis joins a non-empty subset, an empty subset ("all
    # channels") stays empty, nothing else changes - verified on the real body; this is the set S2 of extra_obligations
    S, mem, empty = _requested()
    FA = KRec('FrameArray', x_axis=KRec('FrameChannel', ident=Int))
    reg.add(Contract(WL, '_add_x_axis_to_channels_to_write', {'frame_array': FA, 'channel_name_sub_set': S},
                     assume=['implies(len(channel_name_sub_set) == 0, forall_n(lambda t: not (t in channel_name_sub_set)))'],
                     ensures=['forall_n(lambda t: (t in final_channel_name_sub_set) == ((t in channel_name_sub_set) or '
                              '(len(channel_name_sub_set) != 0 and t == frame_array.x_axis.ident)))',
                              '(len(final_channel_name_sub_set) == 0) == (len(channel_name_sub_set) == 0)'],
                     canaries=['len(final_channel_name_sub_set) == 0'], crosscheck=False))


def _channel_condition(fname):
    """The test of the first `if` directly inside `for c, channel in enumerate(frame_array.channels)` of function fname."""
    from pyvc import source
    fn = source.load(WL).functions[fname]
    for node in ast.walk(fn):
        if isinstance(node, ast.For) and ast.unparse(node.iter) == 'enumerate(frame_array.channels)' and ast.unparse(node.target) == '(c, channel)':
            for st in node.body:
                if isinstance(st, ast.If):
                    return st.test
                if isinstance(st, ast.Assign):
                    continue
                break
    raise ContractError('selection condition of %s not found (loop over enumerate(frame_array.channels) with a leading if)' % fname)


def extra_obligations(reg):
    import z3
    from pyvc import source
    from pyvc.engine import Engine, State, Frame, AbsSet
    from pyvc.kinds import Rec, Fn
    mod = source.load(WL)
    eng = Engine(reg, 'C10')
    ident = z3.Function('ident', z3.IntSort(), z3.IntSort())       # ident of channel c (idents compared for equality only)
    mem = z3.Function('requested', z3.IntSort(), z3.BoolSort())     # membership in the requested subset
    empty = z3.Bool('requested_is_empty')
    c = z3.Int('c')
    x = ident(0)

    def cond(fname, S):
        st = State()
        st.env.update({'c': c, 'channel': Rec('FrameChannel', {'ident': ident(c)}), 'channels': S, 'channel_name_sub_set': S,
                       'channel_ident_as_str': ident(c),
                       '_stringify': Fn(lambda e, s, a, k, n: [(s, a[0])], '_stringify')})
        fr = Frame(mod, fname, None)
        eng.frames.append(fr)
        eng.sinks.append([])
        eng.pure += 1
        try:
            v = eng.ev(_channel_condition(fname), st)[0][1]
        finally:
            eng.pure -= 1
            eng.sinks.pop()
            eng.frames.pop()
        return to_bool_term(eng.truth(v)), st.pc

    S = AbsSet(lambda e: mem(to_int(e)), empty)
    # the subset after _add_x_axis_to_channels_to_write: x is added iff the subset is not empty
    S2 = AbsSet(lambda e: z3.Or(mem(to_int(e)), z3.And(z3.Not(empty), to_int(e) == x)), empty)
    curve, pc1 = cond('write_curve_section_to_las', S)
    head, pc2 = cond('write_array_section_header_to_las', S2)
    data, pc3 = cond('write_array_section_data_to_las', S2)
    j, k = z3.Ints('j k')
    hyp = [c >= 0, z3.ForAll([j, k], z3.Implies(z3.And(j >= 0, k >= 0, ident(j) == ident(k)), j == k)),
           z3.Implies(empty, z3.ForAll([j], z3.Not(mem(j))))] + pc1 + pc2 + pc3
    spec = z3.Or(empty, c == 0, mem(ident(c)))      # "the first channel plus the requested subset"
    out = []
    for nm, f in (('curve-section', curve), ('array-heading', head), ('data-rows', data)):
        out.append(dict(name='WriteLAS.py:channel-selection/%s-lists-first-channel-plus-subset' % nm, pc=hyp, goal=f == spec,
                        note='condition read from the source: %s' % nm, func='write_curve_and_array_section_to_las'))
    out.append(dict(name='WriteLAS.py:channel-selection/canary', pc=hyp, goal=data == mem(ident(c)), note='must fail', expect_fail=True,
                    func='write_curve_and_array_section_to_las'))
    # _add_x_axis_to_channels_to_write does what S2 models: verified on the real body
    return out


def standins(tier, seed):
    from pyvc import standin
    n = 60 if tier == 'quick' else 3000
    return [standin.run_script('las-write-read-round-trip', 'c09c10_las.py', seed, n,
                               'bounded: generated frame arrays written with WriteLAS and read back with LASRead; text-level check that curve '
                               'section, heading and every data row list the same channels', '%d frame arrays: 1..15 channels, all dtypes and '
                               'dimensions, 5 reductions, field widths 2..40, formats .0f...9f/e/g' % n, extra_args=['--part', 'c10'])]
