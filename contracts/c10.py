"""C10 — LAS written by TotalDepth reads back as the same log (LAS/core/WriteLAS.py).
Kernel: the channel-selection conditions of the three section writers are read out of the real source (the `if` inside each
`for c, channel in enumerate(frame_array.channels)` loop) and proved to select the same channels - the first channel plus the
requested subset - once the X axis has been added to the subset.  Printing precision and the whole write/read round trip
are covered by the bounded stand-in."""
import ast
from pyvc.kinds import *
from pyvc.contract import Contract, Loop, Lemma, ContractError

WL = 'src/TotalDepth/LAS/core/WriteLAS.py'
LEVEL = 'proof'
ASSUMPTIONS = ['channel idents are left unchanged by _stringify (str idents) and are distinct within a frame array (FrameArray.append enforces it)',
               'each writer visits frame_array.channels once, in order, and writes one field per channel whose condition holds (loop structure read, not proved)']


def _requested():
    import z3
    from pyvc.engine import AbsSet
    mem = z3.Function('requested', z3.IntSort(), z3.BoolSort())     # membership in the requested subset
    empty = z3.Bool('requested_is_empty')
    return AbsSet(lambda e: mem(to_int(e)), empty), mem, empty


def register(reg):
    # the helper the two array-section writers call first: the X axis joins a non-empty subset, an empty subset ("all
    # channels") stays empty, nothing else changes - verified on the real body; this is the set S2 of extra_obligations
    S, mem, empty = _requested()
    FA = KRec('FrameArray', x_axis=KRec('FrameChannel', ident=Int))
    reg.add(Contract(WL, '_add_x_axis_to_channels_to_write', {'frame_array': FA, 'channel_name_sub_set': S},
                     assume=['implies(len(channel_name_sub_set) == 0, forall_n(lambda t: not (t in channel_name_sub_set)))'],
                     ensures=['forall_n(lambda t: (t in final_channel_name_sub_set) == ((t in channel_name_sub_set) or '
                              '(len(channel_name_sub_set) != 0 and t == frame_array.x_axis.ident)))',
                              '(len(final_channel_name_sub_set) == 0) == (len(channel_name_sub_set) == 0)'],
                     canaries=['len(final_channel_name_sub_set) == 0'], crosscheck=False, inline_at_calls=True))
    register_data_rows(reg)


def register_data_rows(reg):
    """write_array_section_data_to_las, the whole function: the strings written to the stream are, for every frame in order,
    for every selected channel in frame-array order, [a blank unless it is the first channel,] the formatted reduction of that
    channel's row of that frame, then a newline; nothing else is written and nothing written before is touched.  The stream
    is the sequence of strings written (TextIO log), an array is the sequence of its rows (ids) and its dtype, the text of a
    formatted value is an uninterpreted function of (format skeleton, value, embedded width / precision), array_reduce is an
    uninterpreted function of (row, method): which characters are printed is the stand-in's business, WHAT is printed, WHERE
    and HOW OFTEN is decided here."""
    S, mem, empty = _requested()
    ARR = KRec('ndarray', rows=KView(Int), dtype=Int)
    CH = KRec('FrameChannel', ident=Int, array=ARR)
    FA = KRec('FrameArray', channels=KView(CH))
    OUT = KRec('TextIO', log=KView(Str))
    reg.add_spec_source('''
def sel(frame_array, S, c):
    """channel c is written: everything when nothing is requested, else the first channel and the requested ones"""
    return len(S) == 0 or (frame_array.channels[c].ident in S) or frame_array.channels[c].ident == frame_array.channels[0].ident

def tok(frame_array, c, f, method, width, fmt):
    return (pyfmt('{}.0f', uf_real('reduce', frame_array.channels[c].array.rows[f], method), width)
            if np_is_integer(frame_array.channels[c].array.dtype)
            else pyfmt('{}{}', uf_real('reduce', frame_array.channels[c].array.rows[f], method), width, fmt))

def rows_nl(log, P, RB, n, upto):
    """rows 0..upto-1 end with a newline"""
    return forall(0, upto, lambda f: log[RB[f] + P[n]] == "\\n", trigger=lambda f: [RB[f]])

def rows_tok(log, frame_array, S, P, RB, n, upto, kk, method, width, fmt):
    """rows 0..upto-1 are in the log, and of row `upto` the channels 0..kk-1: the token of every selected channel at its place,
    a blank before it unless it is the first"""
    return forall_n(lambda f, c: implies(0 <= f and f <= upto and 0 <= c and c < (n if f < upto else kk) and sel(frame_array, S, c),
                    log[RB[f] + P[c + 1] - 1] == tok(frame_array, c, f, method, width, fmt)
                    and implies(c > 0, log[RB[f] + P[c]] == " ")), trigger=lambda f, c: (RB[f], P[c]))
''')
    reg.add(Contract(WL, '_check_float_decimal_places_format', {'float_decimal_places_format': Str},
                     raises={'ValueError': 'not uf_bool("float_format_ok", float_decimal_places_format)'}, trusted=True,
                     note='which precision texts are accepted is the regular expression\'s business (not stated here)'), verify=False)
    reg.add(Contract(WL, 'array_reduce', {'array': Int, 'method': Str}, returns=Real, ensures=['result == uf_real("reduce", array, method)'],
                     trusted=True, note='numpy reduction of one row: an uninterpreted function of (row, method)'), verify=False)
    N = 'len(frame_array.channels)'
    F = 'len(frame_array.channels[0].array.rows)'
    LOG = 'out_stream.log'
    ARGS = 'array_reduction, field_width, float_decimal_places_format'
    GEOM = ['len(P) == %s + 1' % N, 'P[0] == 0',
            'forall(0, %s, lambda c: P[c + 1] == P[c] + (0 if not sel(frame_array, channel_name_sub_set, c) else (1 if c == 0 else 2)), trigger=lambda c: [P[c]])' % N,
            'len(RB) == %s + 1' % F, 'RB[0] == len(%s)' % LOG,
            'forall(0, %s, lambda f: RB[f + 1] == RB[f] + P[%s] + 1, trigger=lambda f: [RB[f]])' % (F, N),
            # consequences of the two recurrences (stated, because the solver does no induction): offsets grow along a row and
            # rows do not overlap
            'forall_n(lambda c, d: implies(0 <= c and c <= d and d <= %s, P[c] <= P[d]), trigger=lambda c, d: (P[c], P[d]))' % N,
            'forall_n(lambda f, g: implies(0 <= f and f < g and g <= %s, RB[f] + P[%s] + 1 <= RB[g]), trigger=lambda f, g: (RB[f], RB[g]))' % (F, N)]
    KEEP = 'forall(0, len(old(%s)), lambda i: %s[i] == old(%s)[i])' % (LOG, LOG, LOG)
    reg.add(Contract(
        WL, 'write_array_section_data_to_las',
        {'frame_array': FA, 'array_reduction': Str, 'channel_name_sub_set': S, 'field_width': Int, 'float_decimal_places_format': Str, 'out_stream': OUT},
        ghost={'P': KView(Int), 'RB': KView(Int)},
        assume=['implies(len(channel_name_sub_set) == 0, forall_n(lambda t: not (t in channel_name_sub_set)))'],
        requires=['%s >= 1' % N, 'uf_bool("float_format_ok", float_decimal_places_format)',
                  # every channel holds a row for every frame; integer and floating dtypes (others are printed with str())
                  'forall(0, %s, lambda c: len(frame_array.channels[c].array.rows) == %s and (np_is_integer(frame_array.channels[c].array.dtype) '
                  'or np_is_floating(frame_array.channels[c].array.dtype)))' % (N, F)] + GEOM,
        modifies=['out_stream.log'],
        ensures=['len(%s) == RB[%s]' % (LOG, F), KEEP,
                 'rows_nl(%s, P, RB, %s, %s)' % (LOG, N, F), 'rows_tok(%s, frame_array, channel_name_sub_set, P, RB, %s, %s, 0, %s)' % (LOG, N, F, ARGS)],
        loops=[Loop('for frame_number in range(num_writable_frames)', index='fi', invariants=[
                   'num_writable_frames == %s' % F, '0 <= fi and fi <= %s' % F,
                   'len(%s) == RB[fi]' % LOG, KEEP,
                   'rows_nl(%s, P, RB, %s, fi)' % (LOG, N), 'rows_tok(%s, frame_array, channel_name_sub_set, P, RB, %s, fi, 0, %s)' % (LOG, N, ARGS)]),
               Loop('for (c, channel) in enumerate(frame_array.channels)', index='k', invariants=[
                   'num_writable_frames == %s' % F, '0 <= frame_number and frame_number < %s' % F,
                   'len(%s) == RB[frame_number] + P[k]' % LOG, KEEP,
                   'rows_nl(%s, P, RB, %s, frame_number)' % (LOG, N), 'rows_tok(%s, frame_array, channel_name_sub_set, P, RB, %s, frame_number, k, %s)' % (LOG, N, ARGS)])],
        canaries=['len(%s) == len(old(%s))' % (LOG, LOG)], crosscheck=False, timeout=25))


def _channel_condition(fname):
    """The test of the first `if` directly inside `for c, channel in enumerate(frame_array.channels)` of function fname."""
    from pyvc import source
    fn = source.load(WL).functions[fname]
    for node in ast.walk(fn):
        if isinstance(node, ast.For) and ast.unparse(node.iter) == 'enumerate(frame_array.channels)' and ast.unparse(node.target) == '(c, channel)':
            for st in node.body:
                if isinstance(st, ast.If):
                    return st.test
                if isinstance(st, ast.Assign):
                    continue
                break
    raise ContractError('selection condition of %s not found (loop over enumerate(frame_array.channels) with a leading if)' % fname)


def extra_obligations(reg):
    import z3
    from pyvc import source
    from pyvc.engine import Engine, State, Frame, AbsSet
    from pyvc.kinds import Rec, Fn
    mod = source.load(WL)
    eng = Engine(reg, 'C10')
    ident = z3.Function('ident', z3.IntSort(), z3.IntSort())       # ident of channel c (idents compared for equality only)
    mem = z3.Function('requested', z3.IntSort(), z3.BoolSort())     # membership in the requested subset
    empty = z3.Bool('requested_is_empty')
    c = z3.Int('c')
    x = ident(0)

    def cond(fname, S):
        st = State()
        st.env.update({'c': c, 'channel': Rec('FrameChannel', {'ident': ident(c)}), 'channels': S, 'channel_name_sub_set': S,
                       'channel_ident_as_str': ident(c),
                       '_stringify': Fn(lambda e, s, a, k, n: [(s, a[0])], '_stringify')})
        fr = Frame(mod, fname, None)
        eng.frames.append(fr)
        eng.sinks.append([])
        eng.pure += 1
        try:
            v = eng.ev(_channel_condition(fname), st)[0][1]
        finally:
            eng.pure -= 1
            eng.sinks.pop()
            eng.frames.pop()
        return to_bool_term(eng.truth(v)), st.pc

    S = AbsSet(lambda e: mem(to_int(e)), empty)
    # the subset after _add_x_axis_to_channels_to_write: x is added iff the subset is not empty
    S2 = AbsSet(lambda e: z3.Or(mem(to_int(e)), z3.And(z3.Not(empty), to_int(e) == x)), empty)
    curve, pc1 = cond('write_curve_section_to_las', S)
    head, pc2 = cond('write_array_section_header_to_las', S2)
    data, pc3 = cond('write_array_section_data_to_las', S2)
    j, k = z3.Ints('j k')
    hyp = [c >= 0, z3.ForAll([j, k], z3.Implies(z3.And(j >= 0, k >= 0, ident(j) == ident(k)), j == k)),
           z3.Implies(empty, z3.ForAll([j], z3.Not(mem(j))))] + pc1 + pc2 + pc3
    spec = z3.Or(empty, c == 0, mem(ident(c)))      # "the first channel plus the requested subset"
    out = []
    for nm, f in (('curve-section', curve), ('array-heading', head), ('data-rows', data)):
        out.append(dict(name='WriteLAS.py:channel-selection/%s-lists-first-channel-plus-subset' % nm, pc=hyp, goal=f == spec,
                        note='condition read from the source: %s' % nm, func='write_curve_and_array_section_to_las'))
    out.append(dict(name='WriteLAS.py:channel-selection/canary', pc=hyp, goal=data == mem(ident(c)), note='must fail', expect_fail=True,
                    func='write_curve_and_array_section_to_las'))
    # _add_x_axis_to_channels_to_write does what S2 models: verified on the real body
    return out


def standins(tier, seed):
    from pyvc import standin
    n = 60 if tier == 'quick' else 3000
    return [standin.run_script('las-write-read-round-trip', 'c09c10_las.py', seed, n,
                               'bounded: generated frame arrays written with WriteLAS and read back with LASRead; text-level check that curve '
                               'section, heading and every data row list the same channels', '%d frame arrays: 1..15 channels, all dtypes and '
                               'dimensions, 5 reductions, field widths 2..40, formats .0f...9f/e/g' % n, extra_args=['--part', 'c10'])]
