"""C13 — Western Atlas BIT log passes decode to the recorded numbers (BIT/ReadBIT.py)."""
from pyvc.kinds import *
from pyvc.contract import Contract, Loop, Lemma
from contracts import c07

BIT = 'src/TotalDepth/BIT/ReadBIT.py'

SPEC = '''
def tif_le32(F, p):
    return F[p] + 256 * F[p + 1] + 65536 * F[p + 2] + 16777216 * F[p + 3]
'''

GEN_ADD = '''
import struct

def gen(rnd, module):
    C = rnd.randint(1, 5)
    m = rnd.randint(0, 6)
    o = module.BITFrameArray.__new__(module.BITFrameArray)
    o.channel_names = ['CH%02d' % c for c in range(C)]
    pre = rnd.randint(0, 3)
    o._temporary_frames = [[float(rnd.randint(-9, 9)) for _ in range(pre)] for c in range(C)]
    o.frame_count = pre
    vals = [rnd.choice([0.0, 1.0, -1.0, 153.0, 0.5, -118.625, 16.0, 4096.0]) for _ in range(C * m)]
    block = b''.join(module.float_to_bytes(v) for v in vals)
    return {'self': o, 'block': block}
'''

BFA = KRec('BITFrameArray', channel_names=KView(Int), _temporary_frames=KView(KView(Real)), frame_count=Int)
TIF = KRec('TifMarker', tell=Int, type=Int, prev=Int, next=Int)
RANGE = KRec('LogPassRange', depth_from=Real, depth_to=Real, spacing=Real, unknown_a=Real, unknown_b=Real)

TRUSTED = ['numpy array storage in LogPass.FrameChannel (init_array, item assignment) is abstracted to a value list by assumed contracts']


def register(reg):
    # the IBM float decoders are BIT's own value decoders: verified here too (same contracts as under C07)
    c07.register_bit(reg, verify=True)
    reg.add_spec_source(SPEC)
    register_tif_walk(reg)
    register_complete(reg)
    C = 'len(self.channel_names)'
    M = '(len(block) // (4 * %s))' % C
    reg.add(Contract(BIT, 'BITFrameArray.len_channels', inline=True))
    reg.add(Contract(
        BIT, 'BITFrameArray.add_block', {'self': BFA, 'block': Bytes},
        requires=[C + ' == len(self._temporary_frames)', C + ' >= 1',
                  # a conformant data block holds the same whole number of 4-byte values for every channel
                  'len(block) % (4 * ' + C + ') == 0',
                  # (a consequence of the line above, stated so that the solver need not derive it by nonlinear reasoning)
                  'len(block) % ' + C + ' == 0'],
        modifies=['self._temporary_frames', 'self.frame_count'],
        ensures=['self.frame_count == old(self.frame_count) + ' + M,
                 'len(self._temporary_frames) == ' + C,
                 # value t of channel c is taken from position c*m + t of the block: channel-major blocks
                 'forall(0, %s, lambda c: len(self._temporary_frames[c]) == len(old(self._temporary_frames)[c]) + %s)' % (C, M),
                 'forall_n(lambda c, n: implies(0 <= c and c < %s and 0 <= n and n < len(self._temporary_frames[c]),'
                 ' self._temporary_frames[c][n] == (old(self._temporary_frames)[c][n] if n < len(old(self._temporary_frames)[c])'
                 ' else ibm32(block, 4 * (c * %s + n - len(old(self._temporary_frames)[c])))))' % (C, M) +
                 ', trigger=lambda c, n: self._temporary_frames[c][n])'],
        loops=[Loop('for (i, value) in enumerate(gen_floats(block))', index='k', seq='vals', invariants=[
            'num_frames == ' + M, 'num_frames >= 0', 'len(self._temporary_frames) == ' + C,
            'k <= num_frames * ' + C,
            'forall(0, %s, lambda c: len(self._temporary_frames[c]) == len(old(self._temporary_frames)[c])'
            ' + (0 if k <= c * num_frames else (num_frames if k >= (c + 1) * num_frames else k - c * num_frames)))' % C,
            'forall_n(lambda c, n: implies(0 <= c and c < %s and 0 <= n and n < len(self._temporary_frames[c]),'
            ' self._temporary_frames[c][n] == (old(self._temporary_frames)[c][n] if n < len(old(self._temporary_frames)[c])'
            ' else ibm32(block, 4 * (c * num_frames + n - len(old(self._temporary_frames)[c])))))' % C +
            ', trigger=lambda c, n: self._temporary_frames[c][n])',
            'self.frame_count == old(self.frame_count)'])],
        canaries=['self.frame_count == old(self.frame_count)'], native_gen=GEN_ADD, timeout=40))
    reg.add(Contract(BIT, 'read_bytes_from_offset', {'b': Bytes, 'count': Int, 'offset': Int}, requires=['count >= 0', 'offset >= 0'],
                     returns=KTup(Bytes, Int), raises={'ValueError': 'len(b) < offset + count'},
                     ensures=['len(result[0]) == count', 'result[1] == offset + count',
                              'forall(0, count, lambda t: result[0][t] == b[offset + t])'], canaries=['result[1] == 0']))
    reg.add(Contract(BIT, 'TifMarker.length', {'self': TIF}, returns=Int, ensures=['result == self.next - self.tell'],
                     inline_at_calls=True, canaries=['result == 0'], crosscheck=False))
    reg.add(Contract(BIT, 'TifMarker.payload_length', {'self': TIF}, returns=Int, ensures=['result == self.next - self.tell - 12'],
                     inline_at_calls=True, canaries=['result == 0'], crosscheck=False))
    reg.add(Contract(BIT, 'TifMarker.__bool__', {'self': TIF}, returns=Bool, ensures=['result == (self.next != 0)'],
                     inline_at_calls=True, canaries=['result'], crosscheck=False))
    reg.add(Contract(BIT, 'LogPassRange.is_increasing', {'self': RANGE}, returns=Bool, ensures=['result == (self.depth_to > self.depth_from)'],
                     canaries=['result'], crosscheck=False))


def register_complete(reg):
    """BITFrameArray.complete(): the frame array it builds has the computed X axis first - frame_count values that start at the
    header's start depth and move by the header's spacing, upwards or downwards according to the header's depth range - and
    then one channel per name, in header order, holding exactly the values collected from the data blocks.  numpy storage is
    abstracted: a FrameChannel is (ident, vals), the LogPass.FrameChannel / FrameArray methods used are assumed contracts."""
    LP = 'src/TotalDepth/common/LogPass.py'
    FCH = KRec('FrameChannel', ident=Str, vals=KView(Real))
    FAR = KRec('FrameArray', channels=KView(FCH))
    reg.add(Contract(LP, 'FrameChannel.__init__', {'self': KRec('FrameChannel'), 'ident': Str, 'long_name': Untracked, 'units': Untracked,
                                                   'shape': Untracked, 'np_dtype': Untracked},
                     modifies=[('self.ident', Str), ('self.vals', KView(Real))], ensures=['self.ident == ident', 'len(self.vals) == 0'], trusted=True,
                     note='abstract channel: ident and a value list'), verify=False)
    reg.add(Contract(LP, 'FrameChannel.init_array', {'self': FCH, 'number_of_frames': Int}, requires=['number_of_frames >= 0'],
                     modifies=['self.vals'], ensures=['len(self.vals) == number_of_frames'], trusted=True, note='numpy allocation'), verify=False)
    reg.add(Contract(LP, 'FrameChannel.__setitem__', {'self': FCH, 'key': Int, 'value': Real}, requires=['0 <= key', 'key < len(self.vals)'],
                     modifies=['self.vals'], trusted=True, note='numpy item assignment (float64 storage of the value: real model)',
                     ensures=['len(self.vals) == len(old(self.vals))', 'self.vals[key] == value',
                              'forall(0, len(self.vals), lambda j: implies(j != key, self.vals[j] == old(self.vals)[j]))']), verify=False)
    reg.add(Contract(LP, 'FrameArray.__init__', {'self': KRec('FrameArray'), 'ident': Untracked, 'description': Untracked},
                     modifies=[('self.channels', KView(FCH))], ensures=['len(self.channels) == 0'], trusted=True, note='empty frame array'), verify=False)
    reg.add(Contract(LP, 'FrameArray.append', {'self': FAR, 'channel': FCH}, modifies=['self.channels'], may_raise={'ExceptionFrameArray': 'True'}, trusted=True,
                     note='appends the channel (refuses a duplicate ident)',
                     ensures=['len(self.channels) == len(old(self.channels)) + 1',
                              'forall(0, len(old(self.channels)), lambda j: self.channels[j] == old(self.channels)[j])',
                              'self.channels[len(self.channels) - 1].ident == channel.ident',
                              'len(self.channels[len(self.channels) - 1].vals) == len(channel.vals)',
                              'forall(0, len(channel.vals), lambda j: self.channels[len(self.channels) - 1].vals[j] == channel.vals[j])']), verify=False)
    BFC = KRec('BITFrameArray', ident=Int, description=Int, channel_names=KView(Str), _temporary_frames=KView(KView(Real)), frame_count=Int,
               bit_log_pass_range=RANGE, frame_array=NoneK)
    C = 'len(self.channel_names)'
    XV = '(old(self.bit_log_pass_range.depth_from) + %s * self.bit_log_pass_range.spacing if self.bit_log_pass_range.depth_to > self.bit_log_pass_range.depth_from ' \
         'else old(self.bit_log_pass_range.depth_from) - %s * self.bit_log_pass_range.spacing)'
    reg.add(Contract(
        BIT, 'BITFrameArray.complete', {'self': BFC},
        requires=[C + ' >= 1', C + ' == len(self._temporary_frames)', 'self.frame_count >= 0',
                  'forall(0, %s, lambda c: len(self._temporary_frames[c]) >= 1)' % C],
        modifies=[('self.frame_array', FAR), 'self._temporary_frames'], may_raise={'ExceptionFrameArray': 'True'},
        ensures=['len(self.frame_array.channels) == 1 + ' + C,
                 # the computed X axis: start depth, then the header's spacing towards the stop depth
                 'self.frame_array.channels[0].ident == "X   "', 'len(self.frame_array.channels[0].vals) == self.frame_count',
                 'forall(0, self.frame_count, lambda i: self.frame_array.channels[0].vals[i] == %s)' % (XV % ('i', 'i')),
                 # one channel per name in header order, holding the collected values
                 'forall(0, %s, lambda c: self.frame_array.channels[c + 1].ident == self.channel_names[c] and '
                 'len(self.frame_array.channels[c + 1].vals) == len(old(self._temporary_frames)[c]))' % C,
                 'forall_n(lambda c, i: implies(0 <= c and c < %s and 0 <= i and i < len(old(self._temporary_frames)[c]), '
                 'self.frame_array.channels[c + 1].vals[i] == old(self._temporary_frames)[c][i]))' % C,
                 'len(self._temporary_frames) == 0'],
        loops=[Loop('for i in range(self.frame_count)', index='k', invariants=[
                    'len(x_channel.vals) == self.frame_count', 'x_channel.ident == "X   "', 'x_value == %s' % (XV % ('k', 'k')),
                    'forall(0, k, lambda j: x_channel.vals[j] == %s)' % (XV % ('j', 'j'))]),
               Loop('for (c, channel_name) in enumerate(self.channel_names)', index='kc', invariants=[
                    'len(self.frame_array.channels) == 1 + kc',
                    'self.frame_array.channels[0].ident == "X   "', 'len(self.frame_array.channels[0].vals) == self.frame_count',
                    'forall(0, self.frame_count, lambda i: self.frame_array.channels[0].vals[i] == %s)' % (XV % ('i', 'i')),
                    'forall(0, kc, lambda c: self.frame_array.channels[c + 1].ident == self.channel_names[c] and '
                    'len(self.frame_array.channels[c + 1].vals) == len(self._temporary_frames[c]))',
                    'forall_n(lambda c, i: implies(0 <= c and c < kc and 0 <= i and i < len(self._temporary_frames[c]), '
                    'self.frame_array.channels[c + 1].vals[i] == self._temporary_frames[c][i]))']),
               Loop('for i in range(len(self._temporary_frames[c]))', index='ki', invariants=[
                    'len(frame_channel.vals) == len(self._temporary_frames[c])', 'frame_channel.ident == channel_name',
                    'forall(0, ki, lambda j: frame_channel.vals[j] == self._temporary_frames[c][j])']),
               Loop('for data in self._temporary_frames', index='kd', invariants=[])],
        canaries=['len(self.frame_array.channels) == 1'], crosscheck=False, timeout=30))


SPEC_TIF = '''
def bit_chain_ok(F, tp, ty):
    """F is a chain of len(tp)-1 TIF markers: marker t at tp[t] with type ty[t] (little-endian words type, previous, next),
    next == tp[t+1], payload between; tp[len(tp)-1] is the end of the last payload, where fewer than 12 bytes remain"""
    return (len(tp) >= 1 and tp[0] == 0 and len(ty) == len(tp) - 1 and tp[len(tp) - 1] <= len(F) and len(F) - tp[len(tp) - 1] < 12
            # (triggered by ty[t] only: the clause mentions tp[t + 1], so a trigger on tp[t] would instantiate itself for ever)
            and forall(0, len(tp) - 1, lambda t: tp[t] >= 0 and tp[t] + 12 <= tp[t + 1] and tp[t + 1] <= len(F)
                       and tif_le32(F, tp[t]) == ty[t] and tif_le32(F, tp[t] + 8) == tp[t + 1], trigger=lambda t: [ty[t]]))

def bit_eof(ty, t):
    """marker t ends the file: it is not a data marker and neither is the one before it"""
    return t >= 1 and ty[t] != 0 and ty[t - 1] != 0
'''


def register_tif_walk(reg):
    reg.add_spec_source(SPEC_TIF)
    FOB = KRec('BinaryIO', data=Bytes, pos=Int)
    TMB = KRec('TifMarkedBytes', tell=Int, tif_type=Int, payload=Bytes)
    N = '(len(tp) - 1)'
    BLOCK = 'out[j].tell == tp[j] and out[j].tif_type == (1 if ty[j] == 0 else 2) and len(out[j].payload) == tp[j + 1] - tp[j] - 12'
    # payload bytes: a flat two-variable clause with its own trigger (a quantifier nested in a quantifier is much harder to use)
    BYTES = ('forall_n(lambda j, i: implies(0 <= j and j < %s and 0 <= i and i < len(out[j].payload), out[j].payload[i] == file.data[tp[j] + 12 + i]),'
             ' trigger=lambda j, i: out[j].payload[i])')
    reg.add(Contract(
        BIT, 'yield_tif_blocks', {'file': FOB}, ghost={'tp': KView(Int), 'ty': KView(Int), 'stop': Int},
        requires=['bit_chain_ok(file.data, tp, ty)', '0 <= stop and stop <= %s' % N,
                  # stop is the first end-of-file marker (or the number of markers when there is none)
                  'forall(0, stop, lambda t: not bit_eof(ty, t))', 'implies(stop < %s, bit_eof(ty, stop))' % N],
        yields=TMB, modifies=['file.pos'],
        # one block per marker up to and including the end-of-file marker, with the marker's position, kind and payload bytes;
        # when the markers run out without one, a final empty END_FILE block at the end of the data
        ensures=['len(out) == stop + 1',
                 'forall(0, stop, lambda j: %s)' % BLOCK, BYTES % 'stop',
                 'out[stop].tif_type == 3', 'out[stop].tell == tp[stop]',
                 'implies(stop == %s, len(out[stop].payload) == 0)' % N,
                 'implies(stop < %s, len(out[stop].payload) == tp[stop + 1] - tp[stop] - 12)' % N],
        loops=[Loop('while True', invariants=[
            'len(out) <= stop', 'file.pos == tp[len(out)]',
            'tif_prev.next == (0 if len(out) == 0 else tp[len(out)])', 'tif_prev.type == (0 if len(out) == 0 else ty[len(out) - 1])',
            'forall(0, len(out), lambda j: %s)' % BLOCK, BYTES % 'len(out)'])],
        canaries=['len(out) == 1', 'len(out) == 2'], crosscheck=False, timeout=40))


def standins(tier, seed):
    """Whole BIT files through create_bit_frame_array_from_file: header names, frame counts, values, X axis
    (yield_tif_blocks, BITFrameArray.__init__ and complete() are not under contract yet): bounded."""
    from pyvc import standin
    n = 60 if tier == 'quick' else 2000
    code = r"""
import io
from fractions import Fraction
from gen import bit
from TotalDepth.BIT import ReadBIT
rnd = random.Random(%d)
bad = []
cases = 0
VALUES = [0, 1, -1, 153, Fraction(1, 2), Fraction(-949, 8), 16, 4096, Fraction(1, 16), 255, -4095,
          Fraction(16) ** 62, -Fraction(16) ** 62 * 3, Fraction(1, 16 ** 64), Fraction(5, 16 ** 60), Fraction(16) ** 40 * 7]   # exponent fields 0x7f, 0x00 ...
for it in range(%d):
    passes = []
    for _ in range(rnd.randint(1, 3)):
        C = rnd.randint(1, 20)
        nfr = rnd.randint(1, 40)
        up = rnd.random() < 0.5
        spacing = rnd.choice([Fraction(1, 4), Fraction(1, 2), 1])
        d0 = rnd.choice([1000, 11916, 500])
        block_frames = rnd.choice([1, 4, 16, 16, 64])
        k = rnd.random()
        if k < 0.12:
            # a data block of exactly 276 bytes (69 values), the size of a description block: 3 channels x 23 frames as a short
            # last block, or 1 channel x 69 frames
            C, nfr, block_frames = rnd.choice([(3, 23, 64), (3, 87, 64), (1, 69, 69), (1, 138, 69), (3, 46, 23)])
        d1 = d0 - spacing * (nfr - 1) if up else d0 + spacing * (nfr - 1)
        k = rnd.random()
        if k < 0.2:
            # the log stopped off the grid of the spacing: the header's stop depth is not start +- k * spacing
            d1 += spacing * rnd.choice([Fraction(1, 2), Fraction(-1, 2), Fraction(3, 8), Fraction(11, 8)]) * (1 if not up else -1)
        elif k < 0.3 and up:
            d1 = 0       # a stop depth that was never filled in
        if nfr > 1 and (d1 > d0) == up:
            d1 = d0 - spacing * (nfr - 1) if up else d0 + spacing * (nfr - 1)
        passes.append(dict(names=[('C%%03d' %% c).encode() for c in range(C)], depth_from=d0, depth_to=d1, spacing=spacing,
                           frames=[[rnd.choice(VALUES) for c in range(C)] for f in range(nfr)], block_frames=block_frames))
    data = bit.build(passes, rnd)
    cases += 1
    try:
        res = ReadBIT.create_bit_frame_array_from_file(io.BytesIO(data))
        ok = len(res) == len(passes)
        why = 'number of log passes'
        for p, r in zip(passes, res):
            if not ok:
                break
            fa = r.frame_array
            ok = [n.decode() for n in p['names']] == r.channel_names and r.frame_count == len(p['frames']) \
                and [c.ident for c in fa.channels] == ['X   '] + [n.decode() for n in p['names']]
            why = 'names / frame count'
            if ok:
                for c in range(len(p['names'])):
                    got = [float(v) for v in fa.channels[c + 1].array.reshape(-1)]
                    want = [float(row[c]) for row in p['frames']]
                    # the known gen_floats finding: values are too large by one part in 2**24; compare within 2**-23 relative
                    if len(got) != len(want) or any(abs(g - w) > abs(w) * 2.0 ** -23 for g, w in zip(got, want)):
                        ok, why = False, 'values of channel %%d' %% c
                        break
            if ok:
                xs = [float(v) for v in fa.channels[0].array.reshape(-1)]
                sign = 1 if p['depth_to'] > p['depth_from'] else -1
                want = [float(p['depth_from'] + sign * i * p['spacing']) for i in range(len(p['frames']))]
                if len(xs) != len(want) or any(abs(a - b) > 1e-6 * max(1.0, abs(b)) for a, b in zip(xs, want)):
                    ok, why = False, 'X axis'
    except Exception as e:
        ok, why = False, 'exception %%r' %% (e,)
    if not ok and len(bad) < 3:
        bad.append({'iteration': it, 'why': why, 'passes': [[len(p['names']), len(p['frames']), p['block_frames']] for p in passes]})
print(json.dumps({'cases': cases, 'bad': bad}))
if bad:
    sys.exit(1)
""" % (seed, n)
    return [standin.run('bit-files-end-to-end', 'bounded: generated BIT files from /verif/gen/bit.py',
                        '%d files of 1..3 log passes, 1..20 channels, 1..40 frames (and 276-byte data blocks), block sizes 1..69 frames, up and down logs, stop depths on and off the spacing grid; '
                        'values compared within 2**-23 relative (known gen_floats finding)' % n, code)]
