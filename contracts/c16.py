"""C16 — run-length indexes reproduce the positions they encode (common/Rle.py, LIS/core/Rle.py)."""
from pyvc.kinds import *
from pyvc.contract import Contract, Loop, Induction

F = 'src/TotalDepth/common/Rle.py'
FL = 'src/TotalDepth/LIS/core/Rle.py'

# Ghost abstract view of an RLE: `vals` is everything added, in order; start[j] is the offset in vals of the
# first value of run j (len(start) == number of runs + 1); own[n] is the run that holds vals[n].
SPEC = '''
def rle_ri(items, vals, start, own):
    return (len(start) == len(items) + 1 and start[0] == 0 and start[len(items)] == len(vals)
            and len(own) == len(vals)
            and forall(0, len(items), lambda j: items[j].repeat >= 0 and start[j + 1] == start[j] + items[j].repeat + 1,
                       trigger=lambda j: [items[j].repeat])
            and forall(0, len(items), lambda j: implies(items[j].repeat == 0, items[j].stride == 0), trigger=lambda j: [items[j].stride])
            and forall_n(lambda a, b: implies(0 <= a and a <= b and b <= len(items), start[a] <= start[b]),
                         trigger=lambda a, b: (start[a], start[b]))
            and forall(0, len(vals), lambda n: 0 <= own[n] and own[n] < len(items)
                       and start[own[n]] <= n and n <= start[own[n]] + items[own[n]].repeat
                       and vals[n] == items[own[n]].datum + (n - start[own[n]]) * items[own[n]].stride,
                       trigger=lambda n: [own[n], vals[n]])
            and forall(0, len(items), lambda j: own[start[j]] == j, trigger=lambda j: [items[j].datum]))

def item_tstar(it, value):
    return it.repeat if value >= it.datum + it.repeat * it.stride else (value - it.datum) // it.stride

def item_val(it, t):
    return it.datum + t * it.stride
'''

GEN = '''
def _mk(rnd, module):
    kind = rnd.randint(0, 4)
    n = rnd.randint(0, 9)
    if kind == 0:
        seq = [rnd.randint(-4, 6) for _ in range(n)]
    elif kind == 1:
        seq = sorted(rnd.randint(-4, 12) for _ in range(n))
    elif kind == 2:
        seq, x = [], rnd.randint(-3, 3)
        for _ in range(n):
            seq.append(x)
            x += rnd.choice([0, 1, 1, 2, 3])
    elif kind == 3:
        seq = [5] * n
    else:
        seq = list(range(0, 3 * n, 3))
    r = module.create_rle(seq)
    start, own = [0], []
    for j, it in enumerate(r.rle_items):
        start.append(start[-1] + it.repeat + 1)
        own += [j] * (it.repeat + 1)
    return r, seq, start, own

def gen(rnd, module):
    r, seq, start, own = _mk(rnd, module)
    return {'self': r, 'vals': seq, 'start': start, 'own': own, %s}
'''


def G(extra=''):
    return GEN % extra


ITEM = KRec('RLEItem', datum=Int, stride=Int, repeat=Int)
RLE = KRec('RLE', rle_items=KView(ITEM), function=NoneK)
GHOST = {'vals': KView(Int), 'start': KView(Int), 'own': KView(Int)}
RI = 'rle_ri(self.rle_items, vals, start, own)'


def register(reg):
    reg.add_spec_source(SPEC)
    # ------------------------------------------------------------------ RLEItem (one run)
    reg.add(Contract(F, 'RLEItem.__init__', inline=True))
    reg.add(Contract(F, 'RLEItem.__len__', {'self': ITEM}, returns=Int, ensures=['result == self.repeat + 1'],
                     canaries=['result == 0'], inline_at_calls=True))
    reg.add(Contract(
        F, 'RLEItem.add', {'self': ITEM, 'v': Int}, requires=['self.repeat >= 0', 'implies(self.repeat == 0, self.stride == 0)'],
        returns=Bool, modifies=['self.stride', 'self.repeat'],
        ensures=['result == (old(self.repeat) == 0 or v == old(self.datum) + old(self.stride) * (old(self.repeat) + 1))',
                 'implies(result, self.repeat == old(self.repeat) + 1)',
                 'implies(result and old(self.repeat) == 0, self.stride == v - self.datum)',
                 'implies(result and old(self.repeat) > 0, self.stride == old(self.stride))',
                 'implies(not result, self.stride == old(self.stride) and self.repeat == old(self.repeat))',
                 # the value absorbed is the one the run now ends with
                 'implies(result, v == self.datum + self.repeat * self.stride)'],
        canaries=['result', 'not result']))
    # float runs (real-number model): a value is taken into a run only if it is the extrapolated position to within one
    # unit of binary64 relative rounding (2**-52), so position i of the run reproduces what was added "to within rounding"
    FITEM = KRec('RLEItem', datum=Real, stride=Real, repeat=Int)
    EXPV = '(old(self.datum) + old(self.stride) * (old(self.repeat) + 1))'
    reg.add(Contract(
        F, 'RLEItem.add', {'self': FITEM, 'v': Real}, name='RLEItem.add[float]', requires=['self.repeat >= 0', 'implies(self.repeat == 0, self.stride == 0)'],
        returns=Bool, modifies=['self.stride', 'self.repeat'],
        ensures=['implies(old(self.repeat) == 0, result and self.repeat == 1 and self.stride == v - self.datum)',
                 'implies(result, self.repeat == old(self.repeat) + 1)',
                 'implies(result and old(self.repeat) > 0, self.stride == old(self.stride))',
                 'implies(not result, self.stride == old(self.stride) and self.repeat == old(self.repeat))',
                 # absorbed only when within rounding of the extrapolated value; an exactly regular value is always absorbed
                 'implies(result and old(self.repeat) > 0, abs(v - %s) * 4503599627370496 <= max(abs(v), abs(%s)))' % (EXPV, EXPV),
                 'implies(old(self.repeat) > 0 and v == %s, result)' % EXPV],
        canaries=['result', 'not result'],
        domains={'v': [0.0, 1.0, 2.0, 3.0, 3.0000000001, 3.00000000000001, 1.6e9 + 3.25, 1.6e9 + 3.0, 1e12 + 0.3, 1e12 + 0.30000001, -5.5, 0.1 + 0.2, 0.3]}),
        callable_=False)
    reg.add(Contract(
        F, 'RLEItem.values', {'self': ITEM}, requires=['self.repeat >= 0'], yields=Int,
        ensures=['len(out) == self.repeat + 1', 'forall(0, len(out), lambda t: out[t] == self.datum + t * self.stride)'],
        loops=[Loop('for i in range(self.repeat)', index='k', invariants=[
            'len(out) == k + 1', 'v == self.datum + k * self.stride',
            'forall(0, len(out), lambda t: out[t] == self.datum + t * self.stride)'])],
        canaries=['len(out) == 1']))
    reg.add(Contract(
        F, 'RLEItem.value', {'self': ITEM, 'i': Int}, requires=['self.repeat >= 0', 'implies(self.repeat == 0, self.stride == 0)'],
        returns=KTup(Int, KOpt(Int)),
        ensures=[
            # in range (from the front or from the back): the value at that position of the run
            'implies(0 <= i and i <= self.repeat, result[0] == i and not is_none(result[1]) and result[1] == self.datum + i * self.stride)',
            'implies(i < 0 and -i <= self.repeat + 1, result[0] == i and not is_none(result[1]) and result[1] == self.datum + (self.repeat + 1 + i) * self.stride)',
            # overrun: None and the index relative to the next run
            'implies(i > self.repeat, is_none(result[1]) and result[0] == i - self.repeat - 1)',
            'implies(i < 0 and -i > self.repeat + 1, is_none(result[1]) and result[0] == i + self.repeat + 1)'],
        canaries=['is_none(result[1])', 'not is_none(result[1])']))
    reg.add(Contract(F, 'RLEItem.last', {'self': ITEM}, requires=['self.repeat >= 0', 'implies(self.repeat == 0, self.stride == 0)'],
                     returns=Int, ensures=['result == self.datum + self.repeat * self.stride'], canaries=['result == self.datum']))
    reg.add(Contract(
        F, 'RLEItem.largest_le', {'self': ITEM, 'value': Int},
        requires=['self.repeat >= 0', 'implies(self.repeat == 0, self.stride == 0)', 'self.stride >= 0'],
        returns=Int, raises={'ValueError': 'self.datum > value'},
        ensures=[
            # the result is the value at offset t* of the run: the last one if value is beyond the run, else floor
            'result == self.datum + item_tstar(self, value) * self.stride',
            '0 <= item_tstar(self, value) and item_tstar(self, value) <= self.repeat',
            'result <= value',
            # ... and the next value of the run, if any, exceeds the query: result is the largest one <= value
            'item_tstar(self, value) == self.repeat or self.datum + (item_tstar(self, value) + 1) * self.stride > value'],
        canaries=['result == self.datum']))
    # ------------------------------------------------------------------ RLE
    reg.add(Contract(F, 'RLE.__init__', {'self': KRec('RLE'), 'theFunc': NoneK},
                     modifies=[('self.rle_items', KView(ITEM)), ('self.function', NoneK)],
                     ensures=['len(self.rle_items) == 0', 'is_none(self.function)'], returns=NoneK))
    reg.add(Contract(F, 'RLE.__len__', {'self': RLE}, returns=Int, ensures=['result == len(self.rle_items)']))
    reg.add(Contract(
        F, 'RLE.add', {'self': RLE, 'v': Int}, ghost=GHOST, requires=[RI], modifies=['self.rle_items'], returns=NoneK,
        native_gen=G("'v': rnd.randint(-4, 12)"),
        ghost_post={
            'vals': 'vals + [v]',
            'own': 'own + [len(self.rle_items) - 1]',
            'start': 'ite(len(self.rle_items) == len(old(self.rle_items)),'
                     ' start[:len(start) - 1] + [start[len(start) - 1] + 1], start + [start[len(start) - 1] + 1])',
        },
        ensures=[RI, 'is_none(self.function)'],
        canaries=['len(self.rle_items) == len(old(self.rle_items))', 'len(self.rle_items) != len(old(self.rle_items))']))
    import z3 as _z3
    _VALF = _z3.Function('rle_value_function', _z3.IntSort(), _z3.IntSort())
    RLEF = KRec('RLE', rle_items=KView(ITEM), function=Fn(lambda eng, st, args, kw, node: [(st, _VALF(to_int(args[0])))], 'rle_value_function'))
    reg.add(Contract(
        F, 'RLE.add', {'self': RLEF, 'v': Int}, ghost=GHOST, requires=[RI], modifies=['self.rle_items'], returns=NoneK,
        name='RLE.add[function]', crosscheck=False,
        ghost_post={
            'vals': 'vals + [self.function(v)]',      # what is recorded is the converted value, converted once
            'own': 'own + [len(self.rle_items) - 1]',
            'start': 'ite(len(self.rle_items) == len(old(self.rle_items)),'
                     ' start[:len(start) - 1] + [start[len(start) - 1] + 1], start + [start[len(start) - 1] + 1])',
        },
        ensures=[RI],
        canaries=['len(self.rle_items) == len(old(self.rle_items))', 'len(self.rle_items) != len(old(self.rle_items))']), callable_=False)
    reg.add(Contract(
        F, 'RLE.num_values', {'self': RLE}, ghost=GHOST, requires=[RI], returns=Int, ensures=['result == len(vals)'],
        native_gen=G(),
        exit_lemmas=[Induction('n', '0', 'len(self.rle_items)', '_psum(n) == start[n]')], canaries=['result == 0']))
    reg.add(Contract(
        F, 'RLE.values', {'self': RLE}, ghost=GHOST, requires=[RI], yields=Int, native_gen=G(),
        ensures=['len(out) == len(vals)', 'forall(0, len(out), lambda n: out[n] == vals[n])'],
        loops=[Loop('for r in self.rle_items', index='k', invariants=[
                    'len(out) == start[k]', 'forall(0, len(out), lambda n: out[n] == vals[n])']),
               Loop('for v in r.values()', index='t', seq='g', invariants=[
                    'len(out) == start[k - 1] + t', 'forall(0, len(out), lambda n: out[n] == vals[n])',
                    '1 <= k and k <= len(self.rle_items)'])],
        canaries=['len(out) == 0']))
    reg.add(Contract(
        F, 'RLE.value', {'self': RLE, 'i': Int}, ghost=GHOST, requires=[RI], returns=Int,
        native_gen=G("'i': rnd.randint(-11, 11)"),
        raises={'IndexError': 'i >= len(vals) or i < -len(vals)'},
        ensures=['implies(i >= 0, result == vals[i])', 'implies(i < 0, result == vals[len(vals) + i])'],
        loops=[Loop('for r in self.rle_items', index='k', kinds={'v': KOpt(Int)}, invariants=[
                    'i >= 0 and old(i) == start[k] + i']),
               Loop('for r in reversed(self.rle_items)', index='k', kinds={'v': KOpt(Int)}, invariants=[
                    'i < 0 and old(i) == i - (len(vals) - start[len(self.rle_items) - k])'])],
        canaries=['result == 0']))
    reg.add(Contract(F, 'RLE.first', {'self': RLE}, ghost=GHOST, requires=[RI], returns=KOpt(Int), native_gen=G(),
                     ensures=['implies(len(vals) > 0, not is_none(result) and result == vals[0])',
                              'implies(len(vals) == 0, is_none(result))'], canaries=['is_none(result)']))
    reg.add(Contract(F, 'RLE.last', {'self': RLE}, ghost=GHOST, requires=[RI], returns=KOpt(Int), native_gen=G(),
                     ensures=['implies(len(vals) > 0, not is_none(result) and result == vals[len(vals) - 1])',
                              'implies(len(vals) == 0, is_none(result))'], canaries=['is_none(result)']))
    ASC = 'forall_n(lambda a, b: implies(0 <= a and a <= b and b < len(vals), vals[a] <= vals[b]), trigger=lambda a, b: (vals[a], vals[b]))'
    reg.add(Contract(
        F, 'RLE.largest_le', {'self': RLE, 'value': Int}, ghost=GHOST, native_gen=G("'value': rnd.randint(-6, 30)"),
        requires=[RI, ASC, 'forall(0, len(self.rle_items), lambda j: self.rle_items[j].stride >= 0)'],
        returns=Int, raises={'ValueError': 'len(vals) == 0 or value < vals[0]'},
        ensures=['exists(0, len(vals), lambda n: vals[n] == result)', 'result <= value',
                 'forall(0, len(vals), lambda n: implies(vals[n] <= value, vals[n] <= result))'],
        loops=[Loop('while lo < hi', invariants=[
            '0 <= lo and lo <= hi and hi <= len(self.rle_items)',
            'forall(0, lo, lambda j: self.rle_items[j].datum <= value)',
            'forall(hi, len(self.rle_items), lambda j: value < self.rle_items[j].datum)'], decreases='hi - lo')],
        exit_hints=['vals[start[lo - 1] + item_tstar(self.rle_items[lo - 1], value)]',
                    'vals[start[lo - 1] + item_tstar(self.rle_items[lo - 1], value) + 1]'],
        canaries=['result == value']))
    reg.add(Contract(
        F, 'create_rle', {'values': KView(Int), 'fn': NoneK}, returns=RLE, crosscheck=False,
        ghost_init={'vals': 'seq(0, lambda i: 0)', 'start': '[0]', 'own': 'seq(0, lambda i: 0)'},
        ensures=['rle_ri(result.rle_items, vals, start, own)', 'len(vals) == len(values)',
                 'forall(0, len(values), lambda n: vals[n] == values[n])'],
        loops=[Loop('for v in values', index='k', havoc_extra=['vals', 'start', 'own'],
                    kinds={'vals': KView(Int), 'start': KView(Int), 'own': KView(Int)},
                    invariants=['rle_ri(ret.rle_items, vals, start, own)', 'len(vals) == k', 'is_none(ret.function)',
                                'forall(0, k, lambda n: vals[n] == values[n])'])],
        canaries=['len(result.rle_items) == 0']))

    # the same function given a range object (a type its body may single out): the encoding holds exactly the values of the range
    for stp, nexpr in ((1, '(values.stop - values.start)'), (3, '((values.stop - values.start + 2) // 3)')):
        RNG = KRec('range', start=Int, stop=Int, step=stp)
        reg.add(Contract(
            F, 'create_rle', {'values': RNG, 'fn': NoneK}, returns=RLE, crosscheck=False, name='create_rle[range step %d]' % stp,
            ghost_init={'vals': 'seq(0, lambda i: 0)', 'start': '[0]', 'own': 'seq(0, lambda i: 0)'},
            ensures=['rle_ri(result.rle_items, vals, start, own)', 'len(vals) == (%s if values.stop > values.start else 0)' % nexpr,
                     'forall(0, len(vals), lambda n: vals[n] == values.start + n * %d)' % stp],
            loops=[Loop('for v in values', index='k', havoc_extra=['vals', 'start', 'own'],
                        kinds={'vals': KView(Int), 'start': KView(Int), 'own': KView(Int)},
                        invariants=['rle_ri(ret.rle_items, vals, start, own)', 'len(vals) == k', 'is_none(ret.function)',
                                    'forall(0, k, lambda n: vals[n] == values.start + n * %d)' % stp])],
            canaries=['len(result.rle_items) == 0']), callable_=False)

    # ------------------------------------------------------------------ LIS frame index (LIS/core/Rle.py)
    # One run of data records: record t of the run is at file position datum + t*stride and holds _numFrames
    # frames.  The X-axis RLE of the run holds one value per record (representation invariant of the class,
    # stated as an assumed contract on its value()): see DESIGN C16.
    XRLE = KRec('RLE')
    ITEM01 = KRec('RLEItemType01', datum=Int, stride=Int, repeat=Int, _numFrames=Int, _rleXaxis=KRec('RLE', nvals=Int))
    I01_REQ = ['self.repeat >= 0', 'implies(self.repeat == 0, self.stride == 0)', 'self._numFrames >= 1',
               'self._rleXaxis.nvals == self.repeat + 1']
    reg.add_alternative(Contract(F, 'RLE.value', {'self': KRec('RLE', nvals=Int), 'i': Int}, returns=Int, trusted=True,
                     raises={'IndexError': 'i >= self.nvals or i < -self.nvals'}, name='RLE.value[x-axis]',
                     note='X-axis value lookup inside RLEItemType01: abstracted to "some value, IndexError iff out of range"; '
                          'RLE.value itself is proved against its full contract above'),
                        lambda eng, fn, args, st: isinstance(fn.selfv, Ref) and 'nvals' in st.heap[fn.selfv.oid].fields
                        or isinstance(fn.selfv, Rec) and 'nvals' in fn.selfv.fields)
    reg.contracts_alt = getattr(reg, 'contracts_alt', {})
    reg.add(Contract(FL, 'RLEItemType01.value', inline=True))
    reg.add(Contract(FL, 'RLEItemType01.totalFrames', {'self': ITEM01}, requires=I01_REQ, returns=Int,
                     ensures=['result == self._numFrames * (self.repeat + 1)'], canaries=['result == 0'], inline_at_calls=True))
    reg.add(Contract(
        FL, 'RLEItemType01.tellLrForFrame', {'self': ITEM01, 'fNum': Int}, requires=I01_REQ + ['fNum >= 0'],
        returns=KTup(Int, KOpt(KTup(Int, Int, Int))),
        ensures=[
            # inside this run: frame offset in its record, and the record position
            'implies(fNum < self._numFrames * (self.repeat + 1), result[0] == fNum % self._numFrames'
            ' and not is_none(result[1]) and result[1][0] == self.datum + (fNum // self._numFrames) * self.stride'
            ' and result[1][1] == self._numFrames)',
            # beyond this run: the frame number relative to the next run
            'implies(fNum >= self._numFrames * (self.repeat + 1), is_none(result[1])'
            ' and result[0] == fNum - self._numFrames * (self.repeat + 1))'],
        canaries=['is_none(result[1])', 'not is_none(result[1])'], crosscheck=False))
    # ---- building the index: RLEItemType01.add / RLEType01.add
    # the X-axis RLE inside a run is abstracted to its number of values (as for value() above): adding one value makes it one longer
    reg.add_alternative(Contract(F, 'RLE.add', {'self': KRec('RLE', nvals=Int), 'v': Real}, returns=NoneK, trusted=True,
                     modifies=['self.nvals'], ensures=['self.nvals == old(self.nvals) + 1'], name='RLE.add[x-axis]',
                     note='X-axis add inside RLEItemType01: abstracted to "one more value"; RLE.add itself is proved against '
                          'its full contract above (len(vals) grows by one)'),
                        lambda eng, fn, args, st: isinstance(fn.selfv, Ref) and 'nvals' in st.heap[fn.selfv.oid].fields
                        or isinstance(fn.selfv, Rec) and 'nvals' in fn.selfv.fields)
    ABSORB = ('(numFrameS == old(self._numFrames) and (old(self.repeat) == 0'
              ' or tellLrPos == old(self.datum) + old(self.stride) * (old(self.repeat) + 1)))')
    reg.add(Contract(
        FL, 'RLEItemType01.add', {'self': ITEM01, 'tellLrPos': Int, 'numFrameS': Int, 'xAxisValue': Real}, requires=I01_REQ,
        returns=Bool, modifies=['self.stride', 'self.repeat', 'self._rleXaxis.nvals'], crosscheck=False,
        ensures=[
            # a record joins the run only with the same frame count and at the extrapolated file position ...
            'result == %s' % ABSORB,
            # ... and then it is the new last record of the run, and the X axis got exactly one more value
            'implies(result, self.repeat == old(self.repeat) + 1 and tellLrPos == self.datum + self.repeat * self.stride'
            ' and self._rleXaxis.nvals == self.repeat + 1)',
            'implies(result and old(self.repeat) > 0, self.stride == old(self.stride))',
            # a refused record leaves the run as it was (the side effect of the base class add must not leak)
            'implies(not result, self.stride == old(self.stride) and self.repeat == old(self.repeat)'
            ' and self._rleXaxis.nvals == old(self._rleXaxis.nvals))'],
        canaries=['result', 'not result']))
    # RLEItemType01.__init__ is executed from its real body; the X-axis RLE it creates is the abstract one (no values yet)
    reg.add_alternative(Contract(F, 'RLE.__init__', {'self': KRec('RLE'), 'theFunc': NoneK}, returns=NoneK, trusted=True,
                     modifies=[('self.nvals', Int)], ensures=['self.nvals == 0'], name='RLE.__init__[x-axis]',
                     note='X-axis RLE created inside RLEItemType01.__init__: abstracted to "no values yet"; RLE.__init__ and '
                          'RLE.num_values are proved above (no runs, so no values)'),
                        lambda eng, fn, args, st: eng.frame.qual == 'RLEItemType01.__init__')
    reg.add(Contract(FL, 'RLEItemType01.__init__', inline=True))
    T01 = KRec('RLEType01', rle_items=KView(ITEM01), function=NoneK)
    SPEC01 = '''
def t01_ri(items, fstart):
    return (len(fstart) == len(items) + 1 and fstart[0] == 0
            and forall(0, len(items), lambda j: items[j].repeat >= 0 and items[j]._numFrames >= 1
                       and implies(items[j].repeat == 0, items[j].stride == 0)
                       and items[j]._rleXaxis.nvals == items[j].repeat + 1
                       and fstart[j + 1] == fstart[j] + items[j]._numFrames * (items[j].repeat + 1),
                       trigger=lambda j: [items[j].repeat])
            and forall_n(lambda a, b: implies(0 <= a and a <= b and b <= len(items), fstart[a] <= fstart[b]),
                         trigger=lambda a, b: (fstart[a], fstart[b])))
'''
    reg.add_spec_source(SPEC01)

    GEN01 = '''
def gen(rnd, module):
    t = module.RLEType01('FEET')
    pos, triples = 100, []
    for _ in range(rnd.randint(0, 7)):
        nf = rnd.choice([1, 2, 3, 3, 5])
        pos += rnd.choice([10, 10, 10, 17, 24])
        t.add(pos, nf, float(len(triples)))
        triples.append((pos, nf))
    fstart = [0]
    for it in t.rle_items:
        fstart.append(fstart[-1] + it._numFrames * (it.repeat + 1))
        it._rleXaxis.nvals = it._rleXaxis.num_values()
    f = rnd.randint(-2, fstart[-1] + 2)
    run = 0
    for j in range(len(t.rle_items)):
        if fstart[j] <= f < fstart[j + 1]:
            run = j
    return {'self': t, 'fstart': fstart, 'run': run, 'fNum': f}
'''
    G01 = {'fstart': KView(Int)}
    GEN01ADD = '''
def gen(rnd, module):
    module.RLE.nvals = property(lambda s: s.num_values(), lambda s, v: None)     # the abstraction of the X-axis RLE, read live
    t = module.RLEType01('FEET')
    pos = 100
    for _ in range(rnd.randint(0, 7)):
        pos += rnd.choice([10, 10, 10, 17, 24])
        t.add(pos, rnd.choice([1, 2, 3, 3, 5]), float(pos))
    fstart = [0]
    for it in t.rle_items:
        fstart.append(fstart[-1] + it._numFrames * (it.repeat + 1))
        it._rleXaxis.nvals = it._rleXaxis.num_values()
    return {'self': t, 'fstart': fstart, 'tellLrPos': pos + rnd.choice([10, 10, 17, 24]), 'numFrameS': rnd.choice([1, 2, 3, 3, 5]),
            'xAxisValue': float(pos)}
'''
    NI, LASTI = 'len(self.rle_items)', 'self.rle_items[len(self.rle_items) - 1]'
    OLDM = 'len(old(self.rle_items)) - 1'
    reg.add(Contract(
        FL, 'RLEType01.add', {'self': T01, 'tellLrPos': Int, 'numFrameS': Int, 'xAxisValue': Real}, ghost=G01,
        requires=['t01_ri(self.rle_items, fstart)', 'numFrameS >= 1'], modifies=['self.rle_items'], returns=NoneK,
        native_gen=GEN01ADD,
        ghost_post={'fstart': 'ite(len(self.rle_items) == len(old(self.rle_items)),'
                              ' fstart[:len(fstart) - 1] + [fstart[len(fstart) - 1] + numFrameS],'
                              ' fstart + [fstart[len(fstart) - 1] + numFrameS])'},
        ensures=[
            't01_ri(self.rle_items, fstart)', 'is_none(self.function)',
            # the index now ends with this record: its frames are the last numFrameS frames, at this file position
            '%s >= 1 and fstart[%s] == old(fstart[len(fstart) - 1]) + numFrameS' % (NI, NI),
            '%s._numFrames == numFrameS and %s.datum + %s.repeat * %s.stride == tellLrPos' % (LASTI, LASTI, LASTI, LASTI),
            # nothing recorded before is disturbed: earlier runs are untouched, the last run keeps its start and spacing
            '%s == len(old(self.rle_items)) or %s == len(old(self.rle_items)) + 1' % (NI, NI),
            'forall(0, len(old(self.rle_items)) - 1, lambda j: self.rle_items[j].datum == old(self.rle_items)[j].datum'
            ' and self.rle_items[j].stride == old(self.rle_items)[j].stride and self.rle_items[j].repeat == old(self.rle_items)[j].repeat'
            ' and self.rle_items[j]._numFrames == old(self.rle_items)[j]._numFrames)',
            'forall(0, len(old(self.rle_items)), lambda j: fstart[j] == old(fstart)[j])',
            # the run that was last keeps its first position and frame count, loses no record, and (once it has a spacing) keeps it
            'implies(len(old(self.rle_items)) > 0, self.rle_items[%s].datum == old(self.rle_items)[%s].datum'
            ' and self.rle_items[%s]._numFrames == old(self.rle_items)[%s]._numFrames'
            ' and self.rle_items[%s].repeat >= old(self.rle_items)[%s].repeat'
            ' and implies(old(self.rle_items)[%s].repeat > 0, self.rle_items[%s].stride == old(self.rle_items)[%s].stride))' % ((OLDM,) * 9)],
        canaries=['len(self.rle_items) == len(old(self.rle_items))', 'len(self.rle_items) != len(old(self.rle_items))']))
    # the same with a position-conversion function installed (RLE(theFunc)): an arbitrary total function on integers; every
    # position is converted exactly once, before it is compared with the run or stored
    import z3 as _z3
    _POSF = _z3.Function('rle_position_function', _z3.IntSort(), _z3.IntSort())
    POSFN = Fn(lambda eng, st, args, kw, node: [(st, _POSF(to_int(args[0])))], 'rle_position_function')
    T01F = KRec('RLEType01', rle_items=KView(ITEM01), function=POSFN)
    reg.add(Contract(
        FL, 'RLEType01.add', {'self': T01F, 'tellLrPos': Int, 'numFrameS': Int, 'xAxisValue': Real}, ghost=G01,
        name='RLEType01.add[position function]',
        requires=['t01_ri(self.rle_items, fstart)', 'numFrameS >= 1'], modifies=['self.rle_items'], returns=NoneK, crosscheck=False,
        ghost_post={'fstart': 'ite(len(self.rle_items) == len(old(self.rle_items)),'
                              ' fstart[:len(fstart) - 1] + [fstart[len(fstart) - 1] + numFrameS],'
                              ' fstart + [fstart[len(fstart) - 1] + numFrameS])'},
        ensures=[
            't01_ri(self.rle_items, fstart)',
            '%s >= 1 and fstart[%s] == old(fstart[len(fstart) - 1]) + numFrameS' % (NI, NI),
            # the record is indexed at the CONVERTED position, whether it starts a run or extends one
            '%s._numFrames == numFrameS and %s.datum + %s.repeat * %s.stride == self.function(tellLrPos)' % (LASTI, LASTI, LASTI, LASTI),
            # a run is extended exactly when the converted position continues it
            'implies(len(old(self.rle_items)) > 0, (len(self.rle_items) == len(old(self.rle_items))) == '
            '(numFrameS == old(self.rle_items)[%s]._numFrames and (old(self.rle_items)[%s].repeat == 0 or self.function(tellLrPos) == '
            'old(self.rle_items)[%s].datum + old(self.rle_items)[%s].stride * (old(self.rle_items)[%s].repeat + 1))))' % ((OLDM,) * 5)],
        canaries=['len(self.rle_items) == len(old(self.rle_items))', 'len(self.rle_items) != len(old(self.rle_items))']), callable_=False)
    reg.add(Contract(
        FL, 'RLEType01.totalFrames', {'self': T01}, ghost=G01, requires=['t01_ri(self.rle_items, fstart)'], returns=Int,
        native_gen=GEN01.replace(", 'run': run, 'fNum': f", ''),
        ensures=['result == fstart[len(self.rle_items)]'],
        exit_lemmas=[Induction('n', '0', 'len(self.rle_items)', '_psum(n) == fstart[n]')], canaries=['result == 0']))
    reg.add(Contract(
        FL, 'RLEType01.tellLrForFrame', {'self': T01, 'fNum': Int}, ghost=dict(G01, run=Int), native_gen=GEN01,
        requires=['t01_ri(self.rle_items, fstart)',
                  # `run` is the run that holds the frame, when there is one
                  'implies(0 <= fNum and fNum < fstart[len(self.rle_items)], 0 <= run and run < len(self.rle_items)'
                  ' and fstart[run] <= fNum and fNum < fstart[run + 1])'],
        returns=KTup(Int, Int),
        raises={'IndexError': 'fNum < 0 or fNum >= fstart[len(self.rle_items)]'},
        ensures=['result[0] == self.rle_items[run].datum + ((fNum - fstart[run]) // self.rle_items[run]._numFrames) * self.rle_items[run].stride',
                 'result[1] == (fNum - fstart[run]) % self.rle_items[run]._numFrames'],
        loops=[Loop('for r in self.rle_items', index='k', kinds={'v': KOpt(KTup(Int, Int, Int))},
                    invariants=['fNum >= 0 and old(fNum) == fstart[k] + fNum', 'k <= run or old(fNum) >= fstart[len(self.rle_items)]'])],
        canaries=['result[1] == 0']))
