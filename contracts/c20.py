"""C20 — file type identification recognises every supported format and never crashes (util/bin_file_type.py).

Under contract (verified): every magic-number test (_rcd, _stk, _cfbf, _pds, _xml, _pdf, _ps, _zip, _tiff, _jpeg, _exe)
with its exact accepted prefix set, the TIF helpers (_tif_third_word, _tif_third_word_normal, _tif_initial inlined),
_bit, _rp66v1, _rp66v1_tif, _rp66v1_tif_r, _rp66v1_tif_general, _lasv12/20/30 (against the assumed contract of _las)
and the dispatcher binary_file_type, whose loop over FUNCTION_ID_MAP (read from the source) is unrolled completely:
  * for ANY file content the result is '' or one of the documented codes, no exception leaves the dispatcher and the
    file is positioned at its start afterwards,
  * a file that starts with a BIT TIF marker is 'BIT', a file that starts with a conformant storage unit label is
    'RP66V1' - whatever follows, so independent of data content and size,
  * a LIS file (plain or TIF marked) that begins with a reel / tape / file header is given to the LIS test: it is not
    captured by an earlier test, in particular not by the ASCII test, and the answer is what _lis says.
Assumed (not verified; tested natively each run, see ASSUMED below): the "only if" facts of the scanning tests
(_las, _rp66v1_bytes, _rp66v2, _dat, _segy, _lis_ver, _ascii, _lis) and that they raise nothing.  The bounded stand-in
(standins/c20_filetype.py) runs the real dispatcher on generated files of every format and on arbitrary byte strings."""
from pyvc.kinds import *
from pyvc.contract import Contract, Loop, Lemma

BF = 'src/TotalDepth/util/bin_file_type.py'
FOBJ = KRec('BinaryIO', data=Bytes, pos=Int)

CODES = ['RCD', 'STK', 'BIT', 'CFBF', 'PDS', 'XML', 'PDF', 'PS', 'ZIP', 'TIFF', 'JPEG', 'SEGY', 'LIS', 'LISt', 'LIStr', 'LAS1.2', 'LAS2.0',
         'LAS3.0', 'RP66V1', 'RP66V1t', 'RP66V1tr', 'RP66V2', 'ASCII', 'DAT', 'LISVER']

SPEC = '''
def le32(d, p):
    return d[p] + 256 * d[p + 1] + 65536 * d[p + 2] + 16777216 * d[p + 3]

def be32(d, p):
    return 16777216 * d[p] + 65536 * d[p + 1] + 256 * d[p + 2] + d[p + 3]

def tif3(d):
    """third word of a TIF marker as the code reads it: little endian unless that exceeds 0xffff"""
    return le32(d, 8) if le32(d, 8) <= 65535 else be32(d, 8)

def zero4(d, p):
    return d[p] == 0 and d[p + 1] == 0 and d[p + 2] == 0 and d[p + 3] == 0

def ws(b):
    """bytes.strip() white space"""
    return b == 32 or (9 <= b and b <= 13)

def digit(b):
    return 48 <= b and b <= 57

def nzdigit(b):
    return 49 <= b and b <= 57

def pad(b):
    return b == 48 or b == 32

def printable(b):
    """string.printable"""
    return (32 <= b and b <= 126) or (9 <= b and b <= 13)

def number_field(d, p, n):
    """RP66V1 2.3.2: a positive integer, right justified in n characters at p, blank or zero filled"""
    return exists(p, p + n, lambda k: nzdigit(d[k]) and forall(p, k, lambda j: pad(d[j])) and forall(k + 1, p + n, lambda j: digit(d[j])))

def sul_conformant(d):
    """the first 80 bytes are a conformant RP66V1 storage unit label"""
    return (len(d) >= 80 and number_field(d, 0, 4)
            and d[4] == 86 and d[5] == 49 and d[6] == 46 and digit(d[7]) and digit(d[8])
            and d[9] == 82 and d[10] == 69 and d[11] == 67 and d[12] == 79 and d[13] == 82 and d[14] == 68
            and number_field(d, 15, 5)
            and forall(20, 80, lambda j: 32 <= d[j] and d[j] <= 126))

def lis_head(d, p):
    """LIS-79 2.2.1.1 physical record attributes (reserved, unused, type and predecessor bits clear) and a reel / tape / file header LRH"""
    return (d[p + 2] < 64 and (d[p + 2] // 8) % 2 == 0 and d[p + 2] % 2 == 0 and d[p + 3] < 128 and d[p + 3] % 32 <= 1
            and (d[p + 4] == 128 or d[p + 4] == 130 or d[p + 4] == 132) and d[p + 5] == 0)

def first_nonws(d, k):
    return 0 <= k and k < len(d) and (not ws(d[k])) and forall(0, k, lambda j: ws(d[j]))
'''


def sig_cond(d, sig):
    return '(len(%s) >= %d and %s)' % (d, len(sig), ' and '.join('%s[%d] == %d' % (d, i, b) for i, b in enumerate(sig)))


MAGIC = {
    '_rcd': ('RCD', [b'\x04\x00\x00\x00\x00\x00\x00\x00\xff\xff\xff\xff\x00\x00\x00\x00']),
    '_stk': ('STK', [b'\x04\x00\x00\x00\x01\x00\x00\x00\x04\x00\x00\x00']),
    '_cfbf': ('CFBF', [b'\xd0\xcf\x11\xe0\xa1\xb1\x1a\xe1']),
    '_pds': ('PDS', [b'\x01\x19\xf1\xf8\xff\x82\x03\x84']),
    '_xml': ('XML', [b'<?xml ']),
    '_pdf': ('PDF', [b'%PDF-']),
    '_ps': ('PS', [b'%!Ps-']),
    '_zip': ('ZIP', [b'PK\x03\x04']),
    '_tiff': ('TIFF', [b'II*\x00']),
    '_jpeg': ('JPEG', [b'\xFF\xD8\xFF\xDB', b'\xFF\xD8\xFF\xE0\x00\x10\x4A\x46\x49\x46\x00\x01', b'\xFF\xD8\xFF\xEE']),
    '_exe': ('EXE', [b'\x4d\x5a']),
}

D = 'fobj.data'
BIT_IFF = '(len(%s) >= 288 and ((not zero4(%s, 0)) or zero4(%s, 4)) and tif3(%s) == 288)' % (D, D, D, D)
# what the dispatcher may return
IN_CODES = '(result == "" or %s)' % ' or '.join('result == "%s"' % c for c in CODES)
# hypotheses on the beginning of a LIS file [LIS-79 2.2, 2.3]: physical record header, logical record header with
# type 128 (file), 130 (tape) or 132 (reel): the type byte is >= 128.  Plain: at 4; TIF marked: at 16 after an all
# zero type word and previous-pointer.
# lis_head(d, p): a first physical record header at p whose attribute word has no reserved / unused / type / predecessor
# bit set, followed by a logical record header of type 128, 130 or 132 with a zero attribute byte.
# (bytes 16, 17 of a plain LIS file lie in the header's name fields: a file carrying "V1" there is left out - it could be a
# TIF-marked RP66V1 label as far as the signature test can tell; likewise the four bytes at 8 spelling the BIT third word)
LIS_PLAIN = ('(len(%s) >= 18 and lis_head(%s, 0) and not (%s[16] == 86 and %s[17] == 49) and tif3(%s) != 288 and (' % (D, D, D, D, D) +
             ' or '.join('(first_nonws(%s, %d) and %s[%d] != 126 and %s[%d] != 35 and %s[%d] != 61)' % (D, k, D, k, D, k, D, k) for k in range(5)) + '))')
LIS_TIF = '(len(%s) >= 18 and zero4(%s, 0) and zero4(%s, 4) and lis_head(%s, 12) and tif3(%s) != 288)' % (D, D, D, D, D)
NOT_MAGIC_TEXT = ' and '.join('result != "%s"' % c for c in ('RCD', 'STK', 'BIT', 'CFBF', 'PDS', 'TIFF', 'JPEG', 'ZIP'))

ASSUMED = [
    '_las: returns "" or "LAS"+prefix; "" when the first non-white-space byte of the file is neither "~" nor "#"; raises nothing',
    '_rp66v1_bytes: "" or "RP66V1"; "RP66V1" for a conformant storage unit label (pattern side: the regex-inclusion obligations of this check); '
    '"RP66V1" only if by[4:6] == "V1"',
    '_rp66v2: "" or "RP66V2"; "RP66V2" only if byte 4 is "V"', '_dat: "" or "DAT"; "" when any byte is >= 128; raises nothing',
    '_segy: "" or "SEGY"; raises nothing', '_lis_ver: "" or "LISVER"; "" when the first non-white-space byte is not "="',
    None,      # _ascii: verified since round 2, no longer assumed
    '_lis: "", "LIS", "LISt" or "LIStr"; raises nothing',
]
ASSUMPTIONS = ['assumed contracts of the scanning tests (each tested natively on generated inputs every run, bounded): ' + '; '.join(a for a in ASSUMED if a)]

GEN_FILE = '''
import io, random
SIGS = [b'\\x04\\x00\\x00\\x00\\x00\\x00\\x00\\x00\\xff\\xff\\xff\\xff\\x00\\x00\\x00\\x00', b'\\x04\\x00\\x00\\x00\\x01\\x00\\x00\\x00\\x04\\x00\\x00\\x00',
        b'\\xd0\\xcf\\x11\\xe0\\xa1\\xb1\\x1a\\xe1', b'\\x01\\x19\\xf1\\xf8\\xff\\x82\\x03\\x84', b'<?xml ', b'%PDF-', b'%!Ps-', b'PK\\x03\\x04', b'II*\\x00',
        b'\\xFF\\xD8\\xFF\\xDB', b'\\xFF\\xD8\\xFF\\xE0\\x00\\x10\\x4A\\x46\\x49\\x46\\x00\\x01', b'\\xFF\\xD8\\xFF\\xEE', b'MZ',
        b'\\x00' * 8 + b'\\x20\\x01\\x00\\x00', b'\\x00' * 8 + b'\\x00\\x00\\x01\\x20', b'\\x00\\x00\\x00\\x01' + b'\\x00' * 4 + b'\\x20\\x01\\x00\\x00',
        b'   1V1.00RECORD 8192' + b'Default Storage Set'.ljust(60), b'0001V1.00RECORD08192' + b'x' * 60,
        b'\\x00' * 8 + b'\\x5c\\x00\\x00\\x00' + b'   1V1.00RECORD 8192' + b'Default Storage Set'.ljust(60),
        b'~Version\\n VERS. 2.0 : CWLS\\n WRAP. NO :\\n', b'# c\\n\\n~V\\nVERS. 1.2: x\\n', b'~V\\n VERS. 3.0 : x\\n',
        b'~V\\nVERS.   2.00 : CWLS log ASCII Standard\\nWRAP. NO:\\n', b'~VERSION\\n VERS. 1.20: x\\n', b'~V\\nVERS. 2.0.1 : x\\n', b'~V\\nVERS. 2.05:\\n',
        b'=LIS VERIFICATION by PETROLOG rev 1234', b'UTIM\\nUTIM A\\n1 2\\n', b'\\x00\\x3e\\x00\\x00\\x80\\x00' + b'FILE  .001' + b' ' * 46,
        b'\\x00' * 8 + b'\\x4a\\x00\\x00\\x00' + b'\\x00\\x3e\\x00\\x00\\x80\\x00' + b'FILE  .001' + b' ' * 46,
        bytes([0xC3, 0xF0, 0xF1]) + bytes([0x40]) * 77, b'',
        b'UTIM Unix Time sec\\nDATE Date ddmmyy\\nTIME Time hhmmss\\n' + b''.join(b'C%03d Channel number %03d with a long description m\\n' % (i, i) for i in range(120)) + b'UTIM DATE TIME ' + b' '.join(b'C%03d' % i for i in range(120)) + b'\\n1165665017 09Dec06 11-50-17 ' + b' '.join(b'1.5' for i in range(120)) + b'\\n',
        # witnesses of the repaired defects (SEGY card number, LIS indexer exceptions through _lis)
        bytes([0xC3, 0xC1, 0xC1]) + bytes([0x40]) * 3197, bytes.fromhex('0005000080'), bytes.fromhex('000c000040000200420000ff'),
        bytes.fromhex('000d00004000040142ff090441'),
        bytes.fromhex('00310000400000004280202020202020202020202020202020202046454554000000000000000400000000440000000000'),
        bytes.fromhex('0031000040000000428020202020202020202020202020202020204645455400000000000000040000000144000000000000000600000000')]

class NFile(io.BytesIO):
    @property
    def data(self):
        return self.getvalue()
    @property
    def pos(self):
        return self.tell()

def gen(rnd, module):
    r = rnd.random()
    base = rnd.choice(SIGS)
    if r < 0.15:
        base = bytes(rnd.randrange(256) for _ in range(rnd.choice([0, 1, 3, 12, 40, 300])))
    elif r < 0.3:
        base = bytes(rnd.choice(b' \\t\\n~#=V019.:AZaz') for _ in range(rnd.choice([1, 5, 30, 200])))
    tail = rnd.choice([b'', b'\\x00' * 300, bytes(rnd.randrange(256) for _ in range(rnd.choice([10, 300]))), b' ' * 300, b'0' * 3300])
    d = bytearray(base + tail)
    if d and rnd.random() < 0.3:
        i = rnd.randrange(min(len(d), 24))
        d[i] = rnd.choice([0, 1, 0x20, 0x7e, 0x80, 0xff, rnd.randrange(256)])
    if rnd.random() < 0.15:
        d = d[:rnd.randrange(len(d) + 1)]
    f = NFile(bytes(d))
    f.seek(rnd.choice([0, 0, len(d), min(len(d), 5)]))
    return {'fobj': f}

def gen_bytes(rnd, module):
    f = gen(rnd, module)['fobj']
    d = f.getvalue()
    if rnd.random() < 0.5 and len(d) >= 12:
        return {'by': d[12:]}
    return {'by': d}
'''


def register(reg):
    reg.add_spec_source(SPEC)
    # ------------------------------------------------------------------ magic numbers: exact
    for fn, (code, sigs) in MAGIC.items():
        cond = ' or '.join(sig_cond(D, s) for s in sigs)
        reg.add(Contract(BF, fn, {'fobj': FOBJ}, returns=Str, modifies=['fobj.pos'],
                         ensures=['result == ("%s" if (%s) else "")' % (code, cond)],
                         canaries=['result == ""', 'result == "%s"' % code], native_gen=GEN_FILE))
    # ------------------------------------------------------------------ TIF helpers and BIT
    reg.add(Contract(BF, '_tif_third_word', {'by': Bytes}, requires=['len(by) >= 12'], returns=Int, ensures=['result == tif3(by)'],
                     canaries=['result == le32(by, 8)']))
    reg.add(Contract(BF, '_tif_third_word_normal', {'by': Bytes}, requires=['len(by) >= 12'], returns=Bool,
                     ensures=['result == (le32(by, 8) <= 65535)'], canaries=['result']))
    reg.add(Contract(BF, '_tif_initial', inline=True))      # returns 0, '', 'TIF' or 'TIFr' (mixed types): inlined at its two call sites
    reg.add(Contract(BF, '_bit', {'fobj': FOBJ}, returns=Str, modifies=['fobj.pos'],
                     ensures=['result == ("BIT" if %s else "")' % BIT_IFF,
                              # the BIT layout (TIF marker type 0, previous 0, next 0x120, then at least 0x114 bytes): recognised
                              'implies(len(%s) >= 288 and zero4(%s, 0) and zero4(%s, 4) and le32(%s, 8) == 288, result == "BIT")' % (D, D, D, D)],
                     canaries=['result == ""', 'result == "BIT"'], native_gen=GEN_FILE))
    # ------------------------------------------------------------------ scanning tests: ASSUMED contracts, tested natively
    LASENS = ['forall_n(lambda k: implies(first_nonws(%s, k) and %s[k] != 126 and %s[k] != 35, result == ""), trigger=lambda k: %s[k])' % (D, D, D, D)]
    reg.add(Contract(BF, '_las', {'fobj': FOBJ, 'version_prefix': Bytes}, returns=Str, modifies=['fobj.pos'], trusted=True,
                     requires=['len(version_prefix) == 3'],
                     ensures=['result == "" or (version_prefix[0] == 49 and version_prefix[2] == 50 and result == "LAS1.2")'
                              ' or (version_prefix[0] == 50 and version_prefix[2] == 48 and result == "LAS2.0")'
                              ' or (version_prefix[0] == 51 and version_prefix[2] == 48 and result == "LAS3.0")'] + LASENS,
                     note=ASSUMED[0], crosscheck='assumed', native_gen=GEN_FILE.replace("return {'fobj': f}", "return {'fobj': f, 'version_prefix': rnd.choice([b'1.2', b'2.0', b'3.0'])}")), verify=False)
    for fn, code in (('_lasv12', 'LAS1.2'), ('_lasv20', 'LAS2.0'), ('_lasv30', 'LAS3.0')):
        reg.add(Contract(BF, fn, {'fobj': FOBJ}, returns=Str, modifies=['fobj.pos'],
                         ensures=['result == "" or result == "%s"' % code] + LASENS, native_gen=GEN_FILE))
    reg.add(Contract(BF, '_rp66v1_bytes', {'by': Bytes}, returns=Str, trusted=True,
                     ensures=['result == "" or result == "RP66V1"', 'implies(sul_conformant(by), result == "RP66V1")',
                              'implies(result != "", len(by) >= 80 and by[4] == 86 and by[5] == 49)'],
                     note=ASSUMED[1], crosscheck='assumed', native_gen=GEN_FILE.replace('def gen(', 'def gen_file(').replace('def gen_bytes(', 'def gen(').replace("f = gen(rnd, module)", "f = gen_file(rnd, module)")), verify=False)
    reg.add(Contract(BF, '_rp66v2', {'fobj': FOBJ}, returns=Str, modifies=['fobj.pos'], trusted=True,
                     ensures=['result == "" or result == "RP66V2"', 'implies(result != "", len(%s) >= 128 and %s[4] == 86)' % (D, D)],
                     note=ASSUMED[2], crosscheck='assumed', native_gen=GEN_FILE), verify=False)
    # _dat is VERIFIED against an assumed contract of DAT_parser.can_parse_file stated as an uninterpreted predicate of WHICH
    # bytes of the file it is given: the answer is the parser's verdict on the whole file, decoded as ASCII
    reg.add(Contract('src/TotalDepth/DAT/DAT_parser.py', 'can_parse_file', {'file_object': Untracked}, returns=Bool, trusted=True,
                     ensures=['result == text_pred("dat", file_object)'],
                     note='DAT_parser.can_parse_file(text): a function of the text alone (uninterpreted), raises nothing (C14)'), verify=False)
    reg.add(Contract(BF, '_dat', {'fobj': FOBJ}, returns=Str, modifies=['fobj.pos'],
                     ensures=['result == ("DAT" if (forall(0, len(%s), lambda k: %s[k] < 128) and file_pred("dat", 0, len(%s))) else "")' % (D, D, D),
                              'forall_n(lambda k: implies(0 <= k and k < len(%s) and %s[k] >= 128, result == ""), trigger=lambda k: %s[k])' % (D, D, D)],
                     canaries=['result == ""', 'result == "DAT"'], native_gen=GEN_FILE))
    reg.add(Contract(BF, '_segy', {'fobj': FOBJ}, returns=Str, modifies=['fobj.pos'], trusted=True,
                     ensures=['result == "" or result == "SEGY"', 'implies(result != "", len(%s) >= 3200)' % D],
                     note=ASSUMED[4], crosscheck='assumed', native_gen=GEN_FILE), verify=False)
    reg.add(Contract(BF, '_lis_ver', {'fobj': FOBJ}, returns=Str, modifies=['fobj.pos'], trusted=True,
                     ensures=['result == "" or result == "LISVER"',
                              'forall_n(lambda k: implies(first_nonws(%s, k) and %s[k] != 61, result == ""), trigger=lambda k: %s[k])' % (D, D, D)],
                     note=ASSUMED[5], crosscheck='assumed', native_gen=GEN_FILE), verify=False)
    # _ascii: VERIFIED from its real body since round 2 (set(bytes) and issubset modelled; ASCII_BYTES_LOWER_128 read from the source)
    reg.add(Contract(BF, '_ascii', {'fobj': FOBJ}, returns=Str, modifies=['fobj.pos'],
                     ensures=['result == "" or result == "ASCII"',
                              'forall_n(lambda k: implies(0 <= k and k < len(%s) and k < 256 and %s[k] >= 128, result == ""), trigger=lambda k: %s[k])' % (D, D, D),
                              'implies(forall(0, len(%s), lambda k: %s[k] < 128), result == "ASCII")' % (D, D),
                              # exactly: only the first 256 bytes count
                              'implies(forall(0, len(%s), lambda k: implies(k < 256, %s[k] < 128)), result == "ASCII")' % (D, D)],
                     canaries=['result == ""', 'result == "ASCII"'], native_gen=GEN_FILE))
    reg.add(Contract(BF, '_lis', {'fobj': FOBJ}, returns=Str, modifies=['fobj.pos'], trusted=True,
                     ensures=['result == "" or result == "LIS" or result == "LISt" or result == "LIStr"'],
                     note=ASSUMED[7], crosscheck='assumed', native_gen=GEN_FILE), verify=False)
    # ------------------------------------------------------------------ RP66V1 entry points over _rp66v1_bytes
    reg.add(Contract(BF, '_rp66v1', {'fobj': FOBJ}, returns=Str, modifies=['fobj.pos'],
                     ensures=['result == "" or result == "RP66V1"', 'implies(sul_conformant(%s), result == "RP66V1")' % D,
                              'implies(result != "", len(%s) >= 80 and %s[4] == 86 and %s[5] == 49)' % (D, D, D)],
                     canaries=['result == ""'], native_gen=GEN_FILE))
    reg.add(Contract(BF, '_rp66v1_tif_general', {'by': Bytes, 'tif_next': Int}, requires=['len(by) >= 92'], returns=Str,
                     ensures=['result == "" or result == "RP66V1" or result == "RP66V1t" or result == "RP66V1tr"',
                              'implies(result != "", by[16] == 86 and by[17] == 49 and tif_next == 92)'], canaries=['result == ""']))
    for fn in ('_rp66v1_tif', '_rp66v1_tif_r'):
        reg.add(Contract(BF, fn, {'fobj': FOBJ}, returns=Str, modifies=['fobj.pos'],
                         ensures=['result == "" or result == "RP66V1" or result == "RP66V1t" or result == "RP66V1tr"',
                                  'implies(result != "", len(%s) >= 92 and %s[16] == 86 and %s[17] == 49)' % (D, D, D)],
                         loops=[Loop('for i in range(0, 4)', unroll=True)], canaries=['result == ""'], native_gen=GEN_FILE))
    # ------------------------------------------------------------------ the dispatcher
    reg.add(Contract(
        BF, 'binary_file_type', {'fobj': FOBJ}, returns=Str, modifies=['fobj.pos'],
        ensures=[IN_CODES, 'fobj.pos == 0',
                 # BIT: whatever follows the first TIF marker (content and size independence), provided 0x114 bytes do follow
                 'implies(len(%s) >= 288 and zero4(%s, 0) and zero4(%s, 4) and le32(%s, 8) == 288, result == "BIT")' % (D, D, D, D),
                 # RP66V1: decided by the storage unit label alone
                 'implies(sul_conformant(%s), result == "RP66V1")' % D,
                 # LIS beginning with a reel / tape / file header reaches the LIS test or an assumed-negative scanning test
                 'implies(%s, result == "" or result == "LIS" or result == "LISt" or result == "LIStr" or result == "SEGY")' % LIS_PLAIN,
                 'implies(%s, result == "" or result == "LIS" or result == "LISt" or result == "LIStr" or result == "SEGY")' % LIS_TIF,
                 # printable text (LAS, DAT) is never taken for one of the binary magic formats
                 'implies(forall(0, len(%s), lambda k: printable(%s[k])), %s)' % (D, D, NOT_MAGIC_TEXT),
                 ],
        loops=[Loop('for (fn, typ) in FUNCTION_ID_MAP', unroll=True)],
        canaries=['result == ""', 'result != "LIS"', 'result != "RP66V1"', 'result != "BIT"', 'result != "ASCII"'],
        native_gen=GEN_FILE, timeout=60))
    # the dispatcher's VCs (27 string results, byte-prefix disjunctions) suit z3's automatic configuration; plain e-matching
    # with auto_config off runs to its time limit on some of them before the next stage proves them in seconds
    reg.contracts[(BF, 'binary_file_type')].solver_order = ['z3-mbqi-short', 'z3-ematch', 'z3-default', 'z3-seed1']


def _regex_literal(section, name):
    """RE_COMPILED[section][name] pattern literal read from the real source."""
    import ast
    from pyvc import source
    from pyvc.kinds import ContractError
    node = source.load(BF).assigns['RE_COMPILED']
    for k, v in zip(node.keys, node.values):
        if isinstance(k, ast.Constant) and k.value == section:
            for k2, v2 in zip(v.keys, v.values):
                if isinstance(k2, ast.Constant) and k2.value == name:
                    if isinstance(v2, ast.Call) and ast.unparse(v2.func) == 're.compile' and isinstance(v2.args[0], ast.Constant):
                        return v2.args[0].value
    raise ContractError('RE_COMPILED[%r][%r] is not a re.compile(<literal>)' % (section, name))


def extra_obligations(reg):
    """Every conformant storage-unit-label field is accepted by the pattern bin_file_type applies to it (regular-language
    inclusion, z3 regex theory, pattern literals read from the source); ordering of FUNCTION_ID_MAP is read by the engine."""
    import z3
    from pyvc import regex
    out = []
    s = z3.String('field')
    digit, nz = z3.Range(z3.StringVal('0'), z3.StringVal('9')), z3.Range(z3.StringVal('1'), z3.StringVal('9'))
    padre = z3.Star(z3.Union(z3.Re(z3.StringVal('0')), z3.Re(z3.StringVal(' '))))
    number = z3.Concat(padre, nz, z3.Star(digit))
    for name, width, conf in (('Comment_1', 4, number), ('Comment_2', 5, z3.Concat(z3.Re(z3.StringVal('V1.')), digit, digit)),
                              ('Comment_3', 6, z3.Re(z3.StringVal('RECORD'))), ('Comment_4', 5, number)):
        lit = _regex_literal('RP66V1', name)
        lang = regex.match_lang(lit)
        out.append(dict(name='bin_file_type.py:_rp66v1_bytes/%s-accepts-conformant' % name, pc=[z3.Length(s) == width, z3.InRe(s, conf)],
                        goal=z3.InRe(s, lang), note='every conformant %d-character field matches %r' % (width, lit), func='_rp66v1_bytes'))
        out.append(dict(name='bin_file_type.py:_rp66v1_bytes/%s-canary' % name, pc=[z3.Length(s) == width], goal=z3.InRe(s, lang),
                        note='must fail: not every string is accepted', func='_rp66v1_bytes', expect_fail=True))
    # ---- identification terminates promptly: no pattern it applies can make CPython's backtracking matcher exponential through
    # a repetition whose body matches some word both as one iteration and as several (nested-quantifier blow-up)
    for pname, lit in _all_regex_literals():
        try:
            bodies = regex.unbounded_bodies(lit)
        except Exception as e:       # a construct outside the regex front end: said, not guessed
            from pyvc.kinds import Unsupported
            raise Unsupported('pattern %s = %r cannot be analysed: %s' % (pname, lit, e))
        for j, (body, txt) in enumerate(bodies):
            w, f = regex.splits_itself(body)
            out.append(dict(name='bin_file_type.py:%s/repetition#%d-has-one-parse' % (pname, j), pc=[f], goal=z3.BoolVal(False),
                            note='no non-empty word of %r is also a concatenation of several words of it (pattern %r): the repetition cannot '
                                 'backtrack exponentially' % (txt, lit), func='binary_file_type', replay_code=_REDOS_REPLAY % (BF, pname)))
    return out


_REDOS_REPLAY = '''
# the word w the solver found is matched by the repetition body both as one iteration and as several: re.match on w * n
# followed by a character that makes the whole match fail needs time exponential in n.  The compiled pattern is taken from
# the real module; exit 1 = the blow-up is observed (time doubles per repetition and passes 2 s), 0 = not observed.
import ast, re, time, importlib
src = open(os.path.join(os.environ.get("PYVC_REPO", "/repo"), %r)).read()
name = %r
try:
    mod = importlib.import_module("TotalDepth.util.bin_file_type")
except Exception as e:
    print("cannot import the module under test: %%r" %% (e,))
    sys.exit(2)
obj = mod
for part in re.findall(r"[A-Za-z_][A-Za-z_0-9]*|\\[[^\\]]*\\]", name):
    obj = obj[ast.literal_eval(part[1:-1])] if part.startswith("[") else getattr(obj, part)
w = ast.literal_eval(MODEL["w"]) if isinstance(MODEL.get("w"), str) else "00"
is_bytes = isinstance(obj.pattern, bytes)
prefixes = ["", " VERS. ", "VERS.   ", "~V\\n VERS. "]
worst = 0.0
for pre in prefixes:
    for n in range(4, 40):
        text = pre + w * n + "\\x01"
        t0 = time.perf_counter()
        obj.match(text.encode("latin-1") if is_bytes else text)
        dt = time.perf_counter() - t0
        worst = max(worst, dt)
        if dt > 2.0:
            print("pattern %%r: match on %%r * %%d + mismatch took %%.1f s (prefix %%r): exponential backtracking" %% (obj.pattern, w, n, dt, pre))
            sys.exit(1)
        if dt > 0.5 and n > 30:
            break
print("no blow-up observed (worst %%.3f s)" %% worst)
sys.exit(0)
'''


def _all_regex_literals():
    """(name, literal) of every re.compile(<literal>) of bin_file_type.py: module-level names and entries of module-level dicts"""
    import ast
    from pyvc import source
    mod = source.load(BF)
    found = []

    def visit(name, node):
        if isinstance(node, ast.Call) and ast.unparse(node.func) == 're.compile' and node.args and isinstance(node.args[0], ast.Constant):
            found.append((name, node.args[0].value))
        elif isinstance(node, ast.Dict):
            for k, v in zip(node.keys, node.values):
                visit('%s[%s]' % (name, ast.unparse(k) if k is not None else '**'), v)
    for name, node in mod.assigns.items():
        visit(name, node)
    n_calls = sum(1 for n in ast.walk(mod.tree) if isinstance(n, ast.Call) and ast.unparse(n.func) == 're.compile')
    if n_calls != len(found):
        from pyvc.kinds import Unsupported
        raise Unsupported('bin_file_type.py has %d re.compile calls, %d of them are module-level literals this check can read' % (n_calls, len(found)))
    return found


def standins(tier, seed):
    import os
    from pyvc import standin
    res = []
    if os.path.exists(os.path.join(standin.VERIF, 'standins', 'c20_filetype.py')):
        n = 20 if tier == 'quick' else 400
        res.append(standin.run_script('file-type-identification', 'c20_filetype.py', seed, n,
                                      'bounded: generated files of every supported format in every layout; random, truncated and mutated byte strings',
                                      '%d cases' % n))
    return res
