"""Shared contracts for the RP66V1 physical layer (RP66V1/core/pFile.py): used by C01 and C02.

Ghost file layout (RP66V1 sections 2.2.2 and 2.3.6): the file content F (= self.file.data) holds S logical record
segments in file order; segment j starts at sg_pos[j], has length sg_len[j], attribute byte sg_attr[j], type
sg_type[j] and lies in the visible record that starts at sg_vrp[j] and has length sg_vrl[j].
"""
from pyvc.kinds import *
from pyvc.contract import Contract, Loop, Lemma

PF = 'src/TotalDepth/RP66V1/core/pFile.py'

SPEC = '''
def be16(F, p):
    return F[p] * 256 + F[p + 1]

def bit(a, k):
    """bit k (value 2**k) of the attribute byte"""
    return (a // 2 ** k) % 2 == 1

def ldl(length, a):
    """logical data length: segment length - 4 header bytes - checksum (bit 2) - trailing length (bit 1)"""
    return length - 4 - (2 if bit(a, 2) else 0) - (2 if bit(a, 1) else 0)

def strips(a):
    """pad bytes present (bit 0) and not encrypted (bit 4)"""
    return bit(a, 0) and not bit(a, 4)

def padn(F, p, length, a):
    """pad count: the last byte of the logical data [RP66V1 2.2.2.4]"""
    return F[p + 4 + ldl(length, a) - 1] if strips(a) else 0

def plen(F, p, length, a):
    return ldl(length, a) - padn(F, p, length, a)

def seg_ok(F, j, sg_pos, sg_len, sg_attr, sg_type, sg_vrp, sg_vrl):
    return (be16(F, sg_pos[j]) == sg_len[j] and F[sg_pos[j] + 2] == sg_attr[j] and F[sg_pos[j] + 3] == sg_type[j]
            and sg_len[j] >= 16 and sg_pos[j] + sg_len[j] <= len(F)
            and 0 <= sg_attr[j] and sg_attr[j] <= 255 and 0 <= sg_type[j] and sg_type[j] <= 255
            and implies(strips(sg_attr[j]), 1 <= padn(F, sg_pos[j], sg_len[j], sg_attr[j])
                        and padn(F, sg_pos[j], sg_len[j], sg_attr[j]) <= ldl(sg_len[j], sg_attr[j]))
            and ldl(sg_len[j], sg_attr[j]) >= 0
            and sg_vrp[j] >= 80 and be16(F, sg_vrp[j]) == sg_vrl[j] and be16(F, sg_vrp[j] + 2) == 65281
            and 20 <= sg_vrl[j] and sg_vrl[j] <= 16384
            and sg_vrp[j] + 4 <= sg_pos[j] and sg_pos[j] + sg_len[j] <= sg_vrp[j] + sg_vrl[j])

def seg_next(j, sg_pos, sg_len, sg_vrp, sg_vrl):
    """segment j+1 follows segment j: directly, or after the 4-byte header of the next visible record"""
    return ((sg_vrp[j + 1] == sg_vrp[j] + sg_vrl[j] and sg_pos[j + 1] == sg_vrp[j + 1] + 4)
            if sg_pos[j] + sg_len[j] == sg_vrp[j] + sg_vrl[j]
            else (sg_vrp[j + 1] == sg_vrp[j] and sg_vrl[j + 1] == sg_vrl[j] and sg_pos[j + 1] == sg_pos[j] + sg_len[j]))

def layout_ok(F, sg_pos, sg_len, sg_attr, sg_type, sg_vrp, sg_vrl):
    return (len(sg_len) == len(sg_pos) and len(sg_attr) == len(sg_pos) and len(sg_type) == len(sg_pos)
            and len(sg_vrp) == len(sg_pos) and len(sg_vrl) == len(sg_pos)
            and forall(0, len(sg_pos), lambda j: seg_ok(F, j, sg_pos, sg_len, sg_attr, sg_type, sg_vrp, sg_vrl),
                       trigger=lambda j: [sg_len[j]])
            and forall(0, len(sg_pos) - 1, lambda j: seg_next(j, sg_pos, sg_len, sg_vrp, sg_vrl),
                       trigger=lambda j: [sg_len[j]])
            # positions increase along the file (a consequence of the two clauses above, stated so that the
            # prover does not need induction over the distance between two segments)
            and forall_n(lambda a, b: implies(0 <= a and a <= b and b < len(sg_pos), sg_vrp[a] <= sg_vrp[b] and sg_pos[a] <= sg_pos[b]
                                              and sg_vrp[a] + sg_vrl[a] <= sg_vrp[b] + sg_vrl[b]),
                         trigger=lambda a, b: (sg_len[a], sg_len[b])))

def at(self, j, sg_pos, sg_len, sg_attr, sg_type, sg_vrp, sg_vrl):
    """the reader's cursor (visible record + segment header fields) denotes segment j"""
    return (self.logical_record_segment_header.position == sg_pos[j]
            and self.logical_record_segment_header.length == sg_len[j]
            and self.logical_record_segment_header.attributes.attributes == sg_attr[j]
            and self.logical_record_segment_header.record_type == sg_type[j]
            and self.visible_record.position == sg_vrp[j] and self.visible_record.length == sg_vrl[j]
            and self.visible_record.version == 65281)

def vr_ri(F, vr):
    """representation invariant of the reader's visible-record cursor: its fields are what the file holds at its
    position (established by every read of a visible record; preserved by every public operation)"""
    return (vr.position >= 0 and vr.position + 4 <= len(F) and be16(F, vr.position) == vr.length
            and be16(F, vr.position + 2) == 65281 and vr.version == 65281 and 20 <= vr.length and vr.length <= 16384)

def payload(F, j, sg_pos, sg_len, sg_attr):
    return F[sg_pos[j] + 4: sg_pos[j] + 4 + plen(F, sg_pos[j], sg_len[j], sg_attr[j])]
'''

FOBJ = KRec('BinaryIO', data=Bytes, pos=Int, rd_lo=Int, rd_hi=Int)
VR = KRec('VisibleRecord', position=Int, length=Int, version=Int)
ATTR = KRec('LogicalRecordSegmentHeaderAttributes', attributes=Int)
LRSH = KRec('LogicalRecordSegmentHeader', position=Int, length=Int, attributes=ATTR, record_type=Int)
FR = KRec('FileRead', file=FOBJ, visible_record=VR, logical_record_segment_header=LRSH)
LAYOUT = {'sg_pos': KView(Int), 'sg_len': KView(Int), 'sg_attr': KView(Int), 'sg_type': KView(Int),
          'sg_vrp': KView(Int), 'sg_vrl': KView(Int)}
LARGS = 'sg_pos, sg_len, sg_attr, sg_type, sg_vrp, sg_vrl'
LAYOUT_OK = 'layout_ok(self.file.data, %s)' % LARGS
MOD_HDR = ['self.logical_record_segment_header.position', 'self.logical_record_segment_header.length',
           'self.logical_record_segment_header.attributes', 'self.logical_record_segment_header.record_type']
MOD_VR = ['self.visible_record.position', 'self.visible_record.length', 'self.visible_record.version']
MOD_FILE = ['self.file.pos', 'self.file.rd_lo', 'self.file.rd_hi']


def register_physical(reg):
    reg.add_spec_source(SPEC)
    F0 = ['fobj.pos >= 0']
    # read footprint of any call that reads forward from the entry position
    FOOT = ['fobj.rd_lo >= (old(fobj.rd_lo) if old(fobj.rd_lo) < old(fobj.pos) else old(fobj.pos))',
            'fobj.rd_hi <= (old(fobj.rd_hi) if old(fobj.rd_hi) > fobj.pos else fobj.pos)']
    MODF = ['fobj.pos', 'fobj.rd_lo', 'fobj.rd_hi']
    reg.add(Contract(PF, 'read_one_byte', {'fobj': FOBJ}, requires=F0, returns=Byte, modifies=MODF,
                     raises={'ExceptionEOF': 'len(fobj.data) - fobj.pos < 1'},
                     ensures=['result == fobj.data[old(fobj.pos)]', 'fobj.pos == old(fobj.pos) + 1'] + FOOT, canaries=['result == 0'], crosscheck=False))
    reg.add(Contract(PF, 'read_two_bytes_big_endian', {'fobj': FOBJ}, requires=F0, returns=Int, modifies=MODF,
                     raises={'ExceptionEOF': 'len(fobj.data) - fobj.pos < 2'},
                     ensures=['result == be16(fobj.data, old(fobj.pos))', 'fobj.pos == old(fobj.pos) + 2', '0 <= result and result < 65536'] + FOOT,
                     canaries=['result == 0'], crosscheck=False))
    VR_BAD = 'be16(fobj.data, fobj.pos + 2) != 65281 or be16(fobj.data, fobj.pos) < 20 or be16(fobj.data, fobj.pos) > 16384'
    vr_read = dict(requires=F0, raises={'ExceptionVisibleRecordEOF': 'len(fobj.data) - fobj.pos < 4',
                                        'ExceptionVisibleRecord': 'len(fobj.data) - fobj.pos >= 4 and (%s)' % VR_BAD})
    reg.add(Contract(PF, 'VisibleRecord._read', {'self': VR, 'fobj': FOBJ}, returns=KTup(Int, Int, Int), modifies=MODF,
                     ensures=['result[0] == old(fobj.pos)', 'result[1] == be16(fobj.data, old(fobj.pos))', 'result[2] == 65281',
                              'fobj.pos == old(fobj.pos) + 4', 'not (%s)' % VR_BAD.replace('fobj.pos', 'old(fobj.pos)')] + FOOT,
                     canaries=['result[1] == 20'], crosscheck=False, **vr_read))
    VRF = ['self.position', 'self.length', 'self.version']
    reg.add(Contract(PF, 'VisibleRecord.read', {'self': VR, 'fobj': FOBJ}, modifies=MODF + VRF,
                     ensures=['self.position == old(fobj.pos)', 'self.length == be16(fobj.data, old(fobj.pos))', 'self.version == 65281',
                              'fobj.pos == old(fobj.pos) + 4', '20 <= self.length and self.length <= 16384'] + FOOT,
                     canaries=['self.length == 20'], crosscheck=False, **vr_read))
    NP = 'self.position + self.length'
    reg.add(Contract(PF, 'VisibleRecord.read_next', {'self': VR, 'fobj': FOBJ}, requires=['self.position >= 0', 'self.length >= 0'],
                     modifies=MODF + VRF,
                     raises={'ExceptionVisibleRecordEOF': 'len(fobj.data) - (%s) < 4' % NP,
                             'ExceptionVisibleRecord': 'len(fobj.data) - (%s) >= 4 and (%s)' % (NP, VR_BAD.replace('fobj.pos', '(%s)' % NP))},
                     ensures=['self.position == old(%s)' % NP, 'self.length == be16(fobj.data, old(%s))' % NP, 'self.version == 65281',
                              'fobj.pos == old(%s) + 4' % NP, '20 <= self.length and self.length <= 16384',
                              'fobj.rd_lo >= (old(fobj.rd_lo) if old(fobj.rd_lo) < old(%s) else old(%s))' % (NP, NP), FOOT[1]],
                     canaries=['self.length == 20'], crosscheck=False))
    reg.add(Contract(PF, 'VisibleRecord.next_position', inline=True))
    reg.add(Contract(PF, 'LogicalRecordSegmentHeaderAttributes.__init__', inline=True))
    for prop in ('is_eflr', 'is_first', 'is_last', 'is_encrypted', 'has_encryption_packet', 'has_checksum',
                 'has_trailing_length', 'has_pad_bytes'):
        reg.add(Contract(PF, 'LogicalRecordSegmentHeaderAttributes.' + prop, inline=True))
    BITS = {'is_eflr': 'bit(self.attributes, 7)', 'is_first': 'not bit(self.attributes, 6)', 'is_last': 'not bit(self.attributes, 5)',
            'is_encrypted': 'bit(self.attributes, 4)', 'has_encryption_packet': 'bit(self.attributes, 3)',
            'has_checksum': 'bit(self.attributes, 2)', 'has_trailing_length': 'bit(self.attributes, 1)',
            'has_pad_bytes': 'bit(self.attributes, 0)'}
    for prop, spec in BITS.items():
        # RP66V1 Figure 2-3: the attribute bits (verified against the figure; call sites use the real bodies)
        reg.add(Contract(PF, 'LogicalRecordSegmentHeaderAttributes.' + prop, {'self': ATTR},
                         requires=['0 <= self.attributes', 'self.attributes <= 255'], returns=Bool,
                         ensures=['result == (%s)' % spec], canaries=['result'], name='attr.' + prop, crosscheck=False),
                callable_=False)
    reg.add(Contract(PF, 'LogicalRecordSegmentHeader.next_position', inline=True))
    reg.add(Contract(PF, 'LogicalRecordPosition.__init__', inline=True))
    reg.add(Contract(PF, 'LogicalRecordSegmentHeader.logical_data_position', inline=True))
    reg.add(Contract(PF, 'LogicalRecordSegmentHeader.must_strip_padding', {'self': LRSH},
                     requires=['0 <= self.attributes.attributes', 'self.attributes.attributes <= 255'], returns=Bool,
                     ensures=['result == strips(self.attributes.attributes)'], canaries=['result'], inline_at_calls=True, crosscheck=False))
    reg.add(Contract(PF, 'LogicalRecordSegmentHeader.logical_data_length', {'self': LRSH},
                     requires=['0 <= self.attributes.attributes', 'self.attributes.attributes <= 255'], returns=Int,
                     ensures=['result == ldl(self.length, self.attributes.attributes)'], canaries=['result == self.length'],
                     inline_at_calls=True, crosscheck=False))
    HDRF = ['self.position', 'self.length', 'self.attributes', 'self.record_type']
    reg.add(Contract(PF, 'LogicalRecordSegmentHeader._read', {'self': LRSH, 'fobj': FOBJ}, requires=F0,
                     returns=KTup(Int, Int, ATTR, Int), modifies=MODF,
                     raises={'ExceptionLogicalRecordSegmentHeaderEOF': 'len(fobj.data) - fobj.pos < 4'},
                     ensures=['result[0] == old(fobj.pos)', 'result[1] == be16(fobj.data, old(fobj.pos))',
                              'result[2].attributes == fobj.data[old(fobj.pos) + 2]', 'result[3] == fobj.data[old(fobj.pos) + 3]',
                              'fobj.pos == old(fobj.pos) + 4'] + FOOT, canaries=['result[1] == 0'], crosscheck=False))
    reg.add(Contract(PF, 'LogicalRecordSegmentHeader.read', {'self': LRSH, 'fobj': FOBJ}, requires=F0, modifies=MODF + HDRF,
                     raises={'ExceptionLogicalRecordSegmentHeaderEOF': 'len(fobj.data) - fobj.pos < 4'},
                     ensures=['self.position == old(fobj.pos)', 'self.length == be16(fobj.data, old(fobj.pos))',
                              'self.attributes.attributes == fobj.data[old(fobj.pos) + 2]', 'self.record_type == fobj.data[old(fobj.pos) + 3]',
                              '0 <= self.attributes.attributes and self.attributes.attributes <= 255',
                              'fobj.pos == old(fobj.pos) + 4'] + FOOT, canaries=['self.length == 0'], crosscheck=False))
    # ------------------------------------------------------------ FileRead helpers, against the ghost layout
    G = dict(LAYOUT, j=Int)
    CUR = 'at(self, j, %s)' % LARGS
    REQ = [LAYOUT_OK, '0 <= j and j < len(sg_pos)', CUR]
    reg.add(Contract(
        PF, 'FileRead._read_full_logical_data', {'self': FR}, ghost=G, requires=REQ + ['self.file.pos == sg_pos[j] + 4'],
        returns=Bytes, modifies=MOD_FILE,
        ensures=['len(result) == plen(self.file.data, sg_pos[j], sg_len[j], sg_attr[j])',
                 'forall(0, len(result), lambda t: result[t] == self.file.data[sg_pos[j] + 4 + t])',
                 'self.file.pos == sg_pos[j] + 4 + ldl(sg_len[j], sg_attr[j])',
                 # footprint: only bytes of this segment are read
                 'self.file.rd_lo >= (old(self.file.rd_lo) if old(self.file.rd_lo) < sg_pos[j] else sg_pos[j])',
                 'self.file.rd_hi <= (old(self.file.rd_hi) if old(self.file.rd_hi) > sg_pos[j] + sg_len[j] else sg_pos[j] + sg_len[j])'],
        canaries=['len(result) == 0', 'len(result) == 12'], crosscheck=False))
    reg.add(Contract(
        PF, 'FileRead._seek_and_read_next_logical_record_segment_header', {'self': FR}, ghost=G, requires=REQ,
        modifies=MOD_FILE + MOD_HDR + MOD_VR, ghost_post={'j': 'j + 1'},
        raises={'ExceptionVisibleRecordEOF': 'j == len(sg_pos) - 1 and sg_pos[j] + sg_len[j] == sg_vrp[j] + sg_vrl[j]'
                                             ' and len(self.file.data) - (sg_pos[j] + sg_len[j]) < 4',
                'ExceptionLogicalRecordSegmentHeaderEOF': 'j == len(sg_pos) - 1 and sg_pos[j] + sg_len[j] != sg_vrp[j] + sg_vrl[j]'
                                                          ' and len(self.file.data) - (sg_pos[j] + sg_len[j]) < 4'},
        may_raise={'ExceptionVisibleRecord': 'j == len(sg_pos) - 1 and len(self.file.data) - (sg_pos[j] + sg_len[j]) >= 4',
                   'ExceptionLogicalRecordSegmentHeaderEOF': 'j == len(sg_pos) - 1 and len(self.file.data) - (sg_pos[j] + sg_len[j]) >= 4'},
        # after the call the ghost cursor j has been advanced: j == old(j) + 1
        ensures=['j == old(j) + 1',
                 'implies(j < len(sg_pos), at(self, j, %s) and self.file.pos == sg_pos[j] + 4)' % LARGS,
                 'implies(j < len(sg_pos), self.file.rd_lo >= (old(self.file.rd_lo) if old(self.file.rd_lo) < sg_vrp[j] else sg_vrp[j])'
                 ' and self.file.rd_hi <= (old(self.file.rd_hi) if old(self.file.rd_hi) > sg_pos[j] + 4 else sg_pos[j] + 4))'],
        canaries=['j < len(sg_pos)', 'j >= len(sg_pos)'], crosscheck=False))
