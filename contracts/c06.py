"""C06 — LIS log pass frame sets are exact; any sub-selection is a sub-matrix.
Kernel under contract: the frame plan arithmetic (LIS/core/Type01Plan.py: numFrames, _chOffset, chOffset,
_retMergedPostFramePre), the slice reconstruction of LogPass (_sliceFromList, _rangeFromSlice) and, from C16, the
frame-number -> (record, offset) lookup of the run-length index.  The event generator (genEvents), setFrameSet and the
indexer are covered by the bounded stand-in on generated files."""
from pyvc.kinds import *
from pyvc.contract import Contract, Loop, Lemma

TP = 'src/TotalDepth/LIS/core/Type01Plan.py'
LP = 'src/TotalDepth/LIS/core/LogPass.py'

# representation invariant of the plan: _skipToChStart[c] = sum of the sizes of the channels before c, etc.
PLAN = KRec('FrameSetPlan', _indirectSize=Int, _frameSize=Int, _channelSizes=KView(Int), _skipToChStart=KView(Int), _skipToFrameEnd=KView(Int))
SPEC = '''
def plan_ri(p):
    return (len(p._skipToChStart) == len(p._channelSizes) and len(p._skipToFrameEnd) == len(p._channelSizes)
            and p._indirectSize >= 0 and p._frameSize >= 1 and len(p._channelSizes) >= 1 and p._skipToChStart[0] == 0
            and forall(0, len(p._channelSizes), lambda c: p._channelSizes[c] >= 1
                       and p._skipToFrameEnd[c] == p._frameSize - p._skipToChStart[c] - p._channelSizes[c] and p._skipToFrameEnd[c] >= 0,
                       trigger=lambda c: [p._channelSizes[c]])
            and forall(0, len(p._channelSizes) - 1, lambda c: p._skipToChStart[c + 1] == p._skipToChStart[c] + p._channelSizes[c],
                       trigger=lambda c: [p._channelSizes[c]])
            # channel starts increase strictly (a consequence of the two clauses above, every channel having at least one
            # byte; stated so that no induction over the distance between two channels is needed)
            and forall_n(lambda a, b: implies(0 <= a and a < b and b < len(p._channelSizes), p._skipToChStart[a] < p._skipToChStart[b]),
                         trigger=lambda a, b: (p._skipToChStart[a], p._skipToChStart[b])))
'''
EVT = KOpt(KTup(Int, Int, Int, Int))


def register(reg):
    reg.add_spec_source(SPEC)
    RI = ['plan_ri(self)']
    reg.add(Contract(TP, 'FrameSetPlan.frameSize', inline=True))
    reg.add(Contract(TP, 'FrameSetPlan.numChannels', inline=True))
    reg.add(Contract(TP, 'FrameSetPlan.numFrames', {'self': PLAN, 'recLen': Int}, requires=RI, returns=Int,
                     raises={'ExceptionFrameSetPlanNegLen': 'recLen < 0',
                             'ExceptionFrameSetPlan': 'recLen >= 0 and (recLen - self._indirectSize) % self._frameSize != 0'},
                     # the record holds the indirect X (if any) followed by a whole number of frames
                     ensures=['recLen == self._indirectSize + result * self._frameSize'], canaries=['result == 0'], crosscheck=False))
    reg.add(Contract(TP, 'FrameSetPlan._chOffset', {'self': PLAN, 'f': Int, 'c': Int}, requires=RI + ['0 <= c', 'c < len(self._channelSizes)'],
                     returns=Int, ensures=['result == self._indirectSize + f * self._frameSize + self._skipToChStart[c]'],
                     canaries=['result == 0'], inline_at_calls=True, crosscheck=False))
    reg.add(Contract(TP, 'FrameSetPlan.chOffset', {'self': PLAN, 'frame': Int, 'ch': Int}, requires=RI, returns=Int,
                     raises={'ExceptionFrameSetPlanNegLen': 'ch < 0 or frame < 0', 'IndexError': 'ch >= len(self._channelSizes) and frame >= 0'},
                     ensures=['result == self._indirectSize + frame * self._frameSize + self._skipToChStart[ch]'],
                     canaries=['result == 0'], crosscheck=False))
    reg.add(Contract(
        TP, 'FrameSetPlan._retMergedPostFramePre', {'self': PLAN, 'thePre': EVT, 'thePost': EVT, 'theFstep': Int},
        requires=RI + ['theFstep >= 1', 'implies(not is_none(thePre), thePre[1] >= 0)', 'implies(not is_none(thePost), thePost[1] >= 0)'],
        returns=KOpt(KTup(Int, Int, KOpt(Int), KOpt(Int))),
        # the skip between the last read of one loaded frame and the first read of the next: rest of this frame,
        # theFstep - 1 whole frames, start of the next frame
        ensures=['implies(not is_none(result), result[1] == (theFstep - 1) * self._frameSize'
                 ' + (0 if is_none(thePost) else thePost[1]) + (0 if is_none(thePre) else thePre[1]))',
                 'is_none(result) == (is_none(thePre) and is_none(thePost) and theFstep == 1)'],
        canaries=['is_none(result)', 'not is_none(result)'], crosscheck=False))
    # ------------------------------------------------------------------ the read / skip plan of one frame for a channel selection
    # For a strictly increasing list ch of channel indexes the events tile the frame from the first to the last selected
    # channel: runs of selected channels are read, runs of unselected channels between them are skipped, each event carries
    # exactly the bytes of its channels; a leading skip up to the first selected channel and a trailing skip to the end of
    # the frame complete it.  `sel` is the ghost membership vector of the selection.
    EV4 = KTup(Str, Int, Int, Int)
    CHS = 'theChIndexS'
    NCH = 'len(self._channelSizes)'
    SELREQ = ['len(%s) >= 1' % CHS, 'len(sel) == ' + NCH,
              'forall(0, len(%s), lambda k: 0 <= %s[k] and %s[k] < %s and sel[%s[k]] == 1, trigger=lambda k: [%s[k]])' % (CHS, CHS, CHS, NCH, CHS, CHS),
              'forall(0, len(%s) - 1, lambda k: %s[k] < %s[k + 1] and forall(%s[k] + 1, %s[k + 1], lambda c: sel[c] == 0), trigger=lambda k: [%s[k]])'
              % (CHS, CHS, CHS, CHS, CHS, CHS)]
    BYTES_OF = 'self._skipToChStart[{b}] + self._channelSizes[{b}] - self._skipToChStart[{a}]'
    EVOK = ('E[i][2] <= E[i][3] and 0 <= E[i][2] and E[i][3] < %s and E[i][1] == %s and (E[i][0] == "read" or E[i][0] == "skip")'
            ' and forall(E[i][2], E[i][3] + 1, lambda c: sel[c] == (1 if E[i][0] == "read" else 0))'
            % (NCH, BYTES_OF.format(a='E[i][2]', b='E[i][3]')))
    reg.add(Contract(
        TP, 'FrameSetPlan._retFrameEvents', {'self': PLAN, CHS: KView(Int)}, ghost={'sel': KView(Int)}, requires=RI + SELREQ,
        returns=KTup(KOpt(EV4), KView(EV4), KOpt(EV4)),
        ensures=['is_none(result[0]) == (%s[0] == 0)' % CHS,
                 'implies(not is_none(result[0]), result[0][0] == "skip" and result[0][1] == self._skipToChStart[%s[0]] and result[0][2] == 0'
                 ' and result[0][3] == %s[0] - 1)' % (CHS, CHS),
                 'is_none(result[2]) == (self._skipToFrameEnd[%s[len(%s) - 1]] == 0)' % (CHS, CHS),
                 'implies(not is_none(result[2]), result[2][0] == "skip" and result[2][1] == self._skipToFrameEnd[%s[len(%s) - 1]]'
                 ' and result[2][2] == %s[len(%s) - 1] + 1 and result[2][3] == %s - 1)' % (CHS, CHS, CHS, CHS, NCH),
                 'len(result[1]) >= 1', 'result[1][0][2] == %s[0]' % CHS, 'result[1][len(result[1]) - 1][3] == %s[len(%s) - 1]' % (CHS, CHS),
                 'result[1][0][0] == "read"', 'result[1][len(result[1]) - 1][0] == "read"',
                 ('forall(0, len(result[1]), lambda i: %s)' % EVOK).replace('E[', 'result[1]['),
                 'forall(0, len(result[1]) - 1, lambda i: result[1][i + 1][2] == result[1][i][3] + 1 and result[1][i + 1][0] != result[1][i][0])'],
        loops=[Loop('for chIdx in theChIndexS', index='k', invariants=[
            'chStart <= chStop + 1', '0 <= chStart and chStop < ' + NCH,
            'implies(k == 0, chStop == %s[0] - 1 and chStart == %s[0] and siz == 0 and len(myFevts) == 0)' % (CHS, CHS),
            'implies(k >= 1, chStop == %s[k - 1] and chStart <= chStop and siz == %s and forall(chStart, chStop + 1, lambda c: sel[c] == 1))'
            % (CHS, BYTES_OF.format(a='chStart', b='chStop')),
            'implies(len(myFevts) == 0, chStart == %s[0])' % CHS,
            'implies(len(myFevts) >= 1, myFevts[0][2] == %s[0] and myFevts[0][0] == "read" and myFevts[len(myFevts) - 1][3] == chStart - 1'
            ' and myFevts[len(myFevts) - 1][0] == "skip" and k >= 1)' % CHS,
            ('forall(0, len(myFevts), lambda i: %s)' % EVOK).replace('E[', 'myFevts['),
            'forall(0, len(myFevts) - 1, lambda i: myFevts[i + 1][2] == myFevts[i][3] + 1 and myFevts[i + 1][0] != myFevts[i][0])',
            'is_none(myPre) == (%s[0] == 0)' % CHS,
            'implies(not is_none(myPre), myPre[0] == "skip" and myPre[1] == self._skipToChStart[%s[0]] and myPre[2] == 0 and myPre[3] == %s[0] - 1)' % (CHS, CHS),
        ], kinds={'myFevts': KView(EV4)})],
        canaries=['len(result[1]) == 1', 'is_none(result[0])'], crosscheck=False, timeout=40))
    LPK = KRec('LogPass')
    reg.add(Contract(LP, 'LogPass._sliceFromList', {'self': LPK, 'theL': KView(Int)},
                     # the frame offsets inside one record selected by a stepped slice are an arithmetic progression
                     requires=['len(theL) >= 1', 'implies(len(theL) >= 2, theL[len(theL) - 1] > theL[0]'
                               ' and (theL[len(theL) - 1] - theL[0]) % (len(theL) - 1) == 0)'],
                     returns=KRec('slice', start=Int, stop=Int, step=Int),
                     raises={'ExceptionLogPass': 'len(theL) == 0'},
                     ensures=['result.start == theL[0]', 'result.stop == theL[len(theL) - 1] + 1',
                              'result.step * (len(theL) - 1) == theL[len(theL) - 1] - theL[0] or len(theL) == 1',
                              'implies(len(theL) == 1, result.step == 1)'],
                     canaries=['result.step == 1', 'result.step == 2'], crosscheck=False))


def standins(tier, seed):
    from pyvc import standin
    n = 40 if tier == 'quick' else 1500
    return [standin.run_script('lis-index-and-frame-sets', 'c06_lis_logpass.py', seed, n,
                               'bounded: LIS files from the independent encoder gen/lis_logical.py; index positions, log passes, full and '
                               'sub-selected frame sets (every value, implied X, read footprint, load sequences)',
                               '%d files: 1..2 logical files, 1..12 channels of 9 rep codes (samples, bursts, dipmeter), 0..8 records of 1..9 frames, '
                               'explicit / implied X, all trailer / TIF layouts' % n)]
