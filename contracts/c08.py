"""C08 — LIS tables and format specifications survive encode then decode (LIS/core/LogiRec.py).
Kernel under contract: the representation code / size chosen for a table cell from its Python type and range
(CbEngValWrite.__init__).  Table assembly, entry block sets and the decode side are covered by the bounded stand-in."""
from pyvc.kinds import *
from pyvc.contract import Contract, Loop, Lemma

LR = 'src/TotalDepth/LIS/core/LogiRec.py'
CB = KRec('CbEngValWrite')
NEW = [('self.type', Int), ('self.rc', Int), ('self.size', Int), ('self.category', Int), ('self.mnem', Bytes), ('self.units', Bytes),
       ('self.engVal', KOpt(Int))]


def register(reg):
    reg.add(Contract(LR, 'CbEngVal.__init__', inline=True))
    reg.add(Contract(LR, 'CbEngVal.setValue', {'self': KRec('CbEngVal'), 'v': Int}, modifies=[('self.engVal', KOpt(Int))], trusted=True,
                     note='stores an EngVal of (value, units, rep code): abstracted'), verify=False)
    common = dict(requires=['t == 73 or t == 0 or t == 69'], modifies=NEW, crosscheck=False)
    # the representation code chosen is one whose range contains the value, so the C07 encoder/decoder pair is the identity on it
    reg.add(Contract(LR, 'CbEngValWrite.__init__', {'self': CB, 't': Int, 'v': Int, 'm': Bytes, 'kwargs': {}}, name='CbEngValWrite.__init__[int]',
                     raises={'ExceptionCbWrite': 'v < -2147483648 or v > 2147483647'},
                     ensures=['implies(0 <= v and v <= 255, self.rc == 66 and self.size == 1)',
                              'implies((-32768 <= v and v < 0) or (255 < v and v <= 32767), self.rc == 79 and self.size == 2)',
                              'implies((-2147483648 <= v and v < -32768) or (32767 < v and v <= 2147483647), self.rc == 73 and self.size == 4)',
                              'self.type == t', 'self.category == 0'],
                     canaries=['self.rc == 66', 'self.rc == 73'], **common), callable_=False)
    reg.add(Contract(LR, 'CbEngValWrite.__init__', {'self': CB, 't': Int, 'v': Real, 'm': Bytes, 'kwargs': {}}, name='CbEngValWrite.__init__[float]',
                     ensures=['self.rc == 68 and self.size == 4', 'self.type == t'], canaries=['self.rc == 66'], **common), callable_=False)
    reg.add(Contract(LR, 'CbEngValWrite.__init__', {'self': CB, 't': Int, 'v': Bytes, 'm': Bytes, 'kwargs': {}}, name='CbEngValWrite.__init__[bytes]',
                     ensures=['self.rc == 65 and self.size == len(v)', 'self.type == t'], canaries=['self.size == 0'], **common), callable_=False)


    # ------------------------------------------------------------------ entry block set: even total size
    # [LIS-79 3.3.2.1]: the entry blocks of a data format specification record, terminator included, take an even number of
    # bytes: the terminator has size 1 exactly when the other (written) blocks have an odd total, whatever it had before
    EB = KRec('EntryBlock', type=Int, size=Int, repCode=Int, value=KOpt(Int))
    EBS = KRec('EntryBlockSet', _ebS=KView(EB))
    OTHER = ' + '.join('(0 if %d == 10 else self._ebS[%d].size)' % (i, i) for i in range(1, 17))
    INTEG = ['len(self._ebS) == 17'] + ['self._ebS[%d].type == %d and self._ebS[%d].size >= 0 and (self._ebS[%d].size == 0) == is_none(self._ebS[%d].value)' % (i, i, i, i, i)
                                         for i in range(17)]
    INTEG_Q = ('len(self._ebS) == 17 and forall(0, 17, lambda i: self._ebS[i].type == i and self._ebS[i].size >= 0 and '
               '(self._ebS[i].size == 0) == is_none(self._ebS[i].value))')
    reg.add(Contract(LR, 'EntryBlockSet._checkIntegrity', {'self': EBS}, returns=Int, ensures=['implies(%s, result == 0)' % INTEG_Q],
                     loops=[Loop('for (i, eb) in enumerate(self._ebS)', index='k', invariants=[])], canaries=['result == 0'], crosscheck=False))
    reg.add(Contract(LR, 'EntryBlockSet.lisSize', inline=True))
    reg.add(Contract(LR, 'EntryBlockSet._setLisSizeEven', {'self': EBS}, requires=[INTEG_Q] + INTEG, modifies=['self._ebS'],
                     ensures=['len(self._ebS) == 17', 'self._ebS[0].type == 0',
                              'self._ebS[0].size == (%s) %% 2' % OTHER,
                              '(self._ebS[0].size + %s) %% 2 == 0' % OTHER,
                              'forall(1, 17, lambda i: self._ebS[i] == old(self._ebS)[i])',
                              '(self._ebS[0].size == 0) == is_none(self._ebS[0].value)'],
                     canaries=['self._ebS[0].size == 0', 'self._ebS[0].size == 1'], crosscheck=False))


def standins(tier, seed):
    from pyvc import standin
    n = 150 if tier == 'quick' else 6000
    return [standin.run_script('lis-tables-and-dfsr-round-trip', 'c08_lis_tables.py', seed, n,
                               'bounded: random tables and format specifications written by the repository writer, decoded by the reader, '
                               'checked against the generator and an independent component-block parser',
                               '%d cases: tables of 1..20 columns x 0..40 rows (bytes 0..255 long, ints, floats, units, duplicate rows), '
                               'DFSRs with any subset of entry blocks and 1..200 channels' % n)]
