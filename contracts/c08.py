"""C08 — LIS tables and format specifications survive encode then decode (LIS/core/LogiRec.py).
Kernel under contract: the representation code / size chosen for a table cell from its Python type and range
(CbEngValWrite.__init__).  Table assembly, entry block sets and the decode side are covered by the bounded stand-in."""
from pyvc.kinds import *
from pyvc.contract import Contract, Loop, Lemma

LR = 'src/TotalDepth/LIS/core/LogiRec.py'
CB = KRec('CbEngValWrite')
NEW = [('self.type', Int), ('self.rc', Int), ('self.size', Int), ('self.category', Int), ('self.mnem', Bytes), ('self.units', Bytes),
       ('self.engVal', KOpt(Int))]


def register(reg):
    reg.add(Contract(LR, 'CbEngVal.__init__', inline=True))
    reg.add(Contract(LR, 'CbEngVal.setValue', {'self': KRec('CbEngVal'), 'v': Int}, modifies=[('self.engVal', KOpt(Int))], trusted=True,
                     note='stores an EngVal of (value, units, rep code): abstracted'), verify=False)
    common = dict(requires=['t == 73 or t == 0 or t == 69'], modifies=NEW, crosscheck=False)
    # the representation code chosen is one whose range contains the value, so the C07 encoder/decoder pair is the identity on it
    reg.add(Contract(LR, 'CbEngValWrite.__init__', {'self': CB, 't': Int, 'v': Int, 'm': Bytes, 'kwargs': {}}, name='CbEngValWrite.__init__[int]',
                     raises={'ExceptionCbWrite': 'v < -2147483648 or v > 2147483647'},
                     ensures=['implies(0 <= v and v <= 255, self.rc == 66 and self.size == 1)',
                              'implies((-32768 <= v and v < 0) or (255 < v and v <= 32767), self.rc == 79 and self.size == 2)',
                              'implies((-2147483648 <= v and v < -32768) or (32767 < v and v <= 2147483647), self.rc == 73 and self.size == 4)',
                              'self.type == t', 'self.category == 0'],
                     canaries=['self.rc == 66', 'self.rc == 73'], **common), callable_=False)
    reg.add(Contract(LR, 'CbEngValWrite.__init__', {'self': CB, 't': Int, 'v': Real, 'm': Bytes, 'kwargs': {}}, name='CbEngValWrite.__init__[float]',
                     ensures=['self.rc == 68 and self.size == 4', 'self.type == t'], canaries=['self.rc == 66'], **common), callable_=False)
    reg.add(Contract(LR, 'CbEngValWrite.__init__', {'self': CB, 't': Int, 'v': Bytes, 'm': Bytes, 'kwargs': {}}, name='CbEngValWrite.__init__[bytes]',
                     ensures=['self.rc == 65 and self.size == len(v)', 'self.type == t'], canaries=['self.size == 0'], **common), callable_=False)


    # ------------------------------------------------------------------ entry block set: even total size
    # [LIS-79 3.3.2.1]: the entry blocks of a data format specification record, terminator included, take an even number of
    # bytes: the terminator has size 1 exactly when the other (written) blocks have an odd total, whatever it had before
    EB = KRec('EntryBlock', type=Int, size=Int, repCode=Int, value=KOpt(Int))
    EBS = KRec('EntryBlockSet', _ebS=KView(EB))
    OTHER = ' + '.join('(0 if %d == 10 else self._ebS[%d].size)' % (i, i) for i in range(1, 17))
    INTEG = ['len(self._ebS) == 17'] + ['self._ebS[%d].type == %d and self._ebS[%d].size >= 0 and (self._ebS[%d].size == 0) == is_none(self._ebS[%d].value)' % (i, i, i, i, i)
                                         for i in range(17)]
    INTEG_Q = ('len(self._ebS) == 17 and forall(0, 17, lambda i: self._ebS[i].type == i and self._ebS[i].size >= 0 and '
               '(self._ebS[i].size == 0) == is_none(self._ebS[i].value))')
    reg.add(Contract(LR, 'EntryBlockSet._checkIntegrity', {'self': EBS}, returns=Int, ensures=['implies(%s, result == 0)' % INTEG_Q],
                     loops=[Loop('for (i, eb) in enumerate(self._ebS)', index='k', invariants=[])], canaries=['result == 0'], crosscheck=False))
    reg.add(Contract(LR, 'EntryBlockSet.lisSize', inline=True))
    reg.add(Contract(LR, 'EntryBlockSet._setLisSizeEven', {'self': EBS}, requires=[INTEG_Q] + INTEG, modifies=['self._ebS'],
                     ensures=['len(self._ebS) == 17', 'self._ebS[0].type == 0',
                              'self._ebS[0].size == (%s) %% 2' % OTHER,
                              '(self._ebS[0].size + %s) %% 2 == 0' % OTHER,
                              'forall(1, 17, lambda i: self._ebS[i] == old(self._ebS)[i])',
                              '(self._ebS[0].size == 0) == is_none(self._ebS[0].value)'],
                     canaries=['self._ebS[0].size == 0', 'self._ebS[0].size == 1'], crosscheck=False))
    # setEntryBlock: a block of a legal type replaces the block of that type and nothing else (the terminator is then re-sized);
    # an illegal or excluded type is refused and nothing changes
    reg.add_spec_source('def same_eb(a, b):\n    return (a.type == b.type and a.size == b.size and a.repCode == b.repCode and is_none(a.value) == is_none(b.value)\n            and implies(not is_none(a.value), a.value == b.value))\n')
    BLK_OK = 'theEb.size >= 0 and (theEb.size == 0) == is_none(theEb.value)'
    reg.add(Contract(LR, 'EntryBlockSet.setEntryBlock', {'self': EBS, 'theEb': EB}, requires=[INTEG_Q] + INTEG + [BLK_OK], modifies=['self._ebS'],
                     raises={'ExceptionEntryBlock': 'theEb.type < 0 or theEb.type > 16 or theEb.type == 10'},
                     ensures=['len(self._ebS) == 17',
                              'implies(theEb.type >= 1, same_eb(self._ebS[theEb.type], theEb))',
                              'forall(1, 17, lambda i: implies(i != theEb.type, self._ebS[i] == old(self._ebS)[i]))',
                              'self._ebS[0].type == 0', '(self._ebS[0].size + %s) %% 2 == 0' % OTHER,
                              INTEG_Q],
                     canaries=['self._ebS[1] == old(self._ebS)[1]', 'self._ebS[0].size == 0'], crosscheck=False, timeout=30))
    # readFromFile: the entry blocks of the record are read one after the other up to and including the terminator (or to the
    # end of the logical data) and every one of a legal type is put into the set, whatever its size; the others keep their
    # defaults.  The file is abstracted to the sequence of blocks it decodes to (ghost field `blocks`, cursor `k`); the byte
    # level (EntryBlockRead.__new__: struct unpack + representation code read) is C07's and is trusted here.
    FILE = KRec('FileRead', blocks=KView(EB), k=Int)
    FL = 'src/TotalDepth/LIS/core/File.py'
    reg.add(Contract(FL, 'FileRead.hasLd', {'self': FILE}, returns=Bool, ensures=['result == (self.k < len(self.blocks))'], trusted=True,
                     note='abstract file: logical data is left iff blocks are left'), verify=False)
    reg.add(Contract(LR, 'EntryBlockRead.__new__', {'self': Untracked, 'theFile': FILE}, requires=['0 <= theFile.k', 'theFile.k < len(theFile.blocks)'],
                     modifies=['theFile.k'], returns=EB, trusted=True,
                     ensures=['theFile.k == old(theFile.k) + 1', 'same_eb(result, theFile.blocks[old(theFile.k)])'],
                     note='abstract file: the next block of the sequence'), verify=False)
    BL = 'theFile.blocks'
    LEGAL = lambda t: '(1 <= %s and %s <= 16 and %s != 10)' % (t, t, t)      # noqa: E731
    reg.add(Contract(
        LR, 'EntryBlockSet.readFromFile', {'self': EBS, 'theFile': FILE}, ghost={'t_end': Int},
        requires=[INTEG_Q] + INTEG + ['theFile.k == 0', '0 <= t_end and t_end <= len(%s)' % BL,
                  # t_end: the first terminator block (or the end of the data)
                  'forall(0, t_end, lambda k: %s[k].type != 0)' % BL, 'implies(t_end < len(%s), %s[t_end].type == 0)' % (BL, BL),
                  'forall(0, len(%s), lambda k: %s[k].size >= 0 and (%s[k].size == 0) == is_none(%s[k].value))' % (BL, BL, BL, BL),
                  # each block type occurs at most once before the terminator (otherwise the last one wins: not stated here)
                  'forall_n(lambda a, b: implies(0 <= a and a < b and b < t_end, %s[a].type != %s[b].type))' % (BL, BL)],
        modifies=['self._ebS', 'theFile.k'],
        ensures=['theFile.k == (t_end + 1 if t_end < len(%s) else t_end)' % BL,
                 'forall(0, t_end, lambda k: implies(%s, same_eb(self._ebS[%s[k].type], %s[k])))' % (LEGAL(BL + '[k].type'), BL, BL),
                 'forall(1, 17, lambda i: implies(forall(0, t_end, lambda k: %s[k].type != i), self._ebS[i] == old(self._ebS)[i]))' % BL,
                 '(self._ebS[0].size + %s) %% 2 == 0' % OTHER, INTEG_Q],
        loops=[Loop('while theFile.hasLd()', invariants=[
            INTEG_Q, '0 <= theFile.k and theFile.k <= t_end',
            'forall(0, theFile.k, lambda k: implies(%s, same_eb(self._ebS[%s[k].type], %s[k])))' % (LEGAL(BL + '[k].type'), BL, BL),
            'forall(1, 17, lambda i: implies(forall(0, theFile.k, lambda k: %s[k].type != i), self._ebS[i] == old(self._ebS)[i]))' % BL],
            decreases='len(%s) - theFile.k' % BL)],
        canaries=['theFile.k == 0', 'self._ebS[1] == old(self._ebS)[1]'], crosscheck=False, timeout=30))


def standins(tier, seed):
    from pyvc import standin
    n = 150 if tier == 'quick' else 6000
    return [standin.run_script('lis-tables-and-dfsr-round-trip', 'c08_lis_tables.py', seed, n,
                               'bounded: random tables and format specifications written by the repository writer, decoded by the reader, '
                               'checked against the generator and an independent component-block parser',
                               '%d cases: tables of 1..20 columns x 0..40 rows (bytes 0..255 long, ints, floats, units, duplicate rows), '
                               'DFSRs with any subset of entry blocks and 1..200 channels' % n)]
