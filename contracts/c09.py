"""C09 — LAS files parse to their content, independent of layout (LAS/core/LASRead.py).

Kernel under contract:
  * wrap-mode frame assembly (LASSectionArray._add_member_with_wrap_mode, _add_buffer) against a ghost token stream
    T (the data section's tokens in file order) and a count n of tokens consumed: the representation invariant
        members[m][j] == T[m*C + j],  _unwrap_buffer[j] == T[len(members)*C + j],  len(_unwrap_buffer) < C,
        len(members)*C + len(_unwrap_buffer) == n
    is preserved by every well-formed line (index value alone on its line, data lines inside one frame), so after ANY
    number of lines, however the values of a frame are spread over lines, members is the frame list an unwrapped file
    with the same tokens gives (there members.append(values) per line): "the same whether wrapped or not".  An
    ill-formed line raises ExceptionLASReadSectionArray exactly when the standard's rule is broken.
  * _convert_value (ordinary channels): the float a token spells, the null value when it spells none.
  * string_to_value: integer, else float, else yes/no, else the stripped text ('' for an absent field).
  * the patterns read from the source accept every conformant line of their kind (regular-language inclusion, z3):
    comment lines are recognised, section heads ~V ~W ~C ~P ~O ~A are recognised with any title, a padded mnemonic
    field is accepted by the mnemonic pattern.
Not under contract: line_to_sect_line's capture groups (unit / value split), generate_lines (a coroutine), LASRead's
section loop, numpy storage in finalise: covered by the bounded stand-in (standins/c09c10_las.py --part c09) which
renders one content model in several layouts, wrapped and unwrapped, and compares everything read."""
from pyvc.kinds import *
from pyvc.contract import Contract, Loop, Lemma

LR = 'src/TotalDepth/LAS/core/LASRead.py'
SA = KRec('LASSectionArray', _wrap=True, _unwrap_buffer=KView(Int), _mnemonics_units=KView(Int), members=KView(KView(Int)))
C = 'len(self._mnemonics_units)'

SPEC = '''
def wrap_ri(members, buf, C, T, n):
    """members and buffer hold exactly the first n tokens of T, cut into frames of C"""
    return (len(buf) < C and len(members) * C + len(buf) == n and 0 <= n and n <= len(T)
            and forall(0, len(members), lambda m: len(members[m]) == C)
            and forall_n(lambda m, j: implies(0 <= m and m < len(members) and 0 <= j and j < C, members[m][j] == T[m * C + j]), trigger=lambda m, j: members[m][j])
            and forall(0, len(buf), lambda j: buf[j] == T[len(members) * C + j]))
'''

ASSUMPTIONS = ['data tokens are modelled as integer ids (they are only moved and counted by the assembly code)',
               'float(str) / int(str): which texts parse and to what value is CPython\'s (abstract functions py_float_ok / py_float / py_int_ok / py_int)']


def register(reg):
    reg.add_spec_source(SPEC)
    RI_OLD = 'wrap_ri(self.members, self._unwrap_buffer, %s, T, n)' % C
    reg.add(Contract(LR, 'LASSectionArray._add_buffer', {'self': SA, 'line_number': Int},
                     modifies=['self.members', 'self._unwrap_buffer'],
                     raises={'ExceptionLASReadSectionArray': 'len(self._unwrap_buffer) > 0 and len(self._unwrap_buffer) != %s' % C},
                     ensures=['len(self._unwrap_buffer) == 0',
                              'len(self.members) == len(old(self.members)) + (1 if len(old(self._unwrap_buffer)) > 0 else 0)',
                              'forall(0, len(old(self.members)), lambda m: self.members[m] == old(self.members)[m])',
                              'implies(len(old(self._unwrap_buffer)) > 0, len(self.members[len(self.members) - 1]) == %s)' % C,
                              'forall(0, len(old(self._unwrap_buffer)), lambda j: self.members[len(self.members) - 1][j] == old(self._unwrap_buffer)[j])'],
                     canaries=['len(self.members) == len(old(self.members))'], crosscheck=False))
    ILL = ('(len(self._unwrap_buffer) == 0 and len(values) != 1) or '
           '(len(self._unwrap_buffer) > 0 and len(self._unwrap_buffer) + len(values) > %s)' % C)
    reg.add(Contract(
        LR, 'LASSectionArray._add_member_with_wrap_mode', {'self': SA, 'line_number': Int, 'line': Str, 'values': KView(Int)},
        ghost={'T': KView(Int), 'n': Int},
        requires=[C + ' >= 1', 'len(values) >= 1', RI_OLD, 'n + len(values) <= len(T)',
                  # the line's tokens are the next tokens of the data section
                  'forall(0, len(values), lambda t: values[t] == T[n + t])'],
        modifies=['self.members', 'self._unwrap_buffer'],
        # a line that breaks the wrap rules (index value not alone; a data line running past the end of the frame) is refused
        raises={'ExceptionLASReadSectionArray': ILL},
        ensures=['wrap_ri(self.members, self._unwrap_buffer, %s, T, n + len(values))' % C,
                 # frames are only ever appended: what was assembled stays
                 'len(self.members) >= len(old(self.members))'],
        canaries=['len(self.members) == len(old(self.members))', 'len(self._unwrap_buffer) == 0'], crosscheck=False, timeout=40))
    # ------------------------------------------------------------------ values
    CH = KRec('FrameChannel', ident=Str, units=Str)
    SV = KRec('LASSectionArray', _null=Real)
    reg.add(Contract(LR, 'LASSectionArray._convert_value', {'self': SV, 'channel': CH, 'value': Str, 'line_number': Int},
                     requires=['not (channel.ident == "DATE" and channel.units == "D")', 'not (channel.ident == "TIME" and channel.units == "HHMMSS")'],
                     returns=Real, ensures=['result == (py_float(value) if py_float_ok(value) else self._null)'],
                     canaries=['result == self._null'], crosscheck=False))
    reg.add(Contract(LR, 'string_to_value', {'value': Str}, name='string_to_value',
                     ensures=['implies(py_int_ok(value), result == py_int(value))',
                              'implies((not py_int_ok(value)) and py_float_ok(value), result == py_float(value))',
                              'implies((not py_int_ok(value)) and (not py_float_ok(value)) and py_lower(py_strip(value)) == "yes", result == True)',
                              'implies((not py_int_ok(value)) and (not py_float_ok(value)) and py_lower(py_strip(value)) == "no", result == False)',
                              'implies((not py_int_ok(value)) and (not py_float_ok(value)) and py_lower(py_strip(value)) != "yes" and py_lower(py_strip(value)) != "no",'
                              ' result == py_strip(value))'],
                     crosscheck=False))


def _compiled_literal(name):
    import ast
    from pyvc import source
    from pyvc.kinds import ContractError
    node = source.load(LR).assigns[name]
    if isinstance(node, ast.Call) and ast.unparse(node.func) == 're.compile' and isinstance(node.args[0], ast.Constant):
        return node.args[0].value
    if isinstance(node, ast.Call) and ast.unparse(node.func) == 're.compile' and isinstance(node.args[0], ast.Call) \
            and isinstance(node.args[0].func, ast.Attribute) and node.args[0].func.attr == 'format' and isinstance(node.args[0].func.value, ast.Constant):
        # r'...{:s}...'.format(NAME): NAME is a module constant string
        fmt = node.args[0].func.value.value
        args = []
        for a in node.args[0].args:
            v = source.load(LR).assigns.get(ast.unparse(a))
            if not isinstance(v, ast.Constant):
                raise ContractError('%s: format argument %s is not a literal' % (name, ast.unparse(a)))
            args.append(v.value)
        return fmt.format(*args)
    raise ContractError('%s is not a re.compile(<literal>)' % name)


def extra_obligations(reg):
    import z3
    from pyvc import regex
    out = []
    s = z3.String('line')
    R = lambda t: z3.Re(z3.StringVal(t))
    U = lambda *xs: regex._union(list(xs))
    blank = U(R(' '), R('\t'))
    notnl = z3.Intersect(regex._any(), z3.Complement(R('\n')))
    # --- comments: optional blanks, '#', anything, newline
    conf_comment = z3.Concat(z3.Star(blank), R('#'), z3.Star(notnl), z3.Option(R('\n')))
    lit = _compiled_literal('RE_COMMENT')
    out.append(dict(name='LASRead.py:generate_lines/RE_COMMENT-accepts-every-comment-line', pc=[z3.InRe(s, conf_comment)], goal=z3.InRe(s, regex.match_lang(lit)),
                    note='every line of blanks, #, text matches %r' % lit, func='generate_lines'))
    # a data or header line (first non-blank character is not '#') is never taken for a comment
    first = z3.Intersect(notnl, z3.Complement(U(R('#'), blank, R('\r'), R('\x0b'), R('\x0c'))))     # a visible character other than '#'
    conf_data = z3.Concat(z3.Star(blank), first, z3.Star(notnl), z3.Option(R('\n')))
    out.append(dict(name='LASRead.py:generate_lines/RE_COMMENT-rejects-every-other-line', pc=[z3.InRe(s, conf_data)], goal=z3.Not(z3.InRe(s, regex.match_lang(lit))),
                    note='a line whose first non-blank character is not # does not match %r' % lit, func='generate_lines'))
    out.append(dict(name='LASRead.py:generate_lines/RE_COMMENT-canary', pc=[], goal=z3.InRe(s, regex.match_lang(lit)), note='must fail', func='generate_lines', expect_fail=True))
    # --- the test generate_lines itself applies (read from the source: the `if` that guards its first `yield`), evaluated by the
    # engine on a symbolic line: every conformant comment line is skipped, every content line is passed on
    import ast
    from pyvc import source
    from pyvc.engine import Engine, State, Frame
    mod = source.load(LR)
    gl = mod.functions['generate_lines']
    guard = None
    for node in ast.walk(gl):
        if isinstance(node, ast.If) and any(isinstance(x, (ast.Yield, ast.YieldFrom)) for b in node.body for x in ast.walk(b)):
            guard = node.test
            break
    if guard is None:
        from pyvc.kinds import ContractError
        raise ContractError('generate_lines: no `if` guarding a yield found')
    eng = Engine(reg, 'C09')
    st0 = State()
    st0.env['line'] = s
    eng.frames.append(Frame(mod, 'generate_lines', None))
    eng.sinks.append([])
    eng.pure += 1
    try:
        gv = eng.ev(guard, st0)[0][1]
        passed = to_bool_term(eng.truth(gv))
    finally:
        eng.pure -= 1
        eng.sinks.pop()
        eng.frames.pop()
    out.append(dict(name='LASRead.py:generate_lines/skips-every-comment-line', pc=[z3.InRe(s, conf_comment)] + list(st0.pc), goal=z3.Not(passed),
                    note='a line of blanks, #, text is not passed on by `if %s`' % ast.unparse(guard), func='generate_lines'))
    out.append(dict(name='LASRead.py:generate_lines/passes-every-content-line', pc=[z3.InRe(s, conf_data)] + list(st0.pc), goal=passed,
                    note='a line whose first non-blank character is visible and not # is passed on by `if %s`' % ast.unparse(guard), func='generate_lines'))
    out.append(dict(name='LASRead.py:generate_lines/guard-canary', pc=list(st0.pc), goal=passed, note='must fail', func='generate_lines', expect_fail=True))
    # --- section heads: '~' + one of VWCPOA + any title
    lit = _compiled_literal('RE_SECT_HEAD')
    conf_head = z3.Concat(R('~'), U(*[R(c) for c in 'VWCPOA']), z3.Star(notnl), z3.Option(R('\n')))
    out.append(dict(name='LASRead.py:LASRead/RE_SECT_HEAD-accepts-every-section-head', pc=[z3.InRe(s, conf_head)], goal=z3.InRe(s, regex.match_lang(lit)),
                    note='~V ~W ~C ~P ~O ~A with any title match %r' % lit, func='LASRead.__init__'))
    out.append(dict(name='LASRead.py:LASRead/RE_SECT_HEAD-canary', pc=[], goal=z3.InRe(s, regex.match_lang(lit)), note='must fail', func='LASRead.__init__', expect_fail=True))
    # --- mnemonic field: blanks, mnemonic without blank . :, blanks
    lit = _compiled_literal('RE_LINE_FIELD_0')
    mchar = z3.Intersect(regex._any(), z3.Complement(U(R(' '), R('.'), R(':'), R('\n'), R('\t'), R('\r'), R('\x0b'), R('\x0c'))))
    conf_m = z3.Concat(z3.Star(blank), z3.Plus(mchar), z3.Star(blank))
    out.append(dict(name='LASRead.py:line_to_sect_line/RE_LINE_FIELD_0-accepts-every-padded-mnemonic', pc=[z3.InRe(s, conf_m)], goal=z3.InRe(s, regex.match_lang(lit)),
                    note='blank padded mnemonic matches %r' % lit, func='line_to_sect_line'))
    out.append(dict(name='LASRead.py:line_to_sect_line/RE_LINE_FIELD_0-canary', pc=[], goal=z3.InRe(s, regex.match_lang(lit)), note='must fail', func='line_to_sect_line', expect_fail=True))
    return out


def standins(tier, seed):
    import os
    from pyvc import standin
    n = 40 if tier == 'quick' else 1500
    return [standin.run_script('las-layouts', 'c09c10_las.py', seed, n,
                               'bounded: LAS 1.2 / 2.0 texts rendered from a content model in several layouts (wrapped and unwrapped, comments, blank lines, '
                               'padding, tabs), read by LASRead and compared field by field and value by value',
                               '%d content models x 4 layouts' % n, extra_args=['--part', 'c09'])]
