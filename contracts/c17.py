"""C17 — unit conversion is consistent: invertible, transitive, dimension-checked.
Real-number model: floating-point rounding of the operations is NOT modelled (stated in the evidence)."""
import json
import os
from pyvc.kinds import *
from pyvc.contract import Contract, Loop, Lemma, AbsMap

U = 'src/TotalDepth/common/units.py'
LU = 'src/TotalDepth/LIS/core/Units.py'

SPEC = '''
def aff(v, of, sf, ot, st):
    """the affine map through the base unit: value in unit `from` -> base -> unit `to`"""
    return (v - of) * sf / st + ot

def lis_conv(v, m1, has1, o1, m2, has2, o2):
    """LIS: base = (v - offs1) * mult1 ; result = base / mult2 + offs2 (absent offsets are 0)"""
    return ((v - (o1 if has1 else 0)) * m1) / m2 + (o2 if has2 else 0)
'''

# dimension / category names are only compared for equality: an integer id stands for the string
UNIT = KRec('Unit', dimension=Int, scale=Real, offset=Real)
NZ = ['unit_from.scale != 0', 'unit_to.scale != 0']
UC = KRec('UnitConvert', mult=Real, offs=KOpt(Real))

LEVEL = 'proof'
ASSUMPTIONS = [
    'floats are modelled as reals: the identities proved are algebraic; how many ulps the binary64 evaluation loses '
    '("to within floating-point rounding of the operations involved") is not decided by this check',
    'numpy arithmetic on an ndarray is element-wise and augmented assignment updates the array in place',
    'unit dimension / category strings are compared only for equality (modelled as integer ids)',
]


def register(reg):
    reg.add_spec_source(SPEC)
    reg.add(Contract(U, 'Unit.has_offset', {'self': UNIT}, returns=Bool, ensures=['result == (self.offset != 0)'],
                     inline_at_calls=True, canaries=['result']))
    reg.add(Contract(U, 'same_dimension', {'a': UNIT, 'b': UNIT}, returns=Bool, ensures=['result == (a.dimension == b.dimension)'],
                     inline_at_calls=True, canaries=['result']))
    CONV = 'result == aff(value, unit_from.offset, unit_from.scale, unit_to.offset, unit_to.scale)'
    reg.add(Contract(U, '_convert', {'value': Real, 'unit_from': UNIT, 'unit_to': UNIT}, requires=NZ, returns=Real,
                     ensures=[CONV], canaries=['result == value']))
    reg.add(Contract(U, 'convert', {'value': Real, 'unit_from': UNIT, 'unit_to': UNIT}, requires=NZ, returns=Real,
                     raises={'ExceptionUnitsDimension': 'unit_from.dimension != unit_to.dimension'},
                     ensures=[CONV], canaries=['result == value']))
    reg.add(Contract(U, 'convert_function', {'unit_from': UNIT, 'unit_to': UNIT}, requires=NZ,
                     raises={'ExceptionUnitsDimension': 'unit_from.dimension != unit_to.dimension'}, crosscheck=False))
    # array versions, one element standing for every element (numpy arithmetic is element-wise: assumption)
    ACONV = 'aff(array, unit_from.offset, unit_from.scale, unit_to.offset, unit_to.scale)'
    reg.add(Contract(U, 'convert_array', {'array': Real, 'unit_from': UNIT, 'unit_to': UNIT}, requires=NZ, returns=Real,
                     raises={'ExceptionUnitsDimension': 'unit_from.dimension != unit_to.dimension'},
                     ensures=['result == ' + ACONV], canaries=['result == array'], crosscheck=False))
    reg.add(Contract(U, 'convert_array_inplace', {'array': Real, 'unit_from': UNIT, 'unit_to': UNIT}, requires=NZ,
                     raises={'ExceptionUnitsDimension': 'unit_from.dimension != unit_to.dimension'},
                     ensures=['final_array == ' + ACONV], canaries=['final_array == array'], crosscheck=False))
    # property-level consequences of the contracts above (pure real algebra over the spec function)
    R5 = {'v': Real, 'oa': Real, 'sa': Real, 'ob': Real, 'sb': Real, 'oc': Real, 'sc': Real}
    reg.add_lemma(Lemma('osdd_round_trip', R5, ['sa != 0', 'sb != 0'],
                        ['aff(aff(v, oa, sa, ob, sb), ob, sb, oa, sa) == v']))
    reg.add_lemma(Lemma('osdd_transitive', R5, ['sa != 0', 'sb != 0', 'sc != 0'],
                        ['aff(aff(v, oa, sa, oc, sc), oc, sc, ob, sb) == aff(v, oa, sa, ob, sb)']))
    reg.add_lemma(Lemma('osdd_identity', R5, ['sa != 0'], ['aff(v, oa, sa, oa, sa) == v']))

    # ------------------------------------------------------------------ LIS units
    reg.add(Contract(LU, 'UnitConvert.convert', {'self': UC, 'val': KOpt(Real), 'other': UC},
                     requires=['self.mult != 0', 'other.mult != 0'], returns=Real,
                     ensures=['implies(is_none(val), result == 0)',
                              'implies(not is_none(val), result == lis_conv(val, self.mult, not is_none(self.offs), self.offs,'
                              ' other.mult, not is_none(other.offs), other.offs))'],
                     canaries=['result == 0'], crosscheck=False))
    L = {'v': Real, 'm1': Real, 'h1': Bool, 'o1': Real, 'm2': Real, 'h2': Bool, 'o2': Real, 'm3': Real, 'h3': Bool, 'o3': Real}
    reg.add_lemma(Lemma('lis_round_trip', L, ['m1 != 0', 'm2 != 0'],
                        ['lis_conv(lis_conv(v, m1, h1, o1, m2, h2, o2), m2, h2, o2, m1, h1, o1) == v']))
    reg.add_lemma(Lemma('lis_transitive', L, ['m1 != 0', 'm2 != 0', 'm3 != 0'],
                        ['lis_conv(lis_conv(v, m1, h1, o1, m3, h3, o3), m3, h3, o3, m2, h2, o2) == lis_conv(v, m1, h1, o1, m2, h2, o2)']))
    reg.add_lemma(Lemma('lis_identity', L, ['m1 != 0'], ['lis_conv(v, m1, h1, o1, m1, h1, o1) == v']))
    # module-level convert(): unit -> category lookup, then the category's convertor.  The two private maps are
    # abstract finite maps (their contents are checked exhaustively by the closed table check below).
    UCC = KRec('UnitConvertCategory', cat=Int)
    reg.add(Contract(LU, 'UnitConvertCategory.convert', {'self': UCC, 'v': Real, 'u_1': Int, 'u_2': Int}, returns=Real, trusted=True,
                     raises={'ExceptionUnitsNoUnitInCategory': 'not map_has("ucat", u_1) or not map_has("ucat", u_2)'
                                                              ' or map_get("ucat", u_1) != self.cat or map_get("ucat", u_2) != self.cat'},
                     note='category object holds exactly the units whose category it is (checked exhaustively over the table)'),
            verify=False)
    # the same method VERIFIED from its real body (with unitConvertor) against the category's own unit table, an abstract finite
    # map unit id -> UnitConvert: the result is the LIS conversion with the two table entries, in this order; a unit the table
    # does not hold is refused
    UCCT = KRec('UnitConvertCategory', cat=Int, _unitMap=AbsMap('cunits', UC))
    E1, E2 = 'map_rec("cunits", u_1)', 'map_rec("cunits", u_2)'
    reg.add(Contract(LU, 'UnitConvertCategory.unitConvertor', inline=True))
    reg.add(Contract(LU, 'UnitConvertCategory.units', {'self': UCCT}, returns=Untracked, trusted=True,
                     note='list of the unit names of a category: only formatted into an error message'), verify=False)
    reg.add(Contract(LU, 'UnitConvertCategory.convert', {'self': UCCT, 'v': Real, 'u_1': Int, 'u_2': Int}, returns=Real,
                     name='UnitConvertCategory.convert[unit table]',
                     assume=['forall_int(lambda u: implies(map_has("cunits", u), map_rec("cunits", u).mult != 0))'],
                     raises={'ExceptionUnitsNoUnitInCategory': 'not map_has("cunits", u_1) or not map_has("cunits", u_2)'},
                     ensures=['result == lis_conv(v, %s.mult, not is_none(%s.offs), %s.offs, %s.mult, not is_none(%s.offs), %s.offs)'
                              % (E1, E1, E1, E2, E2, E2)],
                     canaries=['result == v'], crosscheck=False), callable_=False)
    reg.add(Contract(
        LU, 'convert', {'v': Real, 'u_1': Int, 'u_2': Int}, returns=Real, name='LIS.Units.convert',
        globals_={'__UNIT_TO_CATEGORY_MAP': AbsMap('ucat', Int), '__UNIT_MAP': AbsMap('umap', UCC)},
        assume=['forall_int(lambda c: map_field("umap", c, "cat") == c)',
                'forall_int(lambda u: implies(map_has("ucat", u), map_has("umap", map_get("ucat", u))))'],
        raises={'ExceptionUnitsUnknownUnit': 'not map_has("ucat", u_1) or not map_has("ucat", u_2)',
                # the documented refusal for units of different categories
                'ExceptionUnitsMissmatchedCategory': 'map_has("ucat", u_1) and map_has("ucat", u_2) and map_get("ucat", u_1) != map_get("ucat", u_2)'},
        canaries=['result == v'], crosscheck=False))
    # ------------------------------------------------------------------ LIS engineering values: the shared conversion helper behind
    # every EngVal arithmetic operator and comparison refuses exactly what Units.convert refuses (same units: the value itself)
    import z3
    EVF = 'src/TotalDepth/LIS/core/EngVal.py'
    EV = KRec('EngVal', value=Real, uom=Int)
    G_EV = {'DIMENSIONLESS': z3.Int('unit_id_of_the_blank_unit')}
    REFUSE = {'ExceptionUnitsUnknownUnit': 'theUnits != self.uom and (not map_has("ucat", self.uom) or not map_has("ucat", theUnits))',
              'ExceptionUnitsMissmatchedCategory': 'theUnits != self.uom and map_has("ucat", self.uom) and map_has("ucat", theUnits)'
                                                   ' and map_get("ucat", self.uom) != map_get("ucat", theUnits)'}
    reg.add(Contract(EVF, 'EngVal.dimensionless', inline=True))
    reg.add(Contract(EVF, 'EngVal.getInUnits', {'self': EV, 'theUnits': Int}, returns=Real, globals_=G_EV, raises=REFUSE,
                     ensures=['implies(theUnits == self.uom, result == self.value)'], canaries=['result == self.value'], crosscheck=False))
    reg.add(Contract(EVF, 'EngVal.__init__', inline=True))      # executed from its real body (round 1 assumed "stores its arguments")
    reg.add(Contract(EVF, 'EngVal.newEngValInUnits', {'self': EV, 'theUnits': Int}, returns=EV, globals_=G_EV, raises=REFUSE,
                     ensures=['result.uom == theUnits', 'implies(theUnits == self.uom, result.value == self.value)'],
                     canaries=['result.value == self.value'], crosscheck=False))
    # the operators between two engineering values: the right operand is converted to the LEFT operand's units (refused exactly when
    # that conversion is refused); with identical units it is plain arithmetic on the two values; the units of the result are the left's
    REFUSE2 = {k: v.replace('theUnits', 'OTHER_UOM').replace('self.uom', 'other.uom').replace('OTHER_UOM', 'self.uom') for k, v in REFUSE.items()}
    for opname, sym in (('__add__', '+'), ('__sub__', '-')):
        reg.add(Contract(EVF, 'EngVal.' + opname, {'self': EV, 'other': EV}, returns=EV, globals_=G_EV, raises=REFUSE2,
                         ensures=['result.uom == self.uom', 'implies(other.uom == self.uom, result.value == self.value %s other.value)' % sym],
                         canaries=['result.value == self.value'], crosscheck=False))
    for opname, sym in (('__iadd__', '+'), ('__isub__', '-')):
        reg.add(Contract(EVF, 'EngVal.' + opname, {'self': EV, 'other': EV}, returns=EV, globals_=G_EV, raises=REFUSE2, modifies=['self.value'],
                         ensures=['self.uom == old(self.uom)', 'implies(other.uom == self.uom, self.value == old(self.value) %s other.value)' % sym,
                                  'result.value == self.value and result.uom == self.uom'],
                         canaries=['self.value == old(self.value)'], crosscheck=False))
    for opname, sym in (('__lt__', '<'), ('__le__', '<='), ('__gt__', '>'), ('__ge__', '>='), ('__eq__', '=='), ('__ne__', '!=')):
        reg.add(Contract(EVF, 'EngVal.' + opname, {'self': EV, 'other': EV}, returns=Bool, globals_=G_EV, raises=REFUSE2,
                         ensures=['implies(other.uom == self.uom, result == (self.value %s other.value))' % sym],
                         canaries=['result', 'not result'], crosscheck=False))
    # the same operators with a plain number on the right: arithmetic on the value, units untouched, nothing converted or refused
    for opname, sym, exc in (('__add__', '+', {}), ('__sub__', '-', {}), ('__mul__', '*', {}), ('__truediv__', '/', {'ZeroDivisionError': 'other == 0'})):
        reg.add(Contract(EVF, 'EngVal.' + opname, {'self': EV, 'other': Real}, returns=EV, globals_=G_EV, raises=exc, name='EngVal.%s[number]' % opname,
                         ensures=['result.uom == self.uom', 'result.value == self.value %s other' % sym],
                         canaries=['result.value == self.value'], crosscheck=False), callable_=False)
    for opname, sym, exc in (('__iadd__', '+', {}), ('__isub__', '-', {}), ('__imul__', '*', {}), ('__itruediv__', '/', {'ZeroDivisionError': 'other == 0'})):
        reg.add(Contract(EVF, 'EngVal.' + opname, {'self': EV, 'other': Real}, returns=EV, globals_=G_EV, raises=exc, modifies=['self.value'],
                         name='EngVal.%s[number]' % opname,
                         ensures=['self.uom == old(self.uom)', 'self.value == old(self.value) %s other' % sym, 'result.value == self.value and result.uom == self.uom'],
                         canaries=['self.value == old(self.value)'], crosscheck=False), callable_=False)
    reg.add(Contract(EVF, 'EngVal.convert', {'self': EV, 'theUnits': Int}, globals_=G_EV, raises=REFUSE, modifies=['self.value', 'self.uom'],
                     ensures=['self.uom == theUnits', 'implies(theUnits == old(self.uom), self.value == old(self.value))'],
                     canaries=['self.value == old(self.value)'], crosscheck=False))


def standins(tier, seed):
    """Closed side conditions over the finite unit tables (exhaustive enumeration of table rows, not of values)."""
    import subprocess
    code = r'''
import json, math, sys
sys.path.insert(0, "%s/src")
from TotalDepth.common import units
from TotalDepth.LIS.core import Units as LU
tab = units.read_osdd_static_data()
bad = [k for k, u in tab.items() if not (u.scale != 0 and math.isfinite(u.scale) and math.isfinite(u.offset))]
sf = {}
for k, u in tab.items():
    if u.standard_form:
        sf.setdefault(u.standard_form, set()).add(u.dimension)
bad_sf = [k for k, v in sf.items() if len(v) > 1]
lis_bad = []
n_lis = 0
for cat in LU.unitCategories():
    ucc = LU.retUnitConvertCategory(cat)
    for u in ucc.units():
        n_lis += 1
        uc = ucc.unitConvertor(u)
        if not (uc.mult != 0 and math.isfinite(uc.mult) and (uc.offs is None or math.isfinite(uc.offs))):
            lis_bad.append(repr(u))
        if LU.category(u) != cat:
            lis_bad.append("category of %%r" %% u)
print(json.dumps({"osdd": len(tab), "bad": bad, "bad_standard_forms": bad_sf, "lis": n_lis, "lis_bad": lis_bad}))
''' % os.environ.get('PYVC_REPO', '/repo')
    p = subprocess.run(['/venv/bin/python', '-c', code], capture_output=True, text=True)
    try:
        r = json.loads(p.stdout.strip().split('\n')[-1])
    except Exception:
        return [{'name': 'unit-table-side-conditions', 'kind': 'closed-check', 'error': (p.stdout + p.stderr)[-800:],
                 'violation': 'table check crashed', 'replay': '# table check crashed\n' + (p.stdout + p.stderr)[-800:]}]
    out = {'name': 'unit-table-side-conditions', 'kind': 'closed check over the finite tables (exhaustive)',
           'bound': 'all %d OSDD entries and all %d LIS units' % (r['osdd'], r['lis']), 'cases': r['osdd'] + r['lis'],
           'result': r}
    if r['bad'] or r['lis_bad']:
        out['violation'] = 'table entries with zero / non-finite scale: %s %s' % (r['bad'][:5], r['lis_bad'][:5])
        out['replay'] = '# %s\nimport sys; print(%r); sys.exit(1)\n' % (out['violation'], out['violation'])
    return [out, _array_standin(tier, seed), _history_standin(tier, seed)]


def _array_standin(tier, seed):
    """convert_array / convert_array_inplace against element-wise scalar convert, for float AND integer arrays (the contracts
    are stated in the real-number model and do not see numpy dtypes): bounded."""
    from pyvc import standin
    n = 150 if tier == 'quick' else 4000
    code = r'''
import numpy as np
from TotalDepth.common import units
rnd = random.Random(%d)
tab = units.read_osdd_static_data()
by_dim = {}
for k, u in tab.items():
    by_dim.setdefault(u.dimension, []).append(k)
dims = [d for d, ks in by_dim.items() if len(ks) >= 2]
bad = []
cases = 0
for it in range(%d):
    d = rnd.choice(dims)
    a, b = rnd.sample(by_dim[d], 2)
    ua, ub = tab[a], tab[b]
    dtype = rnd.choice(['float64', 'float64', 'float32', 'int64', 'int32', 'int16'])
    vals = [rnd.choice([0, 1, 2, 3, 1000, -7, 12345]) if dtype.startswith('int') else rnd.choice([0.0, 1.0, -2.5, 1000.125, 3.0e-3, 98765.4321])
            for _ in range(rnd.randint(1, 6))]
    arr = np.array(vals, dtype=dtype)
    want = [units.convert(float(v), ua, ub) for v in arr]
    tol = 1e-5 if dtype == 'float32' else 1e-11
    if dtype == 'float32' and any(w != 0 and not (1e-30 < abs(w) < 1e30) for w in want):
        continue          # outside what a float32 array can hold: not a conversion error
    cases += 1
    try:
        got = units.convert_array(arr, ua, ub)
        ok = len(got) == len(want) and all(abs(float(g) - w) <= tol * max(1.0, abs(w)) for g, w in zip(got, want))
        if ok and dtype.startswith('float'):
            arr2 = arr.copy()
            units.convert_array_inplace(arr2, ua, ub)
            ok = all(abs(float(g) - w) <= tol * max(1.0, abs(w)) for g, w in zip(arr2, want))
        why = 'array conversion differs from the scalar conversion of each element'
    except Exception as e:
        ok, why, got = False, 'exception %%r' %% (e,), None
    if not ok and len(bad) < 3:
        bad.append({'from': a, 'to': b, 'dtype': dtype, 'values': vals, 'why': why, 'got': None if got is None else [float(g) for g in got], 'want': want})
print(json.dumps({'cases': cases, 'bad': bad}))
if bad:
    sys.exit(1)
''' % (seed, n)
    return standin.run('array-conversion-equals-scalar-conversion', 'bounded: convert_array / convert_array_inplace on float64, float32, int64, int32 and '
                       'int16 arrays against scalar convert of each element, random unit pairs of the OSDD table',
                       '%d arrays of 1..6 values' % n, code)


def _history_standin(tier, seed):
    """LIS EngVal: what a conversion returns depends only on the CURRENT value and units, whatever was done to the object
    before (earlier conversions, in-place arithmetic, comparisons).  A whole-history statement: the per-function contracts
    state it through frame conditions (getInUnits modifies nothing), but an edit that adds state the contracts' object kind
    does not know leaves the verifier's subset (exit 3), so this bounded stand-in runs operation sequences."""
    from pyvc import standin
    n = 300 if tier == 'quick' else 6000
    code = r'''
from TotalDepth.LIS.core import Units as LU, EngVal as EVM
rnd = random.Random(%d)
cats = []
for cat in LU.unitCategories():
    us = LU.retUnitConvertCategory(cat).units()
    if len(us) >= 2:
        cats.append(us)
bad, cases = [], 0
for it in range(%d):
    us = rnd.choice(cats)
    u0 = rnd.choice(us)
    val = rnd.choice([0.0, 1.0, -2.5, 20.0, 300.0, 1000.0, 1234.5])
    ev = EVM.EngVal(val, u0)
    mval, muom = val, u0              # the model: just the current value and units
    hist = [('new', val, repr(u0))]
    for step in range(rnd.randint(2, 7)):
        op = rnd.choice(['get', 'get', 'iadd', 'isub', 'imul', 'idiv', 'convert', 'cmp', 'new', 'set'])
        u = rnd.choice(us)
        k = rnd.choice([0.5, 2.0, 10.0, 500.0])
        try:
            if op == 'get':
                got, want = ev.getInUnits(u), (mval if u == muom else LU.convert(mval, muom, u))
            elif op == 'new':
                ne = ev.newEngValInUnits(u)
                got, want = (ne.value, ne.uom), ((mval if u == muom else LU.convert(mval, muom, u)), u)
            elif op == 'cmp':
                other = EVM.EngVal(k, u)
                got, want = (other > ev, other == ev), (k > (mval if u == muom else LU.convert(mval, muom, u)), k == (mval if u == muom else LU.convert(mval, muom, u)))
            elif op == 'convert':
                ev.convert(u)
                if u != muom:
                    mval, muom = LU.convert(mval, muom, u), u
                got, want = (ev.value, ev.uom), (mval, muom)
            elif op == 'set':
                ev.value = k
                mval = k
                got = want = None
            else:
                if op == 'iadd':
                    ev += k; mval = mval + k
                elif op == 'isub':
                    ev -= k; mval = mval - k
                elif op == 'imul':
                    ev *= k; mval = mval * k
                else:
                    ev /= k; mval = mval / k
                got, want = (ev.value, ev.uom), (mval, muom)
        except Exception as e:
            got, want = 'exception %%r' %% (e,), 'no exception'
        hist.append((op, repr(u), k))
        cases += 1
        if got != want:
            if len(bad) < 3:
                bad.append({'history': hist, 'got': repr(got), 'want': repr(want)})
            break
print(json.dumps({'cases': cases, 'bad': bad}))
if bad:
    sys.exit(1)
''' % (seed, n)
    return standin.run('engval-history-independence', 'bounded: random operation sequences on a LIS EngVal (conversions, in-place arithmetic, assignment, '
                       'comparisons) against a stateless model (current value and units only), units of one category', '%d sequences of 2..7 operations' % n, code)
