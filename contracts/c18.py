"""C18 — generated XML, XHTML and SVG are well-formed and carry the data unchanged (util/XmlWrite.py ...).
Kernel under contract: the element-stack discipline of XmlStream (startElement / endElement / characters / literal /
comment / pI / xmlSpacePreserve / _indent / _canIndent / _flipIndent / _closeElemIfOpen / __exit__): every start is matched by an end in LIFO order, a mismatched end is refused, leaving the
context manager closes everything.  _encode is decided by complete enumeration of all Unicode code points against an
independent XML 1.0 character / reference validator (a finite domain, enumerated completely).  Whole documents from the
index / HTML / SVG generators are covered by the bounded stand-in."""
from pyvc.kinds import *
from pyvc.contract import Contract, Loop, Lemma

XW = 'src/TotalDepth/util/XmlWrite.py'
OUT = KRec('TextIO', writes=Int)
XS = KRec('XmlStream', _file=OUT, _fileClose=False, _enc='utf-8', _elemStk=KView(Int), _inElem=Bool, _canIndentStk=KView(Bool))
ASSUMPTIONS = ['element names are compared for equality only (modelled as integer ids); startElement is verified for an empty attribute dict and for a dict of two concrete keys with arbitrary text values '
               '(attribute values go through _encode, decided by the code-point enumeration; the text written is not under contract)',
               'the output file is abstracted to its number of write calls: WHAT characters/literal/comment/pI/_indent write is not under contract '
               '(whole documents: bounded stand-in); text repeated a symbolic number of times (INDENT_STR * depth) is an arbitrary string of the right length']


def register(reg):
    reg.add(Contract(XW, 'XmlStream._canIndent', {'self': XS}, returns=Bool,
                     ensures=['result == forall(0, len(self._canIndentStk), lambda i: self._canIndentStk[i])'],
                     loops=[Loop('for b in self._canIndentStk', index='k', invariants=['forall(0, k, lambda i: self._canIndentStk[i])'])],
                     canaries=['result', 'not result'], crosscheck=False))
    reg.add(Contract(XW, 'XmlStream._indent', {'self': XS, 'offset': Int}, modifies=['self._file.writes'],
                     ensures=['self._file.writes >= old(self._file.writes)'], crosscheck=False))
    reg.add(Contract(XW, 'XmlStream._flipIndent', {'self': XS, 'theBool': Bool}, requires=['len(self._canIndentStk) > 0'],
                     modifies=['self._canIndentStk'], ensures=['len(self._canIndentStk) == len(old(self._canIndentStk))',
                              'self._canIndentStk[len(self._canIndentStk) - 1] == theBool',
                              'forall(0, len(self._canIndentStk) - 1, lambda i: self._canIndentStk[i] == old(self._canIndentStk)[i])'], crosscheck=False))
    reg.add(Contract(XW, 'XmlStream._closeElemIfOpen', {'self': XS}, modifies=['self._inElem', 'self._file.writes'],
                     ensures=['not self._inElem', 'self._file.writes == old(self._file.writes) + (1 if old(self._inElem) else 0)'],
                     canaries=['self._file.writes == old(self._file.writes)'], crosscheck=False))
    STK = 'len(self._canIndentStk) == len(self._elemStk)'
    reg.add(Contract(XW, 'XmlStream.startElement', {'self': XS, 'name': Int, 'attrs': {}}, requires=[STK],
                     modifies=['self._inElem', 'self._file.writes', 'self._elemStk', 'self._canIndentStk'],
                     ensures=[STK, 'self._inElem', 'len(self._elemStk) == len(old(self._elemStk)) + 1', 'self._elemStk[len(self._elemStk) - 1] == name',
                              'forall(0, len(old(self._elemStk)), lambda i: self._elemStk[i] == old(self._elemStk)[i])'],
                     canaries=['len(self._elemStk) == 1'], crosscheck=False))
    # content between the tags: text, literal text, comments, processing instructions and xml:space leave the element stack
    # exactly as it was (so every start is still matched by its end), close the pending start tag first, and write something
    reg.add(Contract(XW, 'XmlStream._encode', {'self': XS, 'theStr': Str}, returns=Str, trusted=True,
                     note='_encode(text): what it returns is decided by the complete code-point enumeration (stand-in 1), not here'), verify=False)
    for fname, arg in (('characters', 'theString'), ('literal', 'theString'), ('pI', 'theS')):
        reg.add(Contract(XW, 'XmlStream.' + fname, {'self': XS, arg: Str}, requires=[STK, 'len(self._elemStk) > 0'],
                         modifies=['self._inElem', 'self._file.writes', 'self._canIndentStk'],
                         ensures=[STK, 'not self._inElem', 'self._file.writes > old(self._file.writes)',
                                  # no further indentation inside this element (mixed content), enclosing elements unaffected
                                  'not self._canIndentStk[len(self._canIndentStk) - 1]',
                                  'forall(0, len(self._canIndentStk) - 1, lambda i: self._canIndentStk[i] == old(self._canIndentStk)[i])'],
                         canaries=['self._inElem'], crosscheck=False))
    reg.add(Contract(XW, 'XmlStream.comment', {'self': XS, 'theS': Str}, requires=[STK],
                     modifies=['self._inElem', 'self._file.writes'],
                     ensures=[STK, 'not self._inElem', 'self._file.writes > old(self._file.writes)'],
                     canaries=['self._inElem'], crosscheck=False))
    reg.add(Contract(XW, 'XmlStream.xmlSpacePreserve', {'self': XS}, requires=[STK, 'len(self._elemStk) > 0'],
                     modifies=['self._canIndentStk'],
                     ensures=[STK, 'not self._canIndentStk[len(self._canIndentStk) - 1]',
                              'forall(0, len(self._canIndentStk) - 1, lambda i: self._canIndentStk[i] == old(self._canIndentStk)[i])'],
                     canaries=['self._canIndentStk[len(self._canIndentStk) - 1]'], crosscheck=False))
    # startElement with attributes: two attributes with arbitrary text values (keys concrete, as at every call site of the writers);
    # the loop over the sorted keys is executed key by key from the real body; the stack discipline is the same as without attributes
    import z3 as _z3
    reg.add(Contract(XW, 'XmlStream.startElement', {'self': XS, 'name': Int, 'attrs': {'stride': _z3.String('attr_value_stride'), 'datum': _z3.String('attr_value_datum')}},
                     name='XmlStream.startElement[two attributes]', requires=[STK],
                     modifies=['self._inElem', 'self._file.writes', 'self._elemStk', 'self._canIndentStk'],
                     ensures=[STK, 'self._inElem', 'len(self._elemStk) == len(old(self._elemStk)) + 1', 'self._elemStk[len(self._elemStk) - 1] == name',
                              'forall(0, len(old(self._elemStk)), lambda i: self._elemStk[i] == old(self._elemStk)[i])',
                              # one write for the tag and one per attribute, after the pending tag is closed and the indentation written
                              'self._file.writes >= old(self._file.writes) + 3'],
                     loops=[Loop('for k in kS', unroll=True)],
                     canaries=['len(self._elemStk) == 1'], crosscheck=False), callable_=False)
    reg.add(Contract(XW, 'XmlStream.endElement', {'self': XS, 'name': Int}, requires=[STK],
                     modifies=['self._inElem', 'self._file.writes', 'self._elemStk', 'self._canIndentStk'],
                     # a close that does not match the innermost open element is refused
                     raises={'ExceptionXmlEndElement': 'len(self._elemStk) == 0 or name != self._elemStk[len(self._elemStk) - 1]'},
                     ensures=[STK, 'not self._inElem', 'len(self._elemStk) == len(old(self._elemStk)) - 1',
                              'forall(0, len(self._elemStk), lambda i: self._elemStk[i] == old(self._elemStk)[i])',
                              'self._file.writes > old(self._file.writes)'],
                     canaries=['len(self._elemStk) == 0'], crosscheck=False))
    reg.add(Contract(XW, 'XmlStream.__exit__', {'self': XS, 'exc_type': NoneK, 'exc_value': NoneK, 'traceback': NoneK}, requires=[STK],
                     modifies=['self._inElem', 'self._file.writes', 'self._elemStk', 'self._canIndentStk'], returns=Bool,
                     ensures=['len(self._elemStk) == 0', 'result == False'],
                     loops=[Loop('while len(self._elemStk)', invariants=[STK], decreases='len(self._elemStk)')],
                     canaries=['self._file.writes == old(self._file.writes)'], crosscheck=False))


def standins(tier, seed):
    """(1) _encode on EVERY Unicode code point (complete enumeration) against an independent XML 1.0 validator/decoder;
    (2) whole documents: the sub-agent written stand-in c18_xml.py."""
    import os
    from pyvc import standin
    code = r'''
import io, re
from TotalDepth.util import XmlWrite
xs = XmlWrite.XmlStream(io.StringIO())
def xml_char(cp):
    """XML 1.0 (5th ed.) production [2] Char"""
    return cp in (0x9, 0xA, 0xD) or 0x20 <= cp <= 0xD7FF or 0xE000 <= cp <= 0xFFFD or 0x10000 <= cp <= 0x10FFFF
ENT = {'lt': '<', 'gt': '>', 'amp': '&', 'apos': "'", 'quot': '"'}
REF = re.compile(r'&(#[0-9]+|#x[0-9a-fA-F]+|[a-z]+);')
def decode(text):
    """What an XML parser yields for `text` inside an attribute value or element content; None if not well-formed."""
    out = []
    i = 0
    while i < len(text):
        ch = text[i]
        if ch == '&':
            m = REF.match(text, i)
            if not m:
                return None
            r = m.group(1)
            if r.startswith('#x'):
                cp = int(r[2:], 16)
            elif r.startswith('#'):
                cp = int(r[1:])
            else:
                if r not in ENT:
                    return None
                out.append(ENT[r]); i = m.end(); continue
            if not xml_char(cp):
                return None          # a character reference must refer to a legal Char (WFC: Legal Character)
            out.append(chr(cp)); i = m.end(); continue
        if ch in '<"' or not xml_char(ord(ch)):
            return None
        # attribute-value normalisation (XML 1.0 3.3.3): a literal TAB, LF or CR comes back as a space, so these
        # characters survive only when written as character references
        out.append(' ' if ch in '\t\n\r' else ch); i += 1
    return ''.join(out)
KNOWN = %r
bad = []
cases = 0
known_hits = 0
for cp in range(0x110000):
    c = chr(cp)
    cases += 1
    try:
        enc = xs._encode(c)
    except Exception as e:
        if len(bad) < 5: bad.append({'code_point': cp, 'why': 'exception %%r' %% (e,)})
        continue
    dec = decode(enc)
    if xml_char(cp):
        ok = dec == c          # representable: must come back unchanged
    else:
        ok = dec is not None   # not representable: the output must still be well-formed
    if not ok:
        if KNOWN and not xml_char(cp):
            known_hits += 1
            continue
        if len(bad) < 5: bad.append({'code_point': cp, 'encoded': enc, 'decoded': dec})
print(json.dumps({'cases': cases, 'bad': bad, 'detail': {'known_finding_code_points': known_hits}}))
if bad:
    sys.exit(1)
'''
    from pyvc.check import load_findings
    known = any(f.get('exclusion_id') == 'non-xml-char-references' for f in load_findings('C18'))
    res = [standin.run('xml-encode-all-code-points', 'complete enumeration of a finite domain (all 1,114,112 Unicode code points), not counted as proved',
                       'every code point, in attribute-value / text context; independent XML 1.0 Char and reference validator', code % (known,))]
    if os.path.exists(os.path.join(standin.VERIF, 'standins', 'c18_xml.py')):
        n = 25 if tier == 'quick' else 800
        res.append(standin.run_script('xml-documents', 'c18_xml.py', seed, n, 'bounded: element nestings with hostile strings, RP66V1 XML index expansion, HTML / SVG generators',
                                      '%d cases' % n))
    return res
