"""C04 — DLIS frame arrays hold exactly the recorded values; sub-selection commutes.
Kernel under contract: the fixed byte length of a channel in a frame and the skip of unselected channels
(RP66V1/core/LogPass.py RP66V1FrameChannel.len_input_bytes / seek), the row mapping of a frame slice (C15) and the
frame-number / X bookkeeping of XAxis.  Whole populate calls on generated files are covered by the bounded stand-in."""
from pyvc.kinds import *
from pyvc.contract import Contract, Loop, Lemma
from contracts import c07

LPR = 'src/TotalDepth/RP66V1/core/LogPass.py'
XA = 'src/TotalDepth/RP66V1/core/XAxis.py'


def register(reg):
    c07.register_rp66(reg)
    register_channels(reg)


def standins(tier, seed):
    from pyvc import standin
    n = 25 if tier == 'quick' else 800
    return [standin.run_script('dlis-frame-arrays-end-to-end', 'c03c04_dlis_logical.py', seed, n,
                               'bounded: generated RP66V1 log passes (independent encoder gen/dlis_logical.py); full population, every '
                               'distinct slice / sample / channel subset, sequences of populate calls on the same index',
                               '%d files: 1..3 frame types interleaved, 1..5 channels of 10 numeric codes, dims up to [2,2,2] and [16], 1..16 frames' % n,
                               extra_args=['--part', 'c04'])]


FCH = KRec('RP66V1FrameChannel', rep_code=Int, count=Int, array=KView(Int))
LD = c07.LD
FIXED = {1: 2, 2: 4, 3: 8, 4: 12, 5: 4, 6: 4, 7: 8, 8: 16, 9: 24, 10: 8, 11: 16, 12: 1, 13: 2, 14: 4, 15: 1, 16: 2, 17: 4, 21: 8, 26: 1}
SPEC = 'def fixed_len(rc):\n    return ' + ' '.join('%d if rc == %d else' % (v, k) for k, v in FIXED.items()) + ' 0\n'
ISFIXED = '(%s)' % ' or '.join('self.rep_code == %d' % k for k in FIXED)


def register_channels(reg):
    reg.add_spec_source(SPEC)
    reg.add(Contract(LPR, 'RP66V1FrameChannel.len_input_bytes', {'self': FCH}, requires=['self.count >= 0'], returns=Int,
                     raises={'ExceptionFrameChannel': 'not ' + ISFIXED},
                     ensures=['result == self.count * fixed_len(self.rep_code)'], canaries=['result == 0'], crosscheck=False))
    reg.add(Contract(LPR, 'RP66V1FrameChannel.seek', {'self': FCH, 'ld': LD}, requires=['self.count >= 0'], modifies=['ld.index'],
                     raises={'ExceptionFrameChannel': 'len(self.array) != 0', 'ExceptionRepCode': 'len(self.array) == 0 and not ' + ISFIXED},
                     # an unselected channel is skipped by exactly the bytes a read of it would consume (count values of the
                     # fixed length of its representation code): later channels are decoded from the same bytes as in a full read
                     ensures=['ld.index == old(ld.index) + self.count * fixed_len(self.rep_code)'],
                     canaries=['ld.index == old(ld.index)'], crosscheck=False))
