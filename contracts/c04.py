"""C04 — DLIS frame arrays hold exactly the recorded values; sub-selection commutes.
Kernel under contract: the fixed byte length of a channel in a frame and the skip of unselected channels
(RP66V1/core/LogPass.py RP66V1FrameChannel.len_input_bytes / seek), the row mapping of a frame slice (C15) and the
frame-number / X bookkeeping of XAxis.  Whole populate calls on generated files are covered by the bounded stand-in."""
from pyvc.kinds import *
from pyvc.contract import Contract, Loop, Lemma
from contracts import c07

LPR = 'src/TotalDepth/RP66V1/core/LogPass.py'
XA = 'src/TotalDepth/RP66V1/core/XAxis.py'


def register(reg):
    c07.register_rp66(reg)
    register_channels(reg)
    register_frame_array(reg)
    register_xaxis(reg)
    # row selection (populate_frame_array sizes the arrays with Slice.count / Sample.count and fills them from gen_indices)
    from contracts import c15
    c15.register(reg)


def standins(tier, seed):
    from pyvc import standin
    n = 25 if tier == 'quick' else 800
    return [standin.run_script('dlis-frame-arrays-end-to-end', 'c03c04_dlis_logical.py', seed, n,
                               'bounded: generated RP66V1 log passes (independent encoder gen/dlis_logical.py); full population, every '
                               'distinct slice / sample / channel subset, sequences of populate calls on the same index',
                               '%d files: 1..3 frame types interleaved, 1..5 channels of 10 numeric codes, dims up to [2,2,2] and [16], 1..16 frames' % n,
                               extra_args=['--part', 'c04'])]


FCH = KRec('RP66V1FrameChannel', rep_code=Int, count=Int, array=KView(Int), ident=Int)
LD = c07.LD
FIXED = {1: 2, 2: 4, 3: 8, 4: 12, 5: 4, 6: 4, 7: 8, 8: 16, 9: 24, 10: 8, 11: 16, 12: 1, 13: 2, 14: 4, 15: 1, 16: 2, 17: 4, 21: 8, 26: 1}
SPEC = 'def fixed_len(rc):\n    return ' + ' '.join('%d if rc == %d else' % (v, k) for k, v in FIXED.items()) + ' 0\n'
ISFIXED = '(%s)' % ' or '.join('self.rep_code == %d' % k for k in FIXED)


def register_channels(reg):
    reg.add_spec_source(SPEC)
    reg.add(Contract(LPR, 'RP66V1FrameChannel.len_input_bytes', {'self': FCH}, requires=['self.count >= 0'], returns=Int,
                     raises={'ExceptionFrameChannel': 'not ' + ISFIXED},
                     ensures=['result == self.count * fixed_len(self.rep_code)'], canaries=['result == 0'], crosscheck=False))
    reg.add(Contract(LPR, 'RP66V1FrameChannel.seek', {'self': FCH, 'ld': LD}, requires=['self.count >= 0'], modifies=['ld.index'],
                     raises={'ExceptionFrameChannel': 'len(self.array) != 0', 'ExceptionRepCode': 'len(self.array) == 0 and not ' + ISFIXED},
                     # an unselected channel is skipped by exactly the bytes a read of it would consume (count values of the
                     # fixed length of its representation code): later channels are decoded from the same bytes as in a full read
                     ensures=['ld.index == old(ld.index) + self.count * fixed_len(self.rep_code)'],
                     canaries=['ld.index == old(ld.index)'], crosscheck=False))


def register_xaxis(reg):
    """XAxis (the per frame-type index of IFLRs): append stores exactly the position, the RECORDED frame number and the X
    value it is given, after the entries already there and without touching them; item access and length read them back."""
    REF = KRec('IFLRReference', logical_record_position=Int, frame_number=Int, x_axis=Real)
    XS = KRec('XAxis', _data=KView(REF), _summary=KOpt(Int))
    reg.add(Contract(XA, 'XAxis.append', {'self': XS, 'position': Int, 'frame_number': Int, 'x_axis': Real},
                     modifies=['self._data', 'self._summary'],
                     ensures=['len(self._data) == len(old(self._data)) + 1',
                              'self._data[len(self._data) - 1].frame_number == frame_number',
                              'self._data[len(self._data) - 1].logical_record_position == position',
                              'self._data[len(self._data) - 1].x_axis == x_axis',
                              'forall(0, len(old(self._data)), lambda i: self._data[i] == old(self._data)[i])',
                              # a cached summary of the shorter axis is dropped
                              'is_none(self._summary)'],
                     canaries=['len(self._data) == len(old(self._data))', 'self._data[len(self._data) - 1].frame_number == len(self._data)'],
                     crosscheck=False))
    reg.add(Contract(XA, 'XAxis.__getitem__', {'self': XS, 'item': Int}, requires=['0 <= item', 'item < len(self._data)'], returns=REF,
                     ensures=['result == self._data[item]'], canaries=['result.frame_number == item + 1'], crosscheck=False))
    reg.add(Contract(XA, 'XAxis.__len__', {'self': XS}, returns=Int, ensures=['result == len(self._data)'], canaries=['result == 0'], crosscheck=False))


def _requested():
    import z3
    from pyvc.engine import AbsSet
    mem = z3.Function('nominated', z3.IntSort(), z3.BoolSort())
    return AbsSet(lambda e: mem(to_int(e)), z3.Bool('nominated_is_empty'))


def register_frame_array(reg):
    """RP66V1FrameArray.read / read_partial: whatever subset of channels is nominated, the frame's bytes are consumed channel
    by channel - a nominated channel (and always the first one) by reading it, any other by skipping exactly its length - so
    after the call the cursor stands at the end of the frame and every later channel was decoded from its own bytes.
    off[c] is the ghost byte offset of channel c in the frame (off[c+1] = off[c] + count_c * fixed length of its code)."""
    OFF = ('len(off) == len(self.channels) + 1 and off[0] == 0 and forall(0, len(self.channels), lambda c: self.channels[c].count >= 0 and '
           'off[c + 1] == off[c] + self.channels[c].count * fixed_len(self.channels[c].rep_code) and fixed_len(self.channels[c].rep_code) > 0)')
    reg.add(Contract(LPR, 'RP66V1FrameChannel.read', {'self': FCH, 'ld': LD, 'frame_number': Int}, requires=['self.count >= 0'],
                     modifies=['ld.index'], trusted=True, raises={'ExceptionFrameChannel': 'frame_number >= len(self.array)'},
                     ensures=['ld.index == old(ld.index) + self.count * fixed_len(self.rep_code)'],
                     note='RP66V1FrameChannel.read consumes count values of its representation code (per-code consumption is proved under C07); '
                          'numpy storage trusted'), verify=False)
    FA = KRec('RP66V1FrameArray', channels=KView(FCH))
    reg.add(Contract(LPR, 'RP66V1FrameArray._handle_remaining', inline=True))
    sel = '(c == 0 or (self.channels[c].ident in channels))'
    reg.add(Contract(
        LPR, 'RP66V1FrameArray.read_partial', {'self': FA, 'ld': LD, 'frame_number': Int, 'channels': _requested()}, ghost={'off': KView(Int)},
        requires=[OFF, 'frame_number >= 0',
                  # arrays are initialised for the nominated channels (and the first), and only for them
                  'forall(0, len(self.channels), lambda c: (len(self.channels[c].array) > frame_number) if %s else (len(self.channels[c].array) == 0))' % sel],
        modifies=['ld.index'],
        ensures=['ld.index == old(ld.index) + off[len(self.channels)]'],
        loops=[Loop('for (c, channel) in enumerate(self.channels)', index='k', invariants=['ld.index == old(ld.index) + off[k]'])],
        canaries=['ld.index == old(ld.index)'], crosscheck=False))
    reg.add(Contract(
        LPR, 'RP66V1FrameArray.read', {'self': FA, 'ld': LD, 'frame_number': Int}, ghost={'off': KView(Int)},
        requires=[OFF, 'frame_number >= 0', 'forall(0, len(self.channels), lambda c: len(self.channels[c].array) > frame_number)'],
        modifies=['ld.index'], ensures=['ld.index == old(ld.index) + off[len(self.channels)]'],
        loops=[Loop('for channel in self.channels', index='k', invariants=['ld.index == old(ld.index) + off[k]'])],
        canaries=['ld.index == old(ld.index)'], crosscheck=False))
