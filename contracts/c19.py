"""C19 — plotted curves stay inside their track and wrap consistently (first sentence of the property).
Real-number model of util/plot/PRESCfg.py LineTransLin / LineTransLog10."""
from pyvc.kinds import *
from pyvc.contract import Contract, Loop, Lemma

F = 'src/TotalDepth/util/plot/PRESCfg.py'

LEVEL = 'proof'
EXPLANATION = ('Only the first sentence of C19 (wrap count / in-track position of every value on every scale) is decided here. '
               'The second sentence (every produced plot is a well-formed SVG with all points inside the view box, no point '
               'for absent values, LIS and LAS both plot) runs through Plot.py/Track.py/Coord.py and numpy frame sets; no '
               'contract within reach of this verifier expresses "all polyline points of the output document", so it is '
               'not decided by contracts: a bounded stand-in (standins/c19_plot.py) plots generated log passes and locates every '
               'polyline point, and drives the scale arithmetic with adversarial binary64 values against an exact oracle.')
ASSUMPTIONS = [
    'floats are reals: in binary64 (p - floor(p)) can round to 1.0, giving pos == rightP; the real model cannot see that',
    'math.log10 is an uninterpreted function with log10(a/b) = log10(a) - log10(b) for positive a, b (the one instance used '
    'is assumed explicitly)',
    'second sentence of C19 (whole SVG plots) is NOT decided by contracts: bounded stand-in only',
]

FIELDS = dict(_lP=Real, _rP=Real, _lL=Real, _rL=Real, _bu=KTup(Int, Int), _den=Real, _pWidth=Real, _scale=Real, _offset=Real)
LIN = KRec('LineTransLin', **FIELDS)
LOG = KRec('LineTransLog10', **FIELDS)
BASE = KRec('LineTransBase', _lP=Real, _rP=Real, _lL=Real, _rL=Real, _bu=KTup(Int, Int))
INV_LIN = ['self._lP < self._rP', 'self._lL != self._rL', 'self._den == self._rL - self._lL',
           'self._pWidth == self._rP - self._lP', 'self._scale == self._pWidth / self._den',
           'self._offset == self._lP - self._scale * self._lL']
INV_LOG = ['self._lP < self._rP', 'self._lL > 0', 'self._rL > 0', 'self._lL != self._rL',
           'self._den == log10(self._rL / self._lL)', 'self._den != 0',
           'self._pWidth == self._rP - self._lP', 'self._scale == self._pWidth / self._den',
           'self._offset == self._lP - self._scale * log10(self._lL)']
WRAP_POST = ['is_int(result[0])',
             'self._lP <= result[1] and result[1] < self._rP',
             # position + wrap count * track width = the unwrapped scale position
             'result[1] + result[0] * (self._rP - self._lP) == %s']


def register(reg):
    NEWF = [('self._lP', Real), ('self._rP', Real), ('self._lL', Real), ('self._rL', Real), ('self._bu', KTup(Int, Int))]
    reg.add(Contract(F, 'LineTransBase.__init__', {'self': KRec('LineTransBase'), 'leftP': Real, 'rightP': Real, 'leftL': Real,
                                                   'rightL': Real, 'backup': KTup(Int, Int)},
                     modifies=NEWF, raises={'ExceptionLineTransBase': 'leftP >= rightP'},
                     ensures=['self._lP == leftP', 'self._rP == rightP', 'self._lL == leftL', 'self._rL == rightL',
                              'self._bu[0] == backup[0] and self._bu[1] == backup[1]'], crosscheck=False))
    reg.add(Contract(F, 'LineTransLin.__init__', {'self': KRec('LineTransLin'), 'leftP': Real, 'rightP': Real, 'leftL': Real,
                                                  'rightL': Real, 'backup': KTup(Int, Int)},
                     modifies=NEWF + [('self._den', Real), ('self._pWidth', Real), ('self._scale', Real), ('self._offset', Real)],
                     raises={'ExceptionLineTransBase': 'leftP >= rightP', 'ZeroDivisionError': 'leftP < rightP and leftL == rightL'},
                     ensures=INV_LIN + ['self._lP == leftP', 'self._rP == rightP', 'self._lL == leftL', 'self._rL == rightL'],
                     crosscheck=False, canaries=['self._scale == 1']))
    reg.add(Contract(F, 'LineTransLin.L2P', {'self': LIN, 'val': Real}, requires=INV_LIN, returns=Real,
                     ensures=['result == self._lP + (val - self._lL) * (self._rP - self._lP) / (self._rL - self._lL)'],
                     canaries=['result == val'], crosscheck=False))
    reg.add(Contract(F, 'LineTransLin.wrapPos', {'self': LIN, 'val': Real}, requires=INV_LIN, returns=KTup(Int, Real),
                     ensures=[WRAP_POST[0], WRAP_POST[1], WRAP_POST[2] % '(self._offset + self._scale * val)',
                              WRAP_POST[2] % '(self._lP + (val - self._lL) * (self._rP - self._lP) / (self._rL - self._lL))'],
                     canaries=['result[0] == 0', 'result[0] == 1'], crosscheck=False))
    LOGAX = ['implies(val > 0 and self._lL > 0, log10(val / self._lL) == log10(val) - log10(self._lL))']
    reg.add(Contract(F, 'LineTransLog10.L2P', {'self': LOG, 'val': Real}, requires=INV_LOG + ['val > 0'], returns=Real,
                     ensures=['result == self._offset + self._scale * log10(val)'], canaries=['result == val'], crosscheck=False))
    reg.add(Contract(F, 'LineTransLog10.wrapPos', {'self': LOG, 'val': Real}, requires=INV_LOG, assume=LOGAX,
                     returns=KTup(Int, Real), raises={'ExceptionLineTransBaseMath': 'val <= 0'},
                     ensures=[WRAP_POST[0], WRAP_POST[1], WRAP_POST[2] % '(self._offset + self._scale * log10(val))'],
                     canaries=['result[0] == 0', 'result[0] == 1'], crosscheck=False))
    OFF = KRec('LineTransBase', _bu=KTup(Int, Int))
    reg.add(Contract(F, 'LineTransBase.offScale', {'self': OFF, 'w': Int}, returns=Int,
                     ensures=['(result == -1) == (w < 0 and self._bu[0] != 0 and w < self._bu[0])',
                              '(result == 1) == (not (w < 0 and self._bu[0] != 0 and w < self._bu[0]) and w > 0 and self._bu[1] != 0 and w > self._bu[1])',
                              'result == -1 or result == 0 or result == 1'],
                     canaries=['result == 0', 'result == 1'], crosscheck=False))
    reg.add(Contract(F, 'LineTransBase.isOffScaleLeft', {'self': OFF, 'w': Int}, returns=Bool,
                     ensures=['result == (w < 0 and self._bu[0] != 0 and w < self._bu[0])'], canaries=['result'], crosscheck=False))
    reg.add(Contract(F, 'LineTransBase.isOffScaleRight', {'self': OFF, 'w': Int}, returns=Bool,
                     ensures=['result == (not (w < 0 and self._bu[0] != 0 and w < self._bu[0]) and w > 0 and self._bu[1] != 0 and w > self._bu[1])'],
                     canaries=['result'], crosscheck=False))


def standins(tier, seed):
    """Second sentence of C19 (whole plots) and the binary64 behaviour of the scale arithmetic: NOT decided by contracts (the
    proof above is over the reals and stops at wrapPos); bounded stand-in written by a sub-agent: real LineTransLin /
    LineTransLog10 objects driven with adversarial doubles against exact rational / 80-digit arithmetic, and generated LIS /
    LAS log passes plotted with built-in and generated formats, the SVG parsed and every curve point located."""
    import os
    from pyvc import standin
    if not os.path.exists(os.path.join(standin.VERIF, 'standins', 'c19_plot.py')):
        return []
    n = 200 if tier == 'quick' else 3000
    return [standin.run_script('scale-arithmetic-in-binary64-and-svg-plots', 'c19_plot.py', seed, n,
                               'bounded: adversarial doubles on every back-up mode and scale direction (exact oracle); generated LIS / LAS log '
                               'passes (constant, ramp, spiky, huge, tiny, negative, absent runs) plotted with FILM/PRES tables, built-in and '
                               'generated formats; every polyline point checked against view box, margins, track and expected sample position',
                               '%d cases (40%% scale arithmetic, 60%% plots)' % n)]
