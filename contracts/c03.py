"""C03 — DLIS logical files and their tables decode to what was encoded.
Kernel under contract: the component descriptor (RP66V1 3.2.2.1, Figures 3-2 .. 3-5), the set component, the
attribute/template characteristic selection.  Whole tables (objects, compound values, logical file splitting) are
covered by the bounded stand-in."""
from pyvc.kinds import *
from pyvc.contract import Contract, Loop, Lemma
from contracts import c07

CD = 'src/TotalDepth/RP66V1/core/LogicalRecord/ComponentDescriptor.py'
EF = 'src/TotalDepth/RP66V1/core/LogicalRecord/EFLR.py'

SPEC = '''
def role(d):
    """RP66V1 Figure 3-2: bits 1-3 (the three most significant bits) give the role"""
    return d // 32

def cbit(d, k):
    return (d // 2 ** k) % 2 == 1
'''
DESC = KRec('ComponentDescriptor', _desc=Int)
RNG = ['0 <= self._desc', 'self._desc <= 255']
# role numbers of Figure 3-2: 0 ABSATR, 1 ATTRIB, 2 INVATR, 3 OBJECT, 4 reserved, 5 RDSET, 6 RSET, 7 SET
ROLES = {'is_absent_attribute': 'role(self._desc) == 0', 'is_attribute': 'role(self._desc) == 1', 'is_invariant_attribute': 'role(self._desc) == 2',
         'is_object': 'role(self._desc) == 3', 'is_redundant_set': 'role(self._desc) == 5', 'is_replacement_set': 'role(self._desc) == 6',
         'is_set': 'role(self._desc) == 7', 'is_attribute_group': 'role(self._desc) <= 2', 'is_set_group': 'role(self._desc) >= 5'}
CHARS = {'has_set_T': ('role(self._desc) >= 5', 4), 'has_set_N': ('role(self._desc) >= 5', 3), 'has_object_N': ('role(self._desc) == 3', 4),
         'has_attribute_L': ('role(self._desc) <= 2', 4), 'has_attribute_C': ('role(self._desc) <= 2', 3), 'has_attribute_R': ('role(self._desc) <= 2', 2),
         'has_attribute_U': ('role(self._desc) <= 2', 1), 'has_attribute_V': ('role(self._desc) <= 2', 0)}


def register(reg):
    register_logical_file(reg)
    reg.add_spec_source(SPEC)
    reg.add(Contract(CD, 'ComponentDescriptor._bits_1_3', inline=True))
    reg.add(Contract(CD, 'ComponentDescriptor._bits_4_8', inline=True))
    for prop, spec in ROLES.items():
        reg.add(Contract(CD, 'ComponentDescriptor.' + prop, {'self': DESC}, requires=RNG, returns=Bool, ensures=['result == (%s)' % spec],
                         canaries=['result', 'not result'], inline_at_calls=True, crosscheck=False))
    for prop, (grp, bit) in CHARS.items():
        # Figures 3-3, 3-4, 3-5: the characteristic bits; asking outside the group is an access error
        reg.add(Contract(CD, 'ComponentDescriptor.' + prop, {'self': DESC}, requires=RNG, returns=Int,
                         raises={'ExceptionComponentDescriptorAccessError': 'not (%s)' % grp},
                         ensures=['(result != 0) == cbit(self._desc, %d)' % bit], canaries=['result == 0', 'result != 0'],
                         inline_at_calls=True, crosscheck=False))
    reg.add(Contract(CD, 'ComponentDescriptor.__init__', {'self': KRec('ComponentDescriptor'), 'descriptor': Int}, modifies=[('self._desc', Int)],
                     # rejected: out of range; reserved bits in a set / object descriptor; a set without Type; an object without Name
                     raises={'ExceptionComponentDescriptorInit':
                             'descriptor < 0 or descriptor > 255'
                             ' or (role(descriptor) >= 5 and (descriptor % 8 != 0 or not cbit(descriptor, 4)))'
                             ' or (role(descriptor) == 3 and (descriptor % 16 != 0 or not cbit(descriptor, 4)))'},
                     ensures=['self._desc == descriptor'], canaries=['self._desc == 0'], crosscheck=False))
    # the roles partition the descriptors (Figure 3-2): exactly one of the groups / reserved
    reg.add_lemma(Lemma('roles_partition', {'d': Int}, ['0 <= d', 'd <= 255'],
                        ['(role(d) <= 2) or (role(d) == 3) or (role(d) == 4) or (role(d) >= 5)',
                         'not (role(d) <= 2 and role(d) == 3)', 'not (role(d) == 3 and role(d) >= 5)', '0 <= role(d) and role(d) <= 7']))
    register_attrs(reg)


LD = c07.LD
ATTR_FIELDS = [('self.component_descriptor', DESC), ('self.label', Bytes), ('self.count', Int), ('self.rep_code', Int), ('self.units', Bytes),
               ('self.value', NoneK)]
TATTR = KRec('TemplateAttribute', component_descriptor=DESC, label=Bytes, count=Int, rep_code=Int, units=Bytes, value=NoneK)


def register_logical_file(reg):
    """LogicalFile.add_eflr: every explicitly formatted record handed to it that it does not refuse becomes the LAST table of the
    logical file, with its position; the tables already there are untouched.  (Repeated ORIGIN / WELL-REFERENCE sets are
    logged, not dropped.)"""
    LFP = 'src/TotalDepth/RP66V1/core/LogicalFile.py'
    EFL = KRec('ExplicitlyFormattedLogicalRecord', lr_type=Int, set=KRec('Set', type=Bytes), ident=Int)
    PE = KRec('PositionEFLR', lrsh_position=Int, eflr=EFL)
    FLD = KRec('FileLogicalData', lr_type=Int, position=Int)
    LF = KRec('LogicalFile', eflrs=KView(PE), channel=KOpt(EFL), frame=KOpt(EFL), log_pass=KOpt(Int))
    reg.add(Contract(LFP, 'LogicalFile.is_next', inline=True))
    reg.add(Contract(LFP, 'LogicalFile._check_fld_matches_eflr', inline=True))
    reg.add(Contract(LFP, 'LogicalFile._add_origin_eflr', inline=True))
    reg.add(Contract('src/TotalDepth/RP66V1/core/LogPass.py', 'log_pass_from_RP66V1', {'frame': EFL, 'channel': EFL}, returns=Int, trusted=True,
                     may_raise={'Exception': 'True'}, note='log pass construction from FRAME and CHANNEL tables (C04)'), verify=False)
    reg.add(Contract(
        LFP, 'LogicalFile.add_eflr', {'self': LF, 'file_logical_data': FLD, 'eflr': EFL},
        requires=['len(self.eflrs) >= 1'],
        modifies=['self.eflrs', 'self.channel', 'self.frame', 'self.log_pass'],
        may_raise={'ExceptionLogicalFileAdd': 'True', 'ExceptionLogicalFile': 'file_logical_data.lr_type != eflr.lr_type', 'Exception': 'True'},
        ensures=['len(self.eflrs) == len(old(self.eflrs)) + 1',
                 'self.eflrs[len(self.eflrs) - 1].lrsh_position == file_logical_data.position',
                 'self.eflrs[len(self.eflrs) - 1].eflr.ident == eflr.ident and self.eflrs[len(self.eflrs) - 1].eflr.lr_type == eflr.lr_type',
                 'forall(0, len(old(self.eflrs)), lambda j: self.eflrs[j] == old(self.eflrs)[j])'],
        canaries=['len(self.eflrs) == len(old(self.eflrs))'], crosscheck=False))


def register_attrs(reg):
    # the value decoders of the cells (representation codes) are verified here too: a table cell's values are what they decode
    c07.register_rp66(reg, verify=True)
    I0 = 'old(ld.index)'
    B = 'ld.bytes'
    D = 'component_descriptor._desc'
    # offsets of the characteristics that are present, in the order the standard fixes: Label, Count, Rep code, Units
    OFF_L = I0
    OFF_C = '(%s + (ident_len(%s, %s) if cbit(%s, 4) else 0))' % (I0, B, OFF_L, D)
    OFF_R = '(%s + (uvari_len(%s, %s) if cbit(%s, 3) else 0))' % (OFF_C, B, OFF_C, D)
    OFF_U = '(%s + (1 if cbit(%s, 2) else 0))' % (OFF_R, D)
    END = '(%s + (ident_len(%s, %s) if cbit(%s, 1) else 0))' % (OFF_U, B, OFF_U, D)
    SCOPE = ['0 <= component_descriptor._desc', 'component_descriptor._desc <= 255', 'role(component_descriptor._desc) <= 2',
             # scope of the deductive part: the Value characteristic (a sequence of `count` values decoded through a table of
             # decoder functions) is absent; values are covered by the bounded stand-in
             'not cbit(component_descriptor._desc, 0)', '0 <= ld.index',
             'len(ld.bytes) >= ' + END.replace('old(ld.index)', 'ld.index')]
    for f in ('AttributeBase.__init__',):
        reg.add(Contract(EF, f, inline=True))
    COMMON = ['ld.index == ' + END, 'self.component_descriptor._desc == component_descriptor._desc', 'is_none(self.value) or not cbit(%s, 0)' % D]
    reg.add(Contract(
        EF, 'TemplateAttribute.__init__', {'self': KRec('TemplateAttribute'), 'component_descriptor': DESC, 'ld': LD}, requires=SCOPE,
        modifies=ATTR_FIELDS + ['ld.index'],
        ensures=COMMON + [
            # present characteristics are decoded at their offsets; absent ones take the global defaults of Figure 3-5
            'implies(cbit(%s, 4), len(self.label) == %s[%s] and forall(0, len(self.label), lambda j: self.label[j] == %s[%s + 1 + j]))' % (D, B, OFF_L, B, OFF_L),
            'implies(not cbit(%s, 4), len(self.label) == 0)' % D,
            'self.count == (uvari_val(%s, %s) if cbit(%s, 3) else 1)' % (B, OFF_C, D),
            'self.rep_code == (%s[%s] if cbit(%s, 2) else 19)' % (B, OFF_R, D),
            'implies(cbit(%s, 1), len(self.units) == %s[%s] and forall(0, len(self.units), lambda j: self.units[j] == %s[%s + 1 + j]))' % (D, B, OFF_U, B, OFF_U),
            'implies(not cbit(%s, 1), len(self.units) == 0)' % D],
        canaries=['self.count == 1', 'self.rep_code == 19'], crosscheck=False))
    reg.add(Contract(
        EF, 'Attribute.__init__', {'self': KRec('Attribute'), 'component_descriptor': DESC, 'ld': LD, 'template_attribute': TATTR}, requires=SCOPE,
        modifies=ATTR_FIELDS + ['ld.index'],
        ensures=COMMON + [
            # present characteristics override, omitted ones are taken from the template
            'implies(cbit(%s, 4), len(self.label) == %s[%s] and forall(0, len(self.label), lambda j: self.label[j] == %s[%s + 1 + j]))' % (D, B, OFF_L, B, OFF_L),
            'implies(not cbit(%s, 4), len(self.label) == len(template_attribute.label)'
            ' and forall(0, len(self.label), lambda j: self.label[j] == template_attribute.label[j]))' % D,
            'self.count == (uvari_val(%s, %s) if cbit(%s, 3) else template_attribute.count)' % (B, OFF_C, D),
            'self.rep_code == (%s[%s] if cbit(%s, 2) else template_attribute.rep_code)' % (B, OFF_R, D),
            'implies(cbit(%s, 1), len(self.units) == %s[%s] and forall(0, len(self.units), lambda j: self.units[j] == %s[%s + 1 + j]))' % (D, B, OFF_U, B, OFF_U),
            'implies(not cbit(%s, 1), len(self.units) == len(template_attribute.units)'
            ' and forall(0, len(self.units), lambda j: self.units[j] == template_attribute.units[j]))' % D],
        canaries=['self.count == 1', 'self.rep_code == 19'], crosscheck=False))


def standins(tier, seed):
    """Whole EFLR tables, objects, compound values, logical-file splitting on generated RP66V1 files: bounded."""
    import os
    from pyvc import standin
    script = 'c03c04_dlis_logical.py'
    if not os.path.exists(os.path.join(standin.VERIF, 'standins', script)):
        return []
    n = 40 if tier == 'quick' else 1500
    return [standin.run_script('dlis-tables-end-to-end', script, seed, n, 'bounded: generated RP66V1 logical files (independent encoder gen/dlis_logical.py)',
                               '%d generated files; see the script header for the ranges' % n, extra_args=['--part', 'c03'])]


TIMEOUT = {'quick': 15, 'thorough': 60}
