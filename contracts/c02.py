"""C02 — DLIS index gives random access identical to the sequential read."""
from pyvc.kinds import *
from pyvc.contract import Contract, Loop, Lemma
from contracts.dlis import *

SPEC2 = '''
def lr_ok(F, j0, j1, cum, L, own, sg_pos, sg_len, sg_attr):
    """segments j0..j1 are one logical record; cum[j] = payload bytes of segments j0..j-1; L = their concatenation"""
    return (0 <= j0 and j0 <= j1 and j1 < len(sg_pos) and len(cum) == len(sg_pos) + 1 and cum[j0] == 0
            and forall(j0, j1, lambda j: bit(sg_attr[j], 5), trigger=lambda j: [sg_attr[j]])
            and not bit(sg_attr[j1], 5)
            and forall(j0, j1 + 1, lambda j: cum[j + 1] == cum[j] + plen(F, sg_pos[j], sg_len[j], sg_attr[j]) and cum[j] >= 0 and cum[j + 1] <= len(L),
                       trigger=lambda j: [sg_len[j]])
            and len(L) == cum[j1 + 1]
            and len(own) == len(L)
            and forall(0, len(L), lambda n: j0 <= own[n] and own[n] <= j1 and cum[own[n]] <= n and n < cum[own[n] + 1]
                       and L[n] == F[sg_pos[own[n]] + 4 + (n - cum[own[n]])], trigger=lambda n: [L[n], own[n]])
            and forall_n(lambda n, j: implies(0 <= n and n < len(L) and j0 <= j and j <= j1 and cum[j] <= n and n < cum[j + 1], own[n] == j),
                         trigger=lambda n, j: (own[n], sg_len[j]))
            and forall_n(lambda a, b: implies(j0 <= a and a <= b and b <= j1 + 1, cum[a] <= cum[b]),
                         trigger=lambda a, b: (sg_len[a], sg_len[b])))

def got(C, offset, length):
    """how many bytes of the requested range [offset, offset+length) lie in the first C bytes of the record"""
    return ((C if length < 0 or C < offset + length else offset + length) - offset
            if (C if length < 0 or C < offset + length else offset + length) > offset else 0)
'''

GEN_GET = '''
import random
from gen import dlis, files

def gen(rnd, module):
    recs = dlis.random_records(rnd)
    data, lay = dlis.build(recs, rnd)
    f = files.CountingFile(data)
    fr = module.FileRead(f)
    fr._enter()
    S = len(lay['sg_pos'])
    firsts = [j for j in range(S) if not (lay['sg_attr'][j] & 0x40)]
    # history: a few earlier fetches of arbitrary records leave arbitrary cursor state behind
    for _ in range(rnd.randint(0, 3)):
        jj = rnd.choice(firsts)
        fr.get_file_logical_data(module.LogicalRecordPosition.__new__(module.LogicalRecordPosition) if False else _pos(module, lay, jj),
                                 rnd.choice([0, 0, 3]), rnd.choice([-1, -1, 4]))
    j0 = rnd.choice(firsts)
    j1 = j0
    while lay['sg_attr'][j1] & 0x20:
        j1 += 1
    cum = [0] * (S + 1)
    L = b''
    own = []
    for j in range(j0, j1 + 1):
        cum[j + 1] = cum[j] + len(lay['payload'][j])
        own += [j] * len(lay['payload'][j])
        L += lay['payload'][j]
    f.reset_footprint()
    offset = rnd.choice([0, 0, 1, 5, 11, 12, 13, 30, len(L), len(L) + 2])
    length = rnd.choice([-1, -1, 0, 1, 2, 7, 10, 12, 13, 40])
    g = dict(sg_pos=lay['sg_pos'], sg_len=lay['sg_len'], sg_attr=lay['sg_attr'], sg_type=lay['sg_type'],
             sg_vrp=lay['sg_vrp'], sg_vrl=lay['sg_vrl'], j0=j0, j1=j1, cum=cum, L=L, own=own)
    g.update(self=fr, position=_pos(module, lay, j0), offset=offset, length=length)
    return g

def _pos(module, lay, j):
    p = module.LogicalRecordPosition.__new__(module.LogicalRecordPosition)
    p.vr_position = lay['sg_vrp'][j]
    p.lrsh_position = lay['sg_pos'][j]
    return p
'''

POS = KRec('LogicalRecordPosition', vr_position=Int, lrsh_position=Int)
FLD = KRec('FileLogicalData', _bytes=Bytes, logical_data=NoneK)


def register(reg):
    register_physical(reg)
    reg.add_spec_source(SPEC2)
    reg.add(Contract(PF, 'FileLogicalData.__init__', inline=True))
    reg.add(Contract(PF, 'FileLogicalData._invariants', inline=True))
    reg.add(Contract(PF, 'FileLogicalData.is_sealed', inline=True))
    reg.add(Contract(PF, 'FileLogicalData.seal', inline=True))
    reg.add(Contract(PF, 'LogicalData.__init__', inline=True))
    reg.add(Contract(PF, 'FileLogicalData.add_bytes', {'self': FLD, 'by': Bytes}, modifies=['self._bytes'],
                     ensures=['len(self._bytes) == len(old(self._bytes)) + len(by)',
                              'forall(0, len(self._bytes), lambda n: self._bytes[n] == (old(self._bytes)[n] if n < len(old(self._bytes))'
                              ' else by[n - len(old(self._bytes))]), trigger=lambda n: [self._bytes[n]])',
                              'is_none(self.logical_data)'],
                     canaries=['len(self._bytes) == 0'], crosscheck=False))
    G = dict(LAYOUT, j0=Int, j1=Int, cum=KView(Int), L=Bytes, own=KView(Int))
    LR = 'lr_ok(self.file.data, j0, j1, cum, L, own, sg_pos, sg_len, sg_attr)'
    reg.add(Contract(
        PF, 'FileRead.get_file_logical_data', {'self': FR, 'position': POS, 'offset': Int, 'length': Int}, ghost=G,
        ghost_init={'j': 'j0'},
        # NOTE: nothing here fixes WHERE the cursor (self.visible_record, self.logical_record_segment_header, file
        # position) is left by earlier calls - only the representation invariant of the visible-record cursor, which
        # every operation re-establishes (postcondition below).  The result is therefore proved for every history.
        requires=[LAYOUT_OK, LR, 'vr_ri(self.file.data, self.visible_record)', 'position.vr_position == sg_vrp[j0]', 'position.lrsh_position == sg_pos[j0]',
                  'self.file.rd_lo == len(self.file.data)', 'self.file.rd_hi == 0'],
        raises={'ExceptionFileRead': 'offset < 0'},
        modifies=MOD_FILE + MOD_HDR + MOD_VR,
        ensures=['vr_ri(self.file.data, self.visible_record)', 'not is_none(result.logical_data)', 'is_none(result._bytes)',
                 'len(result.logical_data.bytes) == got(len(L), offset, length)',
                 'forall(0, len(result.logical_data.bytes), lambda i: result.logical_data.bytes[i] == L[offset + i])',
                 'result.logical_data.index == 0',
                 'result.lr_type == sg_type[j0]', 'result.lr_is_eflr == bit(sg_attr[j0], 7)', 'result.lr_is_encrypted == bit(sg_attr[j0], 4)',
                 'result.position.vr_position == sg_vrp[j0]', 'result.position.lrsh_position == sg_pos[j0]',
                 # footprint: only bytes of the visible records that hold this logical record
                 'self.file.rd_lo >= sg_vrp[j0]', 'self.file.rd_hi <= sg_vrp[j1] + sg_vrl[j1]'],
        loops=[Loop('while True', havoc_extra=['j', 'file_logical_data._bytes'], kinds={'j': Int}, invariants=[
            'j0 <= j and j <= j1', 'at(self, j, %s)' % LARGS, 'self.file.pos == sg_pos[j] + 4',
            'is_none(file_logical_data.logical_data)',
            'implies(all_bytes, len(file_logical_data._bytes) == cum[j])',
            'implies(all_bytes, forall(0, cum[j], lambda i: file_logical_data._bytes[i] == L[i]))',
            'implies(not all_bytes, bytes_read == len(file_logical_data._bytes) and bytes_read == got(cum[j], offset, length))',
            'implies(not all_bytes and bytes_read != length, logical_data_index == cum[j])',
            'implies(not all_bytes, forall(0, bytes_read, lambda i: file_logical_data._bytes[i] == L[offset + i]))',
            'all_bytes == (offset == 0 and length < 0)', 'offset >= 0',
            'self.file.rd_lo >= sg_vrp[j0]', 'self.file.rd_hi <= sg_pos[j] + sg_len[j]',
        ])],
        canaries=['len(result.logical_data.bytes) == 0', 'len(result.logical_data.bytes) == len(L)'], native_gen=GEN_GET, timeout=30))

TIMEOUT = {'quick': 20, 'thorough': 90}


def standins(tier, seed):
    """Index content (iter_logical_record_positions is a pair of nested generators that interleave file access, which
    the eager generator model of the verifier does not cover) and fetch-by-index in random order: bounded."""
    from pyvc import standin
    n = 150 if tier == 'quick' else 5000
    code = r'''
from gen import dlis, files
from TotalDepth.RP66V1.core import pFile, pIndex
rnd = random.Random(%d)
bad = []
cases = 0
for it in range(%d):
    recs = dlis.random_records(rnd, rnd.randint(1, 6))
    data, lay = dlis.build(recs, rnd)
    S = len(lay['sg_pos'])
    firsts = [j for j in range(S) if not (lay['sg_attr'][j] & 0x40)]
    f = files.CountingFile(data)
    with pIndex.LogicalRecordIndex(f) as idx:
        cases += 1
        ok = len(idx) == len(recs)
        for k, j0 in enumerate(firsts):
            if not ok:
                break
            e = idx[k]
            j1 = j0
            while lay['sg_attr'][j1] & 0x20:
                j1 += 1
            ldl = sum(lay['sg_len'][j] - 4 - (2 if lay['sg_attr'][j] & 4 else 0) - (2 if lay['sg_attr'][j] & 2 else 0) for j in range(j0, j1 + 1))
            ok = (e.position.vr_position == lay['sg_vrp'][j0] and e.position.lrsh_position == lay['sg_pos'][j0]
                  and e.description.lr_type == recs[k][1] and e.description.attributes.is_eflr == recs[k][0]
                  and e.description.ld_length == ldl)
        order = [rnd.randrange(len(recs)) for _ in range(2 * len(recs))] if ok else []
        for k in order:
            f.reset_footprint()
            fld = idx.get_file_logical_data(k)
            j0 = firsts[k]
            j1 = j0
            while lay['sg_attr'][j1] & 0x20:
                j1 += 1
            if fld.logical_data.bytes != recs[k][2] or fld.lr_type != recs[k][1] or fld.lr_is_eflr != recs[k][0] \
                    or f.rd_lo < lay['sg_vrp'][j0] or f.rd_hi > lay['sg_vrp'][j1] + lay['sg_vrl'][j1]:
                ok = False
        if not ok and len(bad) < 3:
            bad.append({'iteration': it, 'records': [[r[0], r[1], len(r[2])] for r in recs], 'file_hex': data.hex()[:400]})
print(json.dumps({'cases': cases, 'bad': bad}))
if bad:
    sys.exit(1)
''' % (seed, n)
    return [standin.run('index-entries-and-random-order-fetch', 'bounded: random conformant files from /verif/gen/dlis.py',
                        '%d files of 1..6 logical records, payloads 0..130 bytes, random segment / visible record sizes, 2K fetches each' % n, code)]
