"""Independent RP66V1 (DLIS) LOGICAL-format encoder, written from the standard (API RP66 V1, chapter 3 "Logical
Record Syntax", chapter 5 "Semantics: Static and Frame Data", Appendix B "Representation Codes").  Shares no code
with the repository under test.  The physical layer (segments, visible records) is gen.dlis.build().

Three layers:

1.  Representation codes: enc_value(code, neutral) -> bytes for all 27 codes, and rand_value(rnd, code) which draws
    a random value and returns (neutral, bytes).  A *neutral* value is a plain Python object that says what a decoder
    has to produce:
        floats (codes 1, 2, 5, 6, 7)           float (exactly the number the bit pattern denotes)
        validated floats (3, 4, 8, 9)          ('FSING1', v, a) / ('FSING2', v, a, b) / ('FDOUB1', ...) / ('FDOUB2', ...)
        complex (10, 11)                       ('CSINGL', re, im) / ('CDOUBL', re, im)
        integers (12..18, 22, 26)              int
        IDENT, ASCII, UNITS (19, 20, 27)       bytes
        DTIME (21)                             ('DTIME', year, tz, month, day, hour, minute, second, millisecond)
        OBNAME (23)                            ('OBNAME', origin, copy, ident)
        OBJREF (24)                            ('OBJREF', type, ('OBNAME', ...))
        ATTREF (25)                            ('ATTREF', type, ('OBNAME', ...), label)

2.  Explicitly formatted logical records: SetModel / TAttr / OAttr / Obj describe exactly which components and which
    characteristics are written; SetModel.encode() gives the logical record body and SetModel.expected() the table a
    reader has to present (template defaults applied to omitted characteristics, invariant attributes taken from the
    template, trailing attributes taken from the template, absent attributes marked None).

3.  Indirectly formatted logical records (frame data) and random whole files: random_file() builds 1..n logical
    files (FILE-HEADER, ORIGIN, further sets, optionally CHANNEL + FRAME and interleaved frame data, encrypted
    records sprinkled in) and returns the record list for gen.dlis.build() together with the expectation.
"""
import math
import struct

# ------------------------------------------------------------------------------------------------ rep codes
FSHORT, FSINGL, FSING1, FSING2, ISINGL, VSINGL, FDOUBL, FDOUB1, FDOUB2, CSINGL, CDOUBL = range(1, 12)
SSHORT, SNORM, SLONG, USHORT, UNORM, ULONG, UVARI, IDENT, ASCII, DTIME, ORIGIN, OBNAME, OBJREF, ATTREF, STATUS, UNITS = \
    range(12, 28)
ALL_CODES = list(range(1, 28))
CODE_NAME = {1: 'FSHORT', 2: 'FSINGL', 3: 'FSING1', 4: 'FSING2', 5: 'ISINGL', 6: 'VSINGL', 7: 'FDOUBL', 8: 'FDOUB1',
             9: 'FDOUB2', 10: 'CSINGL', 11: 'CDOUBL', 12: 'SSHORT', 13: 'SNORM', 14: 'SLONG', 15: 'USHORT',
             16: 'UNORM', 17: 'ULONG', 18: 'UVARI', 19: 'IDENT', 20: 'ASCII', 21: 'DTIME', 22: 'ORIGIN', 23: 'OBNAME',
             24: 'OBJREF', 25: 'ATTREF', 26: 'STATUS', 27: 'UNITS'}
#: Appendix B, "Size in bytes" column, fixed-length codes only.
FIXED_LEN = {1: 2, 2: 4, 3: 8, 4: 12, 5: 4, 6: 4, 7: 8, 8: 16, 9: 24, 10: 8, 11: 16, 12: 1, 13: 2, 14: 4, 15: 1, 16: 2,
             17: 4, 21: 8, 26: 1}
#: Fixed-length numeric codes (what a frame channel may be made of).
NUMERIC_FIXED = list(range(1, 18))
#: numpy type a reader has to use for a channel of the code (numeric type of the representation code).
NUMPY_DTYPE = {2: 'float32', 5: 'float32', 6: 'float32', 7: 'float64', 12: 'int8', 13: 'int16', 14: 'int32',
               15: 'uint8', 16: 'uint16', 17: 'uint32'}

UNITS_CHARS = b'abcdefghijklmnopqrstuvwxyzABCDEFGHIJKLMNOPQRSTUVWXYZ0123456789 -./()'
IDENT_CHARS = b'ABCDEFGHIJKLMNOPQRSTUVWXYZ0123456789-_./#+*'


def uvari(n):
    """B.18: 1 byte (0xxxxxxx), 2 bytes (10xxxxxx ...), 4 bytes (11xxxxxx ...)."""
    assert 0 <= n < 2 ** 30
    if n < 2 ** 7:
        return bytes([n])
    if n < 2 ** 14:
        return struct.pack('>H', 0x8000 | n)
    return struct.pack('>I', 0xC0000000 | n)


def uvari_wide(n, width):
    """A UVARI written in a given (possibly non-minimal) width; the standard allows it for n that fits."""
    if width == 1:
        assert n < 2 ** 7
        return bytes([n])
    if width == 2:
        assert n < 2 ** 14
        return struct.pack('>H', 0x8000 | n)
    assert n < 2 ** 30
    return struct.pack('>I', 0xC0000000 | n)


def ident(b):
    assert len(b) <= 255
    return bytes([len(b)]) + bytes(b)


def ascii_(b):
    return uvari(len(b)) + bytes(b)


def obname(o, c, i):
    return uvari(o) + bytes([c]) + ident(i)


def fshort_parts(m, e):
    """B.1: 12 bit two's complement fraction m (-2048..2047) and 4 bit exponent e: value = m / 2**11 * 2**e."""
    return math.ldexp(m, e - 11), struct.pack('>H', ((m & 0xfff) << 4) | e)


def isingl_parts(s, e, m):
    """B.5 IBM: sign, 7 bit excess-64 base-16 exponent, 24 bit fraction: (-1)**s * m / 2**24 * 16**(e - 64)."""
    v = math.ldexp(m, 4 * (e - 64) - 24)
    return (-v if s else v), bytes([(s << 7) | e, (m >> 16) & 0xff, (m >> 8) & 0xff, m & 0xff])


def vsingl_parts(s, e, m):
    """B.6 VAX F: sign, 8 bit excess-128 exponent, 23 bit fraction with hidden leading 1 after the binary point:
    (-1)**s * 0.1m(binary) * 2**(e - 128) = (2**23 + m) / 2**24 * 2**(e - 128); 16 bit words stored low byte first,
    word 1 = s eeeeeeee mmmmmmm (high 7 fraction bits), word 2 = low 16 fraction bits."""
    assert 1 <= e <= 255 and 0 <= m < 2 ** 23
    v = math.ldexp(2 ** 23 + m, e - 128 - 24)
    w1 = (s << 15) | (e << 7) | (m >> 16)
    w2 = m & 0xffff
    return (-v if s else v), bytes([w1 & 0xff, w1 >> 8, w2 & 0xff, w2 >> 8])


def enc_value(code, v):
    """Neutral value -> bytes (codes 5 and 6 need the field form, see rand_value)."""
    if code == FSHORT:
        m, e = math.frexp(v)          # v = m * 2**e, 0.5 <= |m| < 1
        if v == 0:
            return b'\x00\x00'
        mm = int(m * 2048)
        assert mm == m * 2048 and 0 <= e <= 15
        return struct.pack('>H', ((mm & 0xfff) << 4) | e)
    if code == FSINGL:
        return struct.pack('>f', v)
    if code == FSING1:
        return struct.pack('>ff', v[1], v[2])
    if code == FSING2:
        return struct.pack('>fff', v[1], v[2], v[3])
    if code == FDOUBL:
        return struct.pack('>d', v)
    if code == FDOUB1:
        return struct.pack('>dd', v[1], v[2])
    if code == FDOUB2:
        return struct.pack('>ddd', v[1], v[2], v[3])
    if code == CSINGL:
        return struct.pack('>ff', v[1], v[2])
    if code == CDOUBL:
        return struct.pack('>dd', v[1], v[2])
    if code == SSHORT:
        return struct.pack('>b', v)
    if code == SNORM:
        return struct.pack('>h', v)
    if code == SLONG:
        return struct.pack('>i', v)
    if code in (USHORT, STATUS):
        return struct.pack('>B', v)
    if code == UNORM:
        return struct.pack('>H', v)
    if code == ULONG:
        return struct.pack('>I', v)
    if code in (UVARI, ORIGIN):
        return uvari(v)
    if code in (IDENT, UNITS):
        return ident(v)
    if code == ASCII:
        return ascii_(v)
    if code == DTIME:
        _, y, tz, mo, d, h, mi, s, ms = v
        return bytes([y - 1900, (tz << 4) | mo, d, h, mi, s]) + struct.pack('>H', ms)
    if code == OBNAME:
        return obname(*v[1:])
    if code == OBJREF:
        return ident(v[1]) + obname(*v[2][1:])
    if code == ATTREF:
        return ident(v[1]) + obname(*v[2][1:]) + ident(v[3])
    raise ValueError(code)


def rand_ident(rnd, lo=1, hi=12):
    return bytes(rnd.choice(IDENT_CHARS) for _ in range(rnd.randint(lo, hi)))


def rand_units(rnd):
    return bytes(rnd.choice(UNITS_CHARS) for _ in range(rnd.randint(0, 8)))


def rand_obname(rnd):
    return ('OBNAME', rnd.choice([0, 1, 5, 127, 128, 300, 16383, 16384, 70000]), rnd.randrange(256), rand_ident(rnd, 0, 10))


def _rand_f32(rnd, finite):      # finite=True: no NaN (infinities stay)
    while True:
        bits = rnd.choice([rnd.getrandbits(32), rnd.getrandbits(32), 0, 0x80000000, 0x7f800000, 0xff800000, 0x7fc00000,
                           0x00000001, 0x7f7fffff, 0x3f800000, 0x43190000])
        v = struct.unpack('>f', struct.pack('>I', bits))[0]
        if not (finite and math.isnan(v)):
            return v, struct.pack('>I', bits)


def _rand_f64(rnd, finite):
    while True:
        bits = rnd.choice([rnd.getrandbits(64), rnd.getrandbits(64), 0, 1 << 63, 0x7ff0000000000000, 0x7ff8000000000000,
                           1, 0x7fefffffffffffff, 0x3ff0000000000000, 0x4063200000000000])
        v = struct.unpack('>d', struct.pack('>Q', bits))[0]
        if not (finite and math.isnan(v)):
            return v, struct.pack('>Q', bits)


def rand_value(rnd, code, frame=False, vsingl_mantissa=True):
    """Returns (neutral value, encoded bytes).  frame=True restricts codes 5 and 6 to numbers that are exactly
    representable as IEEE single precision (the numeric type of a frame channel of these codes) and leaves out NaN.
    vsingl_mantissa=False restricts VSINGL to numbers with an all-zero fraction field."""
    if code == FSHORT:
        m = rnd.choice([rnd.randrange(-2048, 2048), 0, 1224, -2048, 2047, 1024])
        return fshort_parts(m, rnd.randrange(16))
    if code == FSINGL:
        return _rand_f32(rnd, frame)
    if code == FDOUBL:
        return _rand_f64(rnd, frame)
    if code in (FSING1, FSING2):
        n = 2 if code == FSING1 else 3
        parts = [_rand_f32(rnd, True) for _ in range(n)]
        return (CODE_NAME[code],) + tuple(p[0] for p in parts), b''.join(p[1] for p in parts)
    if code in (FDOUB1, FDOUB2):
        n = 2 if code == FDOUB1 else 3
        parts = [_rand_f64(rnd, True) for _ in range(n)]
        return (CODE_NAME[code],) + tuple(p[0] for p in parts), b''.join(p[1] for p in parts)
    if code == CSINGL:
        parts = [_rand_f32(rnd, True) for _ in range(2)]
        return ('CSINGL', parts[0][0], parts[1][0]), parts[0][1] + parts[1][1]
    if code == CDOUBL:
        parts = [_rand_f64(rnd, True) for _ in range(2)]
        return ('CDOUBL', parts[0][0], parts[1][0]), parts[0][1] + parts[1][1]
    if code == ISINGL:
        if rnd.random() < 0.1:
            return isingl_parts(0, 0, 0)
        e = rnd.randint(45, 90) if frame else rnd.randint(0, 127)
        m = rnd.choice([rnd.getrandbits(24), rnd.getrandbits(24), 0x100000, 0xffffff, 0x990000, 0x000001])
        return isingl_parts(rnd.randrange(2), e, m)
    if code == VSINGL:
        if rnd.random() < 0.1:
            return 0.0, b'\x00\x00\x00\x00'
        e = rnd.randint(10, 250) if frame else rnd.randint(1, 255)
        m = rnd.choice([rnd.getrandbits(23), rnd.getrandbits(23), 0x190000, 0x400000, 0x7fffff, 1, 0]) if vsingl_mantissa else 0
        return vsingl_parts(rnd.randrange(2), e, m)
    if code in (SSHORT, SNORM, SLONG, USHORT, UNORM, ULONG):
        bits, signed = {SSHORT: (8, 1), SNORM: (16, 1), SLONG: (32, 1), USHORT: (8, 0), UNORM: (16, 0), ULONG: (32, 0)}[code]
        lo, hi = (-(1 << (bits - 1)), (1 << (bits - 1)) - 1) if signed else (0, (1 << bits) - 1)
        v = rnd.choice([rnd.randint(lo, hi), rnd.randint(lo, hi), lo, hi, 0, 1, 127 if hi >= 127 else hi, 128 if hi >= 128 else hi])
        return v, enc_value(code, v)
    if code in (UVARI, ORIGIN):
        v = rnd.choice([rnd.randrange(2 ** 30), rnd.randrange(2 ** 14), rnd.randrange(2 ** 7), 0, 127, 128, 16383, 16384, 2 ** 30 - 1])
        if rnd.random() < 0.2:
            w = rnd.choice([w for w, lim in ((1, 2 ** 7), (2, 2 ** 14), (4, 2 ** 30)) if v < lim])
            return v, uvari_wide(v, w)
        return v, uvari(v)
    if code == STATUS:
        v = rnd.randrange(2)
        return v, bytes([v])
    if code == IDENT:
        v = rnd.choice([rand_ident(rnd, 0, 20)] * 6 + [bytes(rnd.randrange(32, 127) for _ in range(rnd.randint(0, 40)))] * 3
                       + [b'', b'X' * 255])
        return v, ident(v)
    if code == UNITS:
        v = rand_units(rnd)
        return v, ident(v)
    if code == ASCII:
        n = rnd.choice([0, 1, 5, 5, 17, 17, 30, 127, 128, 300])
        v = bytes(rnd.choice(b' abcXYZ019,;:\n\t~') for _ in range(n))
        return v, ascii_(v)
    if code == DTIME:
        v = ('DTIME', 1900 + rnd.randrange(256), rnd.randrange(3), rnd.randint(1, 12), rnd.randint(1, 31), rnd.randrange(24),
             rnd.randrange(60), rnd.randrange(60), rnd.randrange(1000))
        return v, enc_value(DTIME, v)
    if code == OBNAME:
        v = rand_obname(rnd)
        return v, enc_value(OBNAME, v)
    if code == OBJREF:
        v = ('OBJREF', rand_ident(rnd, 0, 12), rand_obname(rnd))
        return v, enc_value(OBJREF, v)
    if code == ATTREF:
        v = ('ATTREF', rand_ident(rnd, 0, 12), rand_obname(rnd), rand_ident(rnd, 0, 12))
        return v, enc_value(ATTREF, v)
    raise ValueError(code)


# ------------------------------------------------------------------------------------------------ components (3.2.2)
ROLE = {'ABSATR': 0x00, 'ATTRIB': 0x20, 'INVATR': 0x40, 'OBJECT': 0x60, 'RDSET': 0xA0, 'RSET': 0xC0, 'SET': 0xE0}
GLOBAL_DEFAULT = dict(label=b'', count=1, code=IDENT, units=b'', value=None)


class Val:
    """A Value characteristic: the neutral elements and their encoding."""
    def __init__(self, items, raw):
        self.items = list(items)
        self.raw = bytes(raw)


def rand_val(rnd, code, count, **kw):
    pairs = [rand_value(rnd, code, **kw) for _ in range(count)]
    return Val([p[0] for p in pairs], b''.join(p[1] for p in pairs))


def make_val(code, items):
    return Val(items, b''.join(enc_value(code, v) for v in items))


class Attr:
    """One attribute component as written.  A characteristic that is None is not present (its descriptor bit is 0).
    role: 'ATTRIB', 'INVATR' (template only) or 'ABSATR' (object only, no characteristics)."""
    def __init__(self, role='ATTRIB', label=None, count=None, code=None, units=None, value=None):
        self.role, self.label, self.count, self.code, self.units, self.value = role, label, count, code, units, value
        if role == 'ABSATR':
            assert label is None and count is None and code is None and units is None and value is None

    def encode(self):
        d = ROLE[self.role] | (0x10 if self.label is not None else 0) | (0x08 if self.count is not None else 0) \
            | (0x04 if self.code is not None else 0) | (0x02 if self.units is not None else 0) \
            | (0x01 if self.value is not None else 0)
        out = bytes([d])
        if self.label is not None:
            out += ident(self.label)
        if self.count is not None:
            out += uvari(self.count)
        if self.code is not None:
            out += bytes([self.code])
        if self.units is not None:
            out += ident(self.units)
        if self.value is not None:
            out += self.value.raw
        return out

    def describe(self):
        if self.role == 'ABSATR':
            return 'ABSATR'
        return '%s(%s)' % (self.role, ''.join(ch for ch, x in zip('LCRUV', (self.label, self.count, self.code, self.units, self.value))
                                            if x is not None))


class Obj:
    def __init__(self, name, attrs):
        self.name = name        # ('OBNAME', o, c, i)
        self.attrs = attrs      # list of Attr, at most as many as the template has non-invariant attributes

    def encode(self):
        return bytes([ROLE['OBJECT'] | 0x10]) + obname(*self.name[1:]) + b''.join(a.encode() for a in self.attrs)


class SetModel:
    def __init__(self, lr_type, set_type, set_name, template, objects, role='SET'):
        self.lr_type, self.type, self.name, self.template, self.objects, self.role = \
            lr_type, set_type, set_name, template, objects, role

    def encode(self):
        out = bytes([ROLE[self.role] | 0x10 | (0x08 if self.name is not None else 0)]) + ident(self.type)
        if self.name is not None:
            out += ident(self.name)
        out += b''.join(t.encode() for t in self.template)
        out += b''.join(o.encode() for o in self.objects)
        return out

    def template_defaults(self):
        """Per column: (label, count, code, units, value items or None) with the global defaults of figure 3-6 filled in."""
        out = []
        for t in self.template:
            out.append((t.label if t.label is not None else b'',
                        t.count if t.count is not None else 1,
                        t.code if t.code is not None else IDENT,
                        t.units if t.units is not None else b'',
                        list(t.value.items) if t.value is not None else None))
        return out

    def expected(self):
        """The table: dict(type, name, lr_type, labels, template: [(count, code, units, value)], objects: [(name, cells)]);
        a cell is (count, code, units, value items or None), or None for an absent attribute."""
        td = self.template_defaults()
        rows = []
        for o in self.objects:
            cells, k = [], 0
            for j, t in enumerate(self.template):
                _lab, c, r, u, v = td[j]
                if t.role == 'INVATR':
                    cells.append((c, r, u, v))        # invariant: no component in the object, value from the template
                    continue
                if k < len(o.attrs):
                    a = o.attrs[k]
                    k += 1
                    if a.role == 'ABSATR':
                        cells.append(None)
                    else:
                        cells.append((a.count if a.count is not None else c,
                                      a.code if a.code is not None else r,
                                      a.units if a.units is not None else u,
                                      list(a.value.items) if a.value is not None else v))
                else:
                    cells.append((c, r, u, v))        # omitted from the end: template default
            assert k == len(o.attrs)
            rows.append((o.name, cells))
        return dict(type=self.type, name=self.name if self.name is not None else b'', lr_type=self.lr_type,
                    labels=[x[0] for x in td], template=[x[1:] for x in td], objects=rows)

    def features(self):
        f = set()
        for t in self.template:
            f.add('T:' + t.describe())
        for o in self.objects:
            n_var = sum(1 for t in self.template if t.role != 'INVATR')
            if len(o.attrs) < n_var:
                f.add('O:trailing-omitted')
            if len(o.attrs) == 0:
                f.add('O:no-attributes')
            for a in o.attrs:
                f.add('O:' + a.describe())
        return f


# ------------------------------------------------------------------------------------------------ random sets
class Options:
    """What the random generators may use (the stand-in switches classes off for known findings)."""
    def __init__(self, codes=None, frame_codes=None, invariant=True, absent=True, all_omitted=True, vsingl_mantissa=True,
                 unlabelled=True, reject=None):
        self.reject = reject      # predicate on a SetModel: sets for which it is true are drawn again
        self.codes = list(codes) if codes is not None else list(ALL_CODES)
        self.frame_codes = list(frame_codes) if frame_codes is not None else list(NUMERIC_FIXED)
        self.invariant, self.absent, self.all_omitted, self.vsingl_mantissa, self.unlabelled = \
            invariant, absent, all_omitted, vsingl_mantissa, unlabelled


def _rand_count(rnd):
    return rnd.choice([1, 1, 1, 2, 3, 5, 0])


def rand_template_attr(rnd, opt, label, allow_invariant=True):
    """A template attribute with a random subset of the characteristics C, R, U, V (L as given; None = not present)."""
    role = 'INVATR' if (allow_invariant and opt.invariant and rnd.random() < 0.2) else 'ATTRIB'
    count = _rand_count(rnd) if rnd.random() < 0.5 else None
    code = rnd.choice(opt.codes) if rnd.random() < 0.7 else None
    units = rand_units(rnd) if rnd.random() < 0.4 else None
    value = None
    eff_count = count if count is not None else 1
    if eff_count > 0 and rnd.random() < (0.9 if role == 'INVATR' else 0.4):
        value = rand_val(rnd, code if code is not None else IDENT, eff_count, vsingl_mantissa=opt.vsingl_mantissa)
    return Attr(role, label, count, code, units, value)


def rand_object_attr(rnd, opt, t):
    """An object attribute for template attribute t: any subset of the characteristics; the result is kept
    self-consistent (Count/Representation Code are only changed together with the Value when the template has one)."""
    if opt.absent and rnd.random() < 0.12:
        return Attr('ABSATR')
    tc = t.count if t.count is not None else 1
    tr = t.code if t.code is not None else IDENT
    has = [rnd.random() < p for p in (0.1, 0.35, 0.35, 0.35, 0.7)]     # L C R U V
    label = (t.label if t.label is not None else b'') if has[0] else None
    count = code = units = value = None
    if has[4]:
        count = _rand_count(rnd) if has[1] else None
        code = rnd.choice(opt.codes) if has[2] else None
        ec = count if count is not None else tc
        er = code if code is not None else tr
        if ec > 0:
            value = rand_val(rnd, er, ec, vsingl_mantissa=opt.vsingl_mantissa)
        elif t.value is not None:
            count = tc          # Count 0 has no Value; do not contradict the template value
    else:
        if has[1]:
            count = tc if t.value is not None else _rand_count(rnd)
        if has[2]:
            code = tr if t.value is not None else rnd.choice(opt.codes)
    if has[3]:
        units = rand_units(rnd)
    return Attr('ATTRIB', label, count, code, units, value)


def distinct_labels(rnd, n, taken=()):
    out, seen = [], set(taken)
    while len(out) < n:
        lab = rand_ident(rnd, 1, 14)
        if lab not in seen:
            seen.add(lab)
            out.append(lab)
    return out


def distinct_names(rnd, n, taken=()):
    out, seen = [], set(taken)
    while len(out) < n:
        nm = rand_obname(rnd)
        if rnd.random() < 0.3 and out:          # same identifier, different origin / copy number
            nm = ('OBNAME', rnd.randrange(4), rnd.randrange(4), out[-1][3])
        if nm not in seen:
            seen.add(nm)
            out.append(nm)
    return out


def rand_objects(rnd, opt, template, names):
    objs = []
    variable = [t for t in template if t.role != 'INVATR']
    for nm in names:
        n = len(variable)
        if rnd.random() < 0.4:
            n = rnd.randint(0 if opt.all_omitted else min(1, len(variable)), len(variable))      # trailing omission
        objs.append(Obj(nm, [rand_object_attr(rnd, opt, t) for t in variable[:n]]))
    return objs


def accepted(opt, make):
    while True:
        s = make()
        if opt.reject is None or not opt.reject(s):
            return s


FORBIDDEN_SET_TYPES = (b'FILE-HEADER', b'ORIGIN', b'WELL-REFERENCE', b'CHANNEL', b'FRAME')


def rand_set(rnd, opt, lr_type=None, set_type=None, min_objects=0, fixed_labels=()):
    """An arbitrary set: 1..6 template attributes, 0..5 objects."""
    if set_type is None:
        while True:
            set_type = rnd.choice([b'PARAMETER', b'TOOL', b'EQUIPMENT', b'ZONE', b'AXIS', b'COMMENT', b'440-PRIVATE', rand_ident(rnd, 1, 16)])
            if set_type not in FORBIDDEN_SET_TYPES:
                break
    if lr_type is None:
        lr_type = rnd.choice([2, 5, 6, 7, 8, 9, 10, 11, 128, 200, 255])
    name = rand_ident(rnd, 0, 8) if rnd.random() < 0.6 else None
    k = rnd.randint(max(1, len(fixed_labels)), 6)
    labels = list(fixed_labels) + distinct_labels(rnd, k - len(fixed_labels), fixed_labels)
    rnd.shuffle(labels)
    if opt.unlabelled and not fixed_labels and rnd.random() < 0.08:
        labels[rnd.randrange(k)] = None           # one attribute whose Label is the global default (null)
    template = [rand_template_attr(rnd, opt, lab) for lab in labels]
    n_obj = rnd.randint(min_objects, 5)
    role = rnd.choice(['SET'] * 8 + ['RSET', 'RDSET']) if set_type not in FORBIDDEN_SET_TYPES else 'SET'
    return SetModel(lr_type, set_type, name, template, rand_objects(rnd, opt, template, distinct_names(rnd, n_obj)), role)


def file_header_set(rnd, opt, seq):
    """5.1: FILE-HEADER, logical record type 0, attributes SEQUENCE-NUMBER (ASCII, 10) and ID (ASCII, 65), one object."""
    sn = (b'%10d' % seq)
    fid = (b'LOGICAL FILE %d ' % seq + rand_ident(rnd, 0, 20)).ljust(65)[:65]
    in_template = rnd.random() < 0.3      # the representation code as template default
    template = [Attr('ATTRIB', b'SEQUENCE-NUMBER', None, ASCII if in_template else None),
                Attr('ATTRIB', b'ID', None, ASCII if in_template else None)]
    o = Obj(('OBNAME', rnd.choice([0, 1, 41]), 0, rand_ident(rnd, 1, 4)),
            [Attr('ATTRIB', None, None, None if in_template else ASCII, None, make_val(ASCII, [sn])),
             Attr('ATTRIB', None, None, None if in_template else ASCII, None, make_val(ASCII, [fid]))])
    return SetModel(0, b'FILE-HEADER', rand_ident(rnd, 0, 4) if rnd.random() < 0.3 else None, template, [o])


def origin_set(rnd, opt):
    """5.2: ORIGIN (or WELL-REFERENCE), logical record type 1; standard labels plus random ones."""
    s = rand_set(rnd, opt, lr_type=1, set_type=b'ORIGIN' if rnd.random() < 0.85 else b'WELL-REFERENCE', min_objects=1,
                 fixed_labels=rnd.sample([b'FILE-ID', b'FILE-SET-NAME', b'FILE-SET-NUMBER', b'FILE-NUMBER', b'FILE-TYPE',
                                          b'PRODUCT', b'VERSION', b'CREATION-TIME', b'WELL-NAME'], rnd.randint(1, 4)))
    return s


# ------------------------------------------------------------------------------------------------ channels and frames (5.5, 5.7)
class Channel:
    def __init__(self, name, code, dims, long_name, units):
        self.name, self.code, self.dims, self.long_name, self.units = name, code, dims, long_name, units
        self.count = 1
        for d in dims:
            self.count *= d


class FrameType:
    def __init__(self, name, channels, description):
        self.name, self.channels, self.description = name, channels, description
        self.frames = []      # list of dict(number, values: per channel list of neutral values, raw: per channel bytes)


def channel_set(rnd, opt, channels):
    """CHANNEL set (logical record type 3).  Template: LONG-NAME, PROPERTIES, REPRESENTATION-CODE, UNITS, DIMENSION,
    AXIS, ELEMENT-LIMIT, SOURCE in the standard's order with a random subset of the optional ones; defaults for
    REPRESENTATION-CODE / DIMENSION may sit in the template."""
    optional = [lab for lab in (b'PROPERTIES', b'AXIS', b'ELEMENT-LIMIT', b'SOURCE') if rnd.random() < 0.5]
    order = [lab for lab in (b'LONG-NAME', b'PROPERTIES', b'REPRESENTATION-CODE', b'UNITS', b'DIMENSION', b'AXIS',
                             b'ELEMENT-LIMIT', b'SOURCE') if lab in optional or lab in (b'LONG-NAME', b'REPRESENTATION-CODE', b'UNITS', b'DIMENSION')]
    if rnd.random() < 0.3:
        rnd.shuffle(order)
    default_dim = rnd.random() < 0.5
    default_code = rnd.choice([c.code for c in channels]) if rnd.random() < 0.5 else None
    tcode = {b'LONG-NAME': ASCII, b'PROPERTIES': IDENT, b'REPRESENTATION-CODE': USHORT, b'UNITS': UNITS, b'DIMENSION': UVARI,
             b'AXIS': OBNAME, b'ELEMENT-LIMIT': UVARI, b'SOURCE': OBJREF}
    template = []
    for lab in order:
        a = Attr('ATTRIB', lab, None, tcode[lab] if rnd.random() < 0.8 else None)
        if lab == b'DIMENSION' and default_dim:
            a.code = UVARI
            a.value = make_val(UVARI, [1])
        if lab == b'REPRESENTATION-CODE' and default_code is not None:
            a.code = USHORT
            a.value = make_val(USHORT, [default_code])
        template.append(a)
    objs = []
    for ch in channels:
        attrs = []
        for t in template:
            lab = t.label
            code = None if t.code == tcode[lab] else tcode[lab]
            if lab == b'LONG-NAME':
                if ch.long_name is None:
                    a = Attr('ATTRIB')                    # nothing overridden: template default, no value
                else:
                    a = Attr('ATTRIB', None, None, code, None, make_val(ASCII, [ch.long_name]))
            elif lab == b'REPRESENTATION-CODE':
                if default_code == ch.code and rnd.random() < 0.7:
                    a = Attr('ATTRIB')
                else:
                    a = Attr('ATTRIB', None, None, code, None, make_val(USHORT, [ch.code]))
            elif lab == b'UNITS':
                if ch.units is None:
                    a = Attr('ATTRIB')
                else:
                    a = Attr('ATTRIB', None, None, code, None, make_val(UNITS, [ch.units]))
            elif lab == b'DIMENSION':
                if default_dim and list(ch.dims) == [1] and rnd.random() < 0.7:
                    a = Attr('ATTRIB')
                else:
                    a = Attr('ATTRIB', None, len(ch.dims) if (len(ch.dims) != 1 or rnd.random() < 0.3) else None, code, None,
                             make_val(UVARI, list(ch.dims)))
            elif lab == b'ELEMENT-LIMIT':
                a = Attr('ATTRIB', None, len(ch.dims) if len(ch.dims) != 1 else None, code, None, make_val(UVARI, list(ch.dims)))
            elif lab == b'PROPERTIES':
                n = rnd.randint(0, 2)
                if n == 0:
                    a = Attr('ATTRIB', None, 0 if rnd.random() < 0.5 else None)
                else:
                    a = Attr('ATTRIB', None, n if (n != 1 or rnd.random() < 0.5) else None, code, None, rand_val(rnd, IDENT, n))
            elif lab == b'AXIS':
                a = Attr('ABSATR') if (opt.absent and rnd.random() < 0.3) else \
                    (Attr('ATTRIB') if rnd.random() < 0.5 else Attr('ATTRIB', None, None, code, None, rand_val(rnd, OBNAME, 1)))
            else:   # SOURCE
                a = Attr('ABSATR') if (opt.absent and rnd.random() < 0.3) else \
                    (Attr('ATTRIB') if rnd.random() < 0.5 else Attr('ATTRIB', None, None, code, None, rand_val(rnd, OBJREF, 1)))
            attrs.append(a)
        # trailing omission: drop trailing attributes that override nothing
        while attrs and attrs[-1].role == 'ATTRIB' and attrs[-1].encode() == b'\x20' and len(attrs) > 1 and rnd.random() < 0.6:
            attrs.pop()
        objs.append(Obj(ch.name, attrs))
    return SetModel(3, b'CHANNEL', rand_ident(rnd, 0, 4) if rnd.random() < 0.5 else None, template, objs)


def frame_set(rnd, opt, frame_types):
    """FRAME set (logical record type 4): DESCRIPTION, CHANNELS, INDEX-TYPE, DIRECTION, SPACING, ENCRYPTED, INDEX-MIN, INDEX-MAX."""
    optional = [lab for lab in (b'INDEX-TYPE', b'DIRECTION', b'SPACING', b'ENCRYPTED', b'INDEX-MIN', b'INDEX-MAX') if rnd.random() < 0.4]
    with_desc = rnd.random() < 0.7
    order = [lab for lab in (b'DESCRIPTION', b'CHANNELS', b'INDEX-TYPE', b'DIRECTION', b'SPACING', b'ENCRYPTED', b'INDEX-MIN', b'INDEX-MAX')
             if lab in optional or lab == b'CHANNELS' or (lab == b'DESCRIPTION' and with_desc)]
    tcode = {b'DESCRIPTION': ASCII, b'CHANNELS': OBNAME, b'INDEX-TYPE': IDENT, b'DIRECTION': IDENT, b'SPACING': FDOUBL,
             b'ENCRYPTED': USHORT, b'INDEX-MIN': FDOUBL, b'INDEX-MAX': FDOUBL}
    if FDOUBL not in opt.codes:
        tcode[b'SPACING'] = tcode[b'INDEX-MIN'] = tcode[b'INDEX-MAX'] = SLONG
    template = [Attr('ATTRIB', lab, None, tcode[lab] if rnd.random() < 0.8 else None) for lab in order]
    objs = []
    for ft in frame_types:
        attrs = []
        for t in template:
            lab = t.label
            code = None if t.code == tcode[lab] else tcode[lab]
            if lab == b'DESCRIPTION':
                if ft.description is None:
                    a = Attr('ATTRIB', None, 0 if rnd.random() < 0.5 else None)      # Count 0 is seen in the wild
                else:
                    a = Attr('ATTRIB', None, None, code, None, make_val(ASCII, [ft.description]))
            elif lab == b'CHANNELS':
                a = Attr('ATTRIB', None, len(ft.channels) if (len(ft.channels) != 1 or rnd.random() < 0.5) else None, code, None,
                         make_val(OBNAME, [c.name for c in ft.channels]))
            elif lab in (b'INDEX-TYPE', b'DIRECTION'):
                a = Attr('ATTRIB', None, None, code, None, make_val(IDENT, [rnd.choice([b'BOREHOLE-DEPTH', b'TIME', b'INCREASING', b'DECREASING'])]))
            elif lab == b'ENCRYPTED':
                a = Attr('ABSATR') if (opt.absent and rnd.random() < 0.5) else Attr('ATTRIB')
            else:
                a = Attr('ATTRIB', None, None, code, rand_units(rnd) if rnd.random() < 0.5 else None, rand_val(rnd, tcode[lab], 1, frame=True))
            attrs.append(a)
        while attrs and attrs[-1].encode() == b'\x20' and len(attrs) > 1 and rnd.random() < 0.6:
            attrs.pop()
        objs.append(Obj(ft.name, attrs))
    return SetModel(4, b'FRAME', rand_ident(rnd, 0, 4) if rnd.random() < 0.5 else None, template, objs)


def iflr(frame_name, number, raw_channels, number_width=None):
    """3.3 / 5.6.1: data descriptor reference (OBNAME), frame number (UVARI), then the channel samples in order."""
    num = uvari(number) if number_width is None else uvari_wide(number, number_width)
    return obname(*frame_name[1:]) + num + b''.join(raw_channels)


def rand_log_pass(rnd, opt, max_types=3, max_frames=8):
    """1..max_types frame types, each of 1..5 channels (first: scalar) and 1..max_frames frames."""
    n_types = rnd.randint(1, max_types)
    idents = distinct_labels(rnd, 24)
    channels_all, frame_types = [], []
    for k in range(n_types):
        n_ch = rnd.randint(1, 5)
        chans = []
        for c in range(n_ch):
            code = rnd.choice(opt.frame_codes)
            if c == 0:
                dims = [1]
            else:
                dims = rnd.choice([[1], [1], [1], [2], [3], [5], [2, 3], [3, 2], [1, 4], [2, 2, 2], [4, 1, 2], [16]])
            nm = ('OBNAME', rnd.choice([0, 1, 2, 200]), rnd.randrange(3), idents.pop())
            chans.append(Channel(nm, code, dims, rand_value(rnd, ASCII)[0] if rnd.random() < 0.7 else None,
                                 rand_units(rnd) if rnd.random() < 0.7 else None))
        ft = FrameType(('OBNAME', rnd.choice([0, 1, 2, 200]), rnd.randrange(3), idents.pop()), chans,
                       rand_value(rnd, ASCII)[0] if rnd.random() < 0.6 else None)
        n_frames = rnd.randint(1, max_frames)
        number = rnd.choice([1, 1, 1, 2, 100, 16380])
        for _ in range(n_frames):
            vals, raws = [], []
            for ch in chans:
                v = rand_val(rnd, ch.code, ch.count, frame=True, vsingl_mantissa=opt.vsingl_mantissa)
                vals.append(v.items)
                raws.append(v.raw)
            ft.frames.append(dict(number=number, values=vals, raw=raws))
            number += rnd.choice([1, 1, 1, 1, 2, 7])
        frame_types.append(ft)
        channels_all.extend(chans)
    # channels that belong to no frame (any representation code)
    extra = [Channel(('OBNAME', 0, 0, idents.pop()), rnd.choice([IDENT, ASCII, UVARI, FDOUBL, SLONG]), [1], None, None)
             for _ in range(rnd.randint(0, 2))]
    listed = channels_all + extra
    rnd.shuffle(listed)
    return frame_types, listed


# ------------------------------------------------------------------------------------------------ whole files
def random_file(rnd, opt, max_logical_files=3, log_pass_probability=0.6, encrypted_probability=0.15, max_frames=8):
    """Returns (records, expect).
    records: list of (is_eflr, lr_type, payload, encrypted) for gen.dlis.build().
    expect: dict(logical_files=[dict(tables=[(record index, SetModel)], frame_types=[FrameType],
                                     frames={frame name: [(record index, frame dict)]})], features=set())."""
    records, lfs, features = [], [], set()

    def maybe_encrypted():
        while rnd.random() < encrypted_probability:
            n = rnd.choice([0, 1, 7, 30, 200])
            # an encrypted record: any type, body is noise (may look like anything, e.g. a FILE-HEADER set)
            body = rnd.choice([bytes(rnd.randrange(256) for _ in range(n)),
                               bytes([0xF0]) + ident(b'FILE-HEADER') + bytes(rnd.randrange(256) for _ in range(n))])
            records.append((rnd.random() < 0.5, rnd.choice([0, 0, 1, 3, 4, 5, 127, 200]), body, True))
            features.add('encrypted')

    def add_set(lf, s):
        maybe_encrypted()
        lf['tables'].append((len(records), s))
        records.append((True, s.lr_type, s.encode(), False))
        features.update(s.features())

    for q in range(rnd.randint(1, max_logical_files)):
        lf = dict(tables=[], frame_types=[], frames={})
        add_set(lf, file_header_set(rnd, opt, q + 1))
        add_set(lf, accepted(opt, lambda: origin_set(rnd, opt)))
        for _ in range(rnd.randint(0, 3)):
            add_set(lf, accepted(opt, lambda: rand_set(rnd, opt)))
        if rnd.random() < log_pass_probability:
            frame_types, listed = rand_log_pass(rnd, opt, max_frames=max_frames)
            lf['frame_types'] = frame_types
            cs, fs = channel_set(rnd, opt, listed), frame_set(rnd, opt, frame_types)
            first, second = (cs, fs) if rnd.random() < 0.8 else (fs, cs)
            add_set(lf, first)
            for _ in range(rnd.randint(0, 1)):
                add_set(lf, accepted(opt, lambda: rand_set(rnd, opt)))
            add_set(lf, second)
            # interleave the frame data of all types, keeping the order within a type
            pending = [(ft, i) for ft in frame_types for i in range(len(ft.frames))]
            order = []
            cursors = {id(ft): 0 for ft in frame_types}
            live = [ft for ft in frame_types]
            while live:
                ft = rnd.choice(live)
                order.append((ft, cursors[id(ft)]))
                cursors[id(ft)] += 1
                if cursors[id(ft)] == len(ft.frames):
                    live.remove(ft)
            assert len(order) == len(pending)
            for ft, i in order:
                maybe_encrypted()
                if rnd.random() < 0.08:       # a data record without data (seen in the wild): not a frame
                    records.append((False, 0, iflr(ft.name, rnd.choice([0, ft.frames[i]['number']]), []), False))
                    features.add('empty-iflr')
                if rnd.random() < 0.06:
                    add_set(lf, accepted(opt, lambda: rand_set(rnd, opt)))       # static data between frames
                fr = ft.frames[i]
                lf['frames'].setdefault(ft.name, []).append((len(records), fr))
                width = None
                if rnd.random() < 0.15:
                    width = rnd.choice([w for w, lim in ((1, 2 ** 7), (2, 2 ** 14), (4, 2 ** 30)) if fr['number'] < lim])
                records.append((False, 0, iflr(ft.name, fr['number'], fr['raw'], width), False))
            features.add('frame-types:%d' % len(frame_types))
        for _ in range(rnd.randint(0, 2)):
            add_set(lf, accepted(opt, lambda: rand_set(rnd, opt)))
        maybe_encrypted()
        lfs.append(lf)
    return records, dict(logical_files=lfs, features=features)
