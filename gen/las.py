"""LAS 1.2 / 2.0 text generator driven by a content model.

Written from the CWLS "LAS Version 2.0: A Digital Standard for Logs" document (and the 1.2 predecessor), not from the
code under test.  Nothing in here imports TotalDepth.

The model (``Content``) says WHAT is in the file:

* the version (1.2 or 2.0);
* header lines for the ~V, ~W, ~C and (optionally) ~P sections, each a ``HeaderLine`` of
  mnemonic / units / value / description where the value is a typed Python object (int, float, bool, str) together with
  the text it is written as;
* optionally the free text lines of an ~O section;
* the data: ``n`` frames x ``k`` curves of text tokens, each with the float it denotes or ``None`` if the token is not a
  number (such tokens are expected to be read as the null value).

``render()`` says HOW it is laid out: wrapped or not, section title spelling, order of the W/C/P/O sections, space padding
in every gap of a header line, blank/tab separation in data lines, comment lines and blank lines between any two lines,
line ending and whether the last line is terminated.  Rendering never changes the content, so the expected result of
reading any rendering is given by ``Content.expected_section()`` and ``Content.expected_column()``.

Header line grammar used (LAS 2.0 section 5.2)::

    [sp] MNEM [sp] . UNITS sp+ VALUE [sp] : [sp] DESCRIPTION [sp]

MNEM has no spaces, dots or colons; UNITS follow the dot immediately and have no spaces or colons (they may contain
dots); VALUE may contain anything including colons, dots and spaces but has no leading/trailing space; DESCRIPTION has no
colon.  If VALUE is not empty at least one space separates it from the dot/units.

``Content.flags`` names the unusual input classes a content belongs to so that a checker can report (or skip) them
precisely:

* ``lookalike-mnem`` / ``lookalike-unit`` / ``lookalike-desc``: some mnemonic / unit / description is spelt like a number
  or like YES/NO (e.g. a parameter called ``NO``, a unit ``1000``, a description ``2``);
* ``unparseable``: some data token is not a number;
* ``null-nondefault``: the well section declares a NULL other than -999.25;
* ``null-absent``: the well section has no NULL line;
* ``single-curve``: there is only the index curve.
"""
import random
import re
import typing
from decimal import Decimal

DEFAULT_NULL = -999.25

_NUM_RE = re.compile(r'^[+-]?(?:\d[\d_]*(?:\.[\d_]*)?|\.\d[\d_]*)(?:[eE][+-]?\d[\d_]*)?$')
_WORD_NUM = {'inf', 'nan', 'infinity'}


def looks_typed(s: str) -> bool:
    """True if the text is spelt like a number (as liberal programming languages read them) or like yes/no."""
    t = s.strip()
    low = t.lower()
    if low in ('yes', 'no'):
        return True
    if low.lstrip('+-') in _WORD_NUM:
        return True
    return bool(_NUM_RE.match(t))


class HeaderLine(typing.NamedTuple):
    mnem: str
    unit: str
    value_text: str
    value: typing.Any  # int, float, bool or str; what value_text denotes
    desc: str


class Content:
    def __init__(self):
        self.vers: float = 2.0
        self.vers_text: str = '2.0'
        self.vers_desc: str = ''
        self.wrap_desc: str = ''
        self.version_extra: typing.List[HeaderLine] = []
        self.well: typing.List[HeaderLine] = []
        self.curves: typing.List[HeaderLine] = []
        self.params: typing.Optional[typing.List[HeaderLine]] = None
        self.other: typing.Optional[typing.List[str]] = None
        self.tokens: typing.List[typing.List[str]] = []  # [frame][curve]
        self.values: typing.List[typing.List[typing.Optional[float]]] = []  # [frame][curve], None: not a number
        self.null: typing.Union[int, float] = DEFAULT_NULL  # what a reader should use as null
        self.flags: typing.Set[str] = set()

    # ---- expected results
    @property
    def num_curves(self) -> int:
        return len(self.curves)

    @property
    def num_frames(self) -> int:
        return len(self.tokens)

    def sections_present(self) -> str:
        return 'VWC' + ('P' if self.params is not None else '') + ('O' if self.other is not None else '')

    def version_lines(self, wrap: bool, wrap_text: str) -> typing.List[HeaderLine]:
        return [
            HeaderLine('VERS', '', self.vers_text, self.vers, self.vers_desc),
            HeaderLine('WRAP', '', wrap_text, wrap, self.wrap_desc),
        ] + self.version_extra

    def expected_section(self, section: str, wrap: bool) -> typing.List[typing.Tuple[str, str, typing.Any, str]]:
        """[(mnemonic, units, typed value, description), ...] for 'V', 'W', 'C' or 'P'."""
        if section == 'V':
            lines = self.version_lines(wrap, '')
        else:
            lines = {'W': self.well, 'C': self.curves, 'P': self.params}[section]
        return [(ln.mnem, ln.unit, ln.value, ln.desc) for ln in lines]

    def expected_column(self, curve: int, null: typing.Union[int, float]) -> typing.List[float]:
        return [float(null) if row[curve] is None else row[curve] for row in self.values]


# ----------------------------------------------------------------------------------------------------------------------
# Vocabulary
# ----------------------------------------------------------------------------------------------------------------------
_MNEM_COMMON = ['STRT', 'STOP', 'STEP', 'NULL', 'COMP', 'WELL', 'FLD', 'LOC', 'PROV', 'CNTY', 'STAT', 'CTRY', 'SRVC',
                'DATE', 'UWI', 'API', 'LIC', 'BHT', 'BS', 'FD', 'MATR', 'MDEN', 'RMF', 'DFD', 'EKB', 'EGL', 'RUN',
                'TDD', 'TDL', 'CSGL', 'LATI', 'LONG', 'X', 'Y', 'GDAT', 'MUD', 'RM', 'RMT', 'ENG', 'WIT', 'TLI', 'BLI']
_CURVE_COMMON = ['GR', 'NPHI', 'RHOB', 'DRHO', 'ILD', 'ILM', 'SFLU', 'SFLA', 'SP', 'CALI', 'DT', 'PEF', 'TENS', 'ETIM',
                 'DPHI', 'LL8', 'MSFL', 'CILD', 'RT', 'RXO', 'SW', 'VSH', 'TEMP', 'ROP', 'WOB', 'C1', 'C2', 'HAZI', 'DEVI',
                 # ordinary numeric curves that happen to be called TIME / DATE (with units other than HHMMSS / D)
                 'TIME', 'DATE', 'TIME', 'DATE']
_INDEX_NAMES = ['DEPT', 'DEPTH', 'TIME', 'INDEX', 'ETIM', 'Dept', 'MD']
_UNITS = ['M', 'FT', 'F', 'US/F', 'G/C3', 'V/V', '%', 'GAPI', 'OHMM', 'MV', 'IN', '.1IN', '0.1IN', 'DEGC', 'DEGF',
          'uS/ft', 'K/M3', 'm3/m3', 'LB/F', 'S', 'MS', 'HHMMSS', 'D', '1/S', 'MM/DD/YY', 'PU', 'B/E', 'MMHO/M', 'lbs',
          'min', 'api', 'CP', 'KG/M3', 'PPM', 'C/C', 'm', 'ft', 'mts', 'PSI', 'KPA', 'M.KB', 'DEG', "'", '"', '(m)']
_WORDS = ['ANY', 'OIL', 'COMPANY', 'LTD.', 'INC.', 'WILDCAT', 'AREA', '12-34-12-34W5M', 'Co.', 'No.', '#2', '(KB)',
          'A.B.', 'Rig', 'EDMONTON', 'ALBERTA', "34'", '100/07-18-064-19W4/00', 'LOGGING', 'SERVICES', 'GEL', 'CHEM',
          'Gamma', 'Ray', 'START', 'DEPTH', 'Neutron', 'Porosity', '(Sandstone)', 'Bulk', 'Density', 'at', 'BHT',
          'N/A', '-', '--', 'et', 'al', 'well', '&', 'sons', '45', '310', '01', '00', '7.875', '2.65', 'e', 'E5',
          'UNKNOWN', 'Run', 'one', 'of', '3', '1/2', '[m]', 'x=1', 'a,b', 'it\'s', 'DUAL', 'INDUCTION', '<none>', '?']
_COLON_TEXTS = ['12:30:45', '10:15', 'RATIO 1:2', 'KB:DF', 'a:b:c', '08:00 AM', '2012-11-14 10:50:00.5',
                '2012-11-14 10:50', 'T=23:59:59.999', 'N 49:12:33.5', '00:00:00', 'scale 1:240 and 1:600',
                '1998-07-04T16:05:00', 'ends with colon:', 'C:\\LOGS\\RUN1.LAS']
_DATE_TEXTS = ['13-DEC-86', '2012-11-14', '14/11/2012', 'Nov. 14 2012', '86.12.13', '13 DEC 1986']
_MNEM_TAIL = 'ABCDEFGHIJKLMNOPQRSTUVWXYZabcdefghijklmnopqrstuvwxyz0123456789_-/()[]#&*+%<>=!?,;\'"'
_UNIT_CHARS = 'ABCDEFGHIJKLMNOPQRSTUVWXYZabcdefghijklmnopqrstuvwxyz0123456789/%.-_()[]*^'
_LOOKALIKES = ['NO', 'YES', 'no', 'Yes', '1', '12', '007', '2.5', '-1', '1E5', '.5', 'INF', 'nan', 'Infinity', '+3',
               '1_000', '5.']
_UNPARSEABLE_TOKENS = ['NULL', 'null', 'N/A', '-', '--', '*', '****', '1,5', '12:30:00', '1.2.3', '1e', 'e5', 'ABC',
                       '-.', '+-1', '0x1F', '1..5', '--5', '1.5D+03', '?', '.', 'NaN%', '1.0.', '13-DEC-86', '1/2',
                       '(5)', '5m', '-999.25*']
_COMMENT_TEXTS = ['', ' a comment', '~A  this is not a section', ' MNEM.UNIT  VALUE : DESCRIPTION', '# ## #',
                  '----------------------------------------', ' 1.0 2.0 3.0', '\tTab', ' colon: dot. tilde~',
                  '~V', ' STRT.M 100 : fake', '==== block ====', ' 12:00:00']


def _pick_weighted(rng: random.Random, pairs):
    total = sum(w for _v, w in pairs)
    x = rng.random() * total
    for v, w in pairs:
        x -= w
        if x < 0:
            return v
    return pairs[-1][0]


def gen_mnemonic(rng: random.Random, used: typing.Set[str], pool: typing.Sequence[str]) -> str:
    """A mnemonic without spaces, dots or colons, not starting a comment or section, unique in ``used`` and not spelt
    like a number or yes/no."""
    for _ in range(1000):
        r = rng.random()
        if r < 0.55:
            m = rng.choice(pool)
        elif r < 0.85:
            m = rng.choice('ABCDEFGHIJKLMNOPQRSTUVWXYZ') + ''.join(
                rng.choice('ABCDEFGHIJKLMNOPQRSTUVWXYZ0123456789_') for _ in range(rng.randint(0, 7)))
        else:
            m = rng.choice('ABCDEFGHIJKLMNOPQRSTUVWXYZabcdefghijklmnopqrstuvwxyz0123456789_(') + ''.join(
                rng.choice(_MNEM_TAIL) for _ in range(rng.randint(0, 11)))
        if m in used or looks_typed(m) or m[0] in '#~':
            continue
        used.add(m)
        return m
    raise RuntimeError('can not make a mnemonic')


def gen_unit(rng: random.Random, p_empty: float = 0.35) -> str:
    if rng.random() < p_empty:
        return ''
    while True:
        if rng.random() < 0.75:
            u = rng.choice(_UNITS)
        else:
            u = ''.join(rng.choice(_UNIT_CHARS) for _ in range(rng.randint(1, 8)))
        if not looks_typed(u):
            return u


def gen_text(rng: random.Random, allow_colon: bool, max_words: int = 5) -> str:
    """Free text without leading/trailing space, not spelt like a number or yes/no; may be empty."""
    while True:
        r = rng.random()
        if r < 0.08:
            return ''
        if allow_colon and r < 0.30:
            t = rng.choice(_COLON_TEXTS)
            if rng.random() < 0.3:
                t = rng.choice(_WORDS) + ' ' * rng.randint(1, 3) + t
        elif r < 0.40:
            t = rng.choice(_DATE_TEXTS)
        else:
            words = [rng.choice(_WORDS) for _ in range(rng.randint(1, max_words))]
            t = words[0]
            for w in words[1:]:
                t += ' ' * _pick_weighted(rng, [(1, 8), (2, 2), (3, 1), (7, 0.3)]) + w
        if looks_typed(t) or t.startswith(':'):
            continue
        if not allow_colon and ':' in t:
            continue
        return t


def gen_int_text(rng: random.Random) -> typing.Tuple[str, int]:
    # identifiers such as UWI / API / licence numbers are integers of 16 and more digits (beyond 2**53: not exact in a double)
    v = _pick_weighted(rng, [(rng.randint(-9, 9), 3), (rng.randint(-100000, 100000), 3), (rng.randint(-10 ** 12, 10 ** 12), 1),
                             (rng.choice([2 ** 53 + 1, 100123456789012345, 9007199254740993, -(2 ** 62) - 1, 10 ** 20 + 7]), 1)])
    r = rng.random()
    if r < 0.75:
        t = str(v)
    elif r < 0.85 and v >= 0:
        t = '+' + str(v)
    else:
        t = ('-' if v < 0 else '') + '0' * rng.randint(1, 3) + str(abs(v))
    return t, v


def gen_float_text(rng: random.Random) -> typing.Tuple[str, float]:
    """(text, the float it denotes).  The text always has a '.' or an exponent so it is not an integer."""
    r = rng.random()
    mant = rng.randint(-10 ** rng.randint(1, 9), 10 ** rng.randint(1, 9))
    d = rng.randint(1, 6)
    dec = Decimal(mant).scaleb(-d)
    if r < 0.65:
        t = format(dec, 'f')
    elif r < 0.80:
        t = '{:.{}E}'.format(dec, rng.randint(0, 6))
        if rng.random() < 0.5:
            t = t.lower()
    elif r < 0.86:
        t = '+' + format(abs(dec), 'f')
    elif r < 0.91:
        t = '%d.' % rng.randint(-1000, 1000)
    elif r < 0.95:
        t = '.%d' % rng.randint(0, 99999)
    else:
        t = rng.choice(['1e5', '2E-3', '-7e+02', '0.0', '-0.0', '-999.25', '-999.2500', '1.E2'])
    return t, float(t)  # decimal text to nearest double: the language's own conversion is the reference


def gen_value(rng: random.Random) -> typing.Tuple[str, typing.Any]:
    kind = _pick_weighted(rng, [('int', 2), ('float', 3), ('bool', 1), ('text', 5)])
    if kind == 'int':
        return gen_int_text(rng)
    if kind == 'float':
        return gen_float_text(rng)
    if kind == 'bool':
        t = rng.choice(['YES', 'NO', 'yes', 'no', 'Yes', 'No', 'yEs', 'nO'])
        return t, t.lower() == 'yes'
    t = gen_text(rng, allow_colon=True)
    return t, t


def gen_header_line(rng: random.Random, used: typing.Set[str], pool: typing.Sequence[str],
                    p_unit_empty: float = 0.35) -> HeaderLine:
    value_text, value = gen_value(rng)
    return HeaderLine(gen_mnemonic(rng, used, pool), gen_unit(rng, p_unit_empty), value_text, value,
                      gen_text(rng, allow_colon=False, max_words=6))


# ----------------------------------------------------------------------------------------------------------------------
# Data columns
# ----------------------------------------------------------------------------------------------------------------------
def _null_token(rng: random.Random, null) -> str:
    if isinstance(null, int):
        return str(null)
    base = repr(float(null))
    return base + '0' * rng.randint(0, 3) if '.' in base and 'e' not in base else base


def gen_index_column(rng: random.Random, n: int) -> typing.List[str]:
    """Strictly monotonic index tokens, fixed decimals."""
    d = rng.randint(0, 5)
    start = rng.randint(-10 ** 6, 10 ** 7)
    step = rng.choice([-1, 1]) * rng.choice([1, 2, 5, 25, 100, 125, 500, 1524, 10 ** d])
    return [format(Decimal(start + i * step).scaleb(-d), 'f') for i in range(n)]


def gen_data_column(rng: random.Random, n: int, null, p_unparseable: float) -> typing.List[str]:
    d = rng.randint(0, 6)
    scale = 10 ** rng.randint(0, 8)
    style = _pick_weighted(rng, [('fixed', 8), ('exp', 1), ('mixed', 1)])
    out = []
    for _ in range(n):
        r = rng.random()
        if r < p_unparseable:
            out.append(rng.choice(_UNPARSEABLE_TOKENS))
            continue
        if r < p_unparseable + 0.08:
            out.append(_null_token(rng, null))
            continue
        if r < p_unparseable + 0.11:
            # ordinary numbers whose text begins like the null value's text
            nt = _null_token(rng, null)
            t = nt.rstrip('0') + rng.choice(['01', '37', '9', '001', '5E-2', '12e1']) if '.' in nt else nt + rng.choice(['1', '.5', '25', '0.75'])
            try:
                if float(t) != float(null) and float(t) == float(t) and abs(float(t)) != float('inf'):
                    out.append(t)
                    continue
            except ValueError:
                pass
        dec = Decimal(rng.randint(-scale, scale)).scaleb(-d)
        st = style if style != 'mixed' else rng.choice(['fixed', 'exp', 'odd'])
        if st == 'fixed':
            t = format(dec, 'f')
        elif st == 'exp':
            t = '{:.{}E}'.format(dec, rng.randint(1, 7))
            if rng.random() < 0.3:
                t = t.lower()
        else:
            t = rng.choice(['+1.5', '.5', '5.', '007', '-0.0', '1E3', '-.25', '+0', '1e-10', '1.7976931348623157E308',
                            '4.9e-324', '123456789012345678', '0.1', '1E+003', '-0'])
        out.append(t)
    return out


# ----------------------------------------------------------------------------------------------------------------------
# Content
# ----------------------------------------------------------------------------------------------------------------------
def random_content(rng: random.Random, max_curves: int = 7, max_frames: int = 9,
                   p_lookalike: float = 0.06, p_null_nondefault: float = 0.15) -> Content:
    c = Content()
    # ---- version
    if rng.random() < 0.5:
        c.vers, c.vers_text = 2.0, rng.choice(['2.0', '2.0', '2.00', '2.000'])
        c.vers_desc = rng.choice(['CWLS LOG ASCII STANDARD - VERSION 2.0', 'CWLS log ASCII Standard -VERSION 2.0', ''])
    else:
        c.vers, c.vers_text = 1.2, rng.choice(['1.2', '1.2', '1.20', '1.200'])
        c.vers_desc = rng.choice(['CWLS LOG ASCII STANDARD - VERSION 1.2', 'CWLS LOG ASCII STANDARD -VERSION 1.2', ''])
    c.wrap_desc = rng.choice(['One line per depth step', 'Multiple lines per depth step', 'ONE LINE PER DEPTH STEP', ''])
    used = {'VERS', 'WRAP'}
    for _ in range(_pick_weighted(rng, [(0, 5), (1, 2), (2, 2), (4, 1)])):
        c.version_extra.append(gen_header_line(rng, used, ['PROD', 'PROG', 'CREA', 'SOURCE', 'LOGICAL-FILE', 'FILE-ID',
                                                           'DLIS_CREA', 'FRAME-ARRAY']))
    # ---- shape of the data
    k = _pick_weighted(rng, [(1, 1), (2, 2), (3, 2), (rng.randint(1, max_curves), 4), (rng.randint(8, 30), 0.5)])
    n = _pick_weighted(rng, [(1, 1), (2, 1), (rng.randint(1, max_frames), 6), (rng.randint(10, 40), 0.5)])
    if k == 1:
        c.flags.add('single-curve')
    # ---- null
    r = rng.random()
    null_line = True
    if r < p_null_nondefault:
        null_text, c.null = rng.choice([('-9999', -9999), ('-999', -999), ('-9999.0', -9999.0), ('0', 0),
                                        ('-999.2500', -999.25), ('1E30', 1e30), ('-99999.99', -99999.99)])
        if float(c.null) != DEFAULT_NULL:
            c.flags.add('null-nondefault')
    elif r < p_null_nondefault + 0.1:
        null_line = False
        c.null = DEFAULT_NULL  # LAS gives no default; -999.25 is the customary one and what the reader documents
        c.flags.add('null-absent')
    else:
        null_text, c.null = rng.choice(['-999.25', '-999.2500', '-999.250']), DEFAULT_NULL
    # ---- curves and data
    used = set()
    p_unparseable = rng.choice([0.0, 0.0, 0.05, 0.15])
    columns = []
    for i in range(k):
        value_text, value = gen_value(rng) if rng.random() < 0.6 else ('', '')
        while True:
            mnem = gen_mnemonic(rng, used, _INDEX_NAMES if i == 0 else _CURVE_COMMON)
            unit = gen_unit(rng, 0.25)
            # These two combinations switch the reader to date / time objects (a TotalDepth extension of LAS 2.0, the
            # standard has numbers only in ~A); not generated.
            if (mnem, unit) not in (('DATE', 'D'), ('TIME', 'HHMMSS')):
                break
            used.discard(mnem)
        c.curves.append(HeaderLine(mnem, unit, value_text, value, gen_text(rng, allow_colon=False, max_words=6)))
        if i == 0:
            columns.append(gen_index_column(rng, n))
        else:
            columns.append(gen_data_column(rng, n, c.null, p_unparseable))
    for f in range(n):
        c.tokens.append([columns[i][f] for i in range(k)])
        row = []
        for i in range(k):
            t = columns[i][f]
            if t in _UNPARSEABLE_TOKENS:
                row.append(None)
                c.flags.add('unparseable')
            else:
                row.append(float(t))
        c.values.append(row)
    # ---- well
    used = {'NULL'}  # no second NULL line (if there is none, a random line must not introduce one)
    idx_unit = c.curves[0].unit
    for m, t in (('STRT', columns[0][0]), ('STOP', columns[0][-1]), ('STEP', rng.choice(['0.0', '0.1524', '-0.5', '1', '0']))):
        used.add(m)
        v = int(t) if re.match(r'^[+-]?\d+$', t) else float(t)
        c.well.append(HeaderLine(m, idx_unit, t, v, gen_text(rng, allow_colon=False)))
    if null_line:
        used.add('NULL')
        c.well.append(HeaderLine('NULL', '', null_text, c.null, gen_text(rng, allow_colon=False)))
    for _ in range(rng.randint(0, 8)):
        ln = gen_header_line(rng, used, _MNEM_COMMON)
        if c.vers == 1.2 and isinstance(ln.value, str) and ':' not in ln.value_text and rng.random() < 0.5:
            # LAS 1.2 style: label before the colon, information after it
            ln = HeaderLine(ln.mnem, ln.unit, ln.desc, ln.desc, ln.value_text)
            if looks_typed(ln.value_text) or looks_typed(ln.desc):
                continue
        c.well.append(ln)
    if rng.random() < 0.3:
        rng.shuffle(c.well)
    # ---- parameters, other
    if rng.random() < 0.6:
        used = set()
        c.params = [gen_header_line(rng, used, _MNEM_COMMON) for _ in range(rng.randint(0, 8))]
    if rng.random() < 0.35:
        c.other = []
        for _ in range(rng.randint(0, 4)):
            t = gen_text(rng, allow_colon=True, max_words=8)
            if t and t[0] not in '~#':
                c.other.append(t)
    # ---- rare: fields spelt like numbers or yes/no
    if rng.random() < p_lookalike:
        which = rng.choice(['mnem', 'unit', 'desc'])
        sect = rng.choice([s for s in (c.well, c.curves, c.params, c.version_extra) if s])
        j = rng.randrange(len(sect))
        if sect is c.well and sect[j].mnem in ('STRT', 'STOP', 'STEP', 'NULL'):
            which = 'desc'
        la = rng.choice(_LOOKALIKES)
        if which == 'mnem':
            la = la.replace('.', '')  # a mnemonic has no dots
            if la not in [ln.mnem for ln in sect]:
                sect[j] = sect[j]._replace(mnem=la)
                c.flags.add('lookalike-mnem')
        elif which == 'unit':
            sect[j] = sect[j]._replace(unit=la)
            c.flags.add('lookalike-unit')
        else:
            sect[j] = sect[j]._replace(desc=la)
            c.flags.add('lookalike-desc')
    return c


# ----------------------------------------------------------------------------------------------------------------------
# Rendering
# ----------------------------------------------------------------------------------------------------------------------
_TITLES = {
    'V': ['~V', '~VERSION INFORMATION', '~Version Information Section', '~Version ---------------', '~VERSION INFORMATION BLOCK'],
    'W': ['~W', '~WELL INFORMATION BLOCK', '~Well Information Section', '~Well', '~WELL INFORMATION'],
    'C': ['~C', '~CURVE INFORMATION', '~Curve Information Section', '~CURVE INFORMATION BLOCK', '~Curve'],
    'P': ['~P', '~PARAMETER INFORMATION', '~Parameter Information Section', '~PARAMETER INFORMATION BLOCK', '~Params'],
    'O': ['~O', '~OTHER', '~Other Information Section', '~OTHER INFORMATION'],
    'A': ['~A', '~ASCII LOG DATA', '~Ascii', '~A LOG DATA', None],  # None: ~A followed by the curve names
}


class Layout:
    """Layout knobs; all randomness of rendering comes from ``rng``."""
    def __init__(self, rng: random.Random, wrap: bool):
        self.rng = rng
        self.wrap = wrap
        self.max_pad = rng.choice([0, 1, 3, 8, 30])
        self.p_noise = rng.choice([0.0, 0.1, 0.3, 0.7])
        self.tabs = rng.random() < 0.5
        self.max_sep = rng.choice([1, 2, 6, 20])
        self.eol = rng.choice(['\n', '\n', '\n', '\r\n'])
        self.final_eol = rng.random() < 0.8
        self.wrap_text = rng.choice(['YES', 'Yes', 'yes'] if wrap else ['NO', 'No', 'no'])
        self.align = rng.random() < 0.4  # column aligned header lines as most writers make them

    def pad(self, least: int = 0) -> str:
        return ' ' * (least + (self.rng.randint(0, self.max_pad) if self.rng.random() < 0.7 else 0))

    def sep(self) -> str:
        n = self.rng.randint(1, self.max_sep)
        if self.tabs:
            return ''.join(self.rng.choice(' \t') for _ in range(n))
        return ' ' * n

    def lead(self) -> str:
        if self.rng.random() < 0.5:
            return ''
        return self.sep()

    def noise(self) -> typing.List[str]:
        out = []
        while self.rng.random() < self.p_noise:
            r = self.rng.random()
            if r < 0.5:
                out.append(self.pad() + '#' + self.rng.choice(_COMMENT_TEXTS))
            else:
                out.append(self.rng.choice(['', '', ' ', '   ', '\t', ' \t ', ' ' * 40]))
        return out


def render_header_line(ln: HeaderLine, lay: Layout) -> str:
    if lay.align:
        left = '{:<{}}.{:<{}}'.format(ln.mnem, lay.rng.choice([4, 6, 10]), ln.unit, lay.rng.choice([0, 4, 8]))
        s = '{} {:<{}}:{}{}'.format(left, ln.value_text, lay.rng.choice([0, 10, 30]), ' ' * lay.rng.randint(0, 2), ln.desc)
        return s
    s = lay.pad() + ln.mnem + lay.pad() + '.' + ln.unit
    if ln.value_text:
        s += lay.pad(1) + ln.value_text
    s += lay.pad() + ':' + lay.pad() + ln.desc + lay.pad()
    return s


def render(content: Content, rng: random.Random, wrap: bool) -> str:
    """One LAS text for the content.  Different ``rng`` states give different layouts of the same content."""
    lay = Layout(rng, wrap)
    lines: typing.List[str] = []
    lines.extend(lay.noise())

    def section(sect: str, header_lines):
        title = rng.choice(_TITLES[sect]) + (lay.pad() if rng.random() < 0.3 else '')
        lines.append(title)
        lines.extend(lay.noise())
        for ln in header_lines:
            lines.append(render_header_line(ln, lay))
            lines.extend(lay.noise())

    section('V', content.version_lines(wrap, lay.wrap_text))
    order = [s for s in content.sections_present() if s != 'V']
    if rng.random() < 0.4:
        rng.shuffle(order)
    for sect in order:
        if sect == 'W':
            section('W', content.well)
        elif sect == 'C':
            section('C', content.curves)
        elif sect == 'P':
            section('P', content.params)
        else:
            lines.append(rng.choice(_TITLES['O']))
            lines.extend(lay.noise())
            for t in content.other:
                lines.append(lay.pad() + t + lay.pad())
                lines.extend(lay.noise())
    title = rng.choice(_TITLES['A'])
    if title is None:
        title = '~A' + ''.join(lay.pad(1) + ln.mnem for ln in content.curves)
    lines.append(title)
    lines.extend(lay.noise())
    for row in content.tokens:
        if not wrap:
            lines.append(lay.lead() + lay.sep().join(row) + (lay.sep() if rng.random() < 0.3 else ''))
            lines.extend(lay.noise())
        else:
            # Index alone on its line, the other values on as many following lines as it takes
            lines.append(lay.lead() + row[0] + (lay.sep() if rng.random() < 0.3 else ''))
            lines.extend(lay.noise())
            rest = row[1:]
            per_line = rng.choice([1, 2, 3, 5, 8, 1000])
            i = 0
            while i < len(rest):
                m = rng.randint(1, per_line) if rng.random() < 0.3 else per_line
                lines.append(lay.lead() + lay.sep().join(rest[i:i + m]) + (lay.sep() if rng.random() < 0.3 else ''))
                lines.extend(lay.noise())
                i += m
    text = lay.eol.join(lines)
    if lay.final_eol:
        text += lay.eol
    return text
