"""Independent LIS-79 LOGICAL record encoder.

Written from the LIS-79 description (section 3: logical records; Appendix B: representation codes).  Shares no code
with the repository.  Everything returns bytes of ONE logical record (logical record header included); the physical
layer is gen.lis.build().

Logical record header (LRH): 2 bytes: type, attributes (0).

Representation codes (all big endian):
  49  16 bit float: 12 bit two's complement fraction (bits 15..4, binary point after the sign), 4 bit unsigned exponent
  50  32 bit low resolution float: 16 bit two's complement exponent, 16 bit two's complement fraction
  56  8 bit two's complement integer
  65  ASCII string
  66  unsigned byte
  68  32 bit float: sign, 8 bit excess-128 exponent (one's complemented when negative), 23 bit fraction (two's complement
      when negative): value = ((M - S*2**23) / 2**23) * 2**(E-128 if S == 0 else 127-E)
  70  32 bit fixed point: two's complement, binary point between the two 16 bit halves
  73  32 bit two's complement integer
  77  8 bit mask
  79  16 bit two's complement integer
"""
import math
import struct

RC_SIZE = {49: 2, 50: 4, 56: 1, 66: 1, 68: 4, 70: 4, 73: 4, 77: 1, 79: 2}

LR_NORMAL_DATA = 0
LR_ALTERNATE_DATA = 1
LR_JOB_ID = 32
LR_WELL_SITE = 34
LR_TOOL_INFO = 39
LR_DFSR = 64
LR_FILE_HEADER = 128
LR_FILE_TRAILER = 129


class NotRepresentable(ValueError):
    pass


# ------------------------------------------------------------------------------------------------ representation codes
def _exact_int(x, what):
    if x != math.floor(x):
        raise NotRepresentable('%s: %r is not exactly representable' % (what, x))
    return int(x)


def enc68(v):
    v = float(v)
    if v == 0.0:
        return struct.pack('>I', 128 << 23)            # 0.0 * 2**0
    m, e = math.frexp(abs(v))                           # 0.5 <= m < 1
    mant = _exact_int(m * (1 << 23), 'code 68')
    if v > 0:
        expo = e + 128
        sign = 0
    else:
        mant = (1 << 23) - mant                         # two's complement of the 23 bit fraction
        expo = 127 - e                                  # one's complement of the excess-128 exponent
        sign = 1
    if not 0 <= expo <= 255:
        raise NotRepresentable('code 68: exponent of %r out of range' % v)
    if mant == (1 << 23):                               # cannot happen for normalised m; defensive
        raise NotRepresentable('code 68: mantissa overflow')
    return struct.pack('>I', (sign << 31) | (expo << 23) | mant)


def dec68_spec(b):
    """The Appendix B formula, used to self-check the encoder and to interpret arbitrary words."""
    w, = struct.unpack('>I', b)
    s = w >> 31
    e = (w >> 23) & 0xFF
    m = w & 0x7FFFFF
    return math.ldexp(m - (s << 23), (e - 128 if s == 0 else 127 - e) - 23)


def enc49(v):
    v = float(v)
    for e in range(16):
        f = v / (1 << e) * (1 << 11)
        if f == math.floor(f) and -2048 <= f < 2048:
            return struct.pack('>H', ((int(f) & 0xFFF) << 4) | e)
    raise NotRepresentable('code 49: %r' % v)


def enc50(v, min_exp=0):
    v = float(v)
    for e in range(min_exp, 128):
        f = v / (2.0 ** e) * (1 << 15)
        if f == math.floor(f) and -32768 <= f < 32768:
            return struct.pack('>hh', e, int(f))
    raise NotRepresentable('code 50: %r' % v)


def enc56(v):
    return struct.pack('>b', _exact_int(v, 'code 56'))


def enc66(v):
    return struct.pack('>B', _exact_int(v, 'code 66'))


def enc77(v):
    return struct.pack('>B', _exact_int(v, 'code 77'))


def enc70(v):
    return struct.pack('>i', _exact_int(float(v) * 65536.0, 'code 70'))


def enc73(v):
    return struct.pack('>i', _exact_int(v, 'code 73'))


def enc79(v):
    return struct.pack('>h', _exact_int(v, 'code 79'))


def enc65(v, size=None):
    v = bytes(v)
    if size is not None:
        v = v[:size].ljust(size, b' ')
    return v


_ENC = {49: enc49, 50: enc50, 56: enc56, 66: enc66, 68: enc68, 70: enc70, 73: enc73, 77: enc77, 79: enc79}


def encode(rc, v):
    """Bytes of one value in representation code rc (65: v is bytes)."""
    if rc == 65:
        return enc65(v)
    try:
        return _ENC[rc](v)
    except struct.error as e:
        raise NotRepresentable('code %d: %r (%s)' % (rc, v, e))


# ------------------------------------------------------------------------------------------------ logical records
def lrh(lr_type, attributes=0):
    return bytes([lr_type, attributes])


def _field(b, n):
    b = bytes(b)
    assert len(b) <= n, (b, n)
    return b.ljust(n, b' ')


def file_header_trailer(lr_type, file_name, service_sub_level, version, date, max_pr_len, file_type, other_file_name):
    """LIS-79 3.3.2.1/3.3.2.2: file name 10, 2 blank, service sub level name 6, version number 8, date of generation 8
    (YY/MM/DD), 1 blank, maximum physical record length 5, 2 blank, file type 2, 2 blank, previous (header) or next
    (trailer) file name 10: 56 bytes after the LRH."""
    assert lr_type in (LR_FILE_HEADER, LR_FILE_TRAILER)
    body = (_field(file_name, 10) + b'  ' + _field(service_sub_level, 6) + _field(version, 8) + _field(date, 8) + b' '
            + _field(max_pr_len, 5) + b'  ' + _field(file_type, 2) + b'  ' + _field(other_file_name, 10))
    assert len(body) == 56
    return lrh(lr_type) + body


def component_block(cb_type, rc, value, mnem=b'', units=b'', category=0, size=None):
    """LIS-79 3.3.1 (information records): type 1, representation code 1, size 1, category 1, mnemonic 4, units 4,
    then the component of `size` bytes.  Types: 73 table name, 0 datum block (row) start, 69 datum entry."""
    data = encode(rc, value)
    if size is None:
        size = len(data)
    return bytes([cb_type, rc, size, category]) + _field(mnem, 4) + _field(units, 4) + data


def table_record(lr_type, name, rows, name_mnem=b'TYPE'):
    """rows: list of rows; a row is a list of (mnem, units, rc, value); the first cell of a row gets component block
    type 0 (start of datum block), the following cells type 69."""
    out = lrh(lr_type) + component_block(73, 65, name, mnem=name_mnem)
    for row in rows:
        for j, (mnem, units, rc, value) in enumerate(row):
            out += component_block(0 if j == 0 else 69, rc, value, mnem=mnem, units=units)
    return out


def entry_block(eb_type, rc, value):
    """LIS-79 3.3.3.1: entry type 1, size 1, representation code 1, entry.  value None: size 0."""
    if value is None:
        return bytes([eb_type, 0, rc])
    data = encode(rc, value)
    return bytes([eb_type, len(data), rc]) + data


def datum_spec_block(mnem, service_id, service_order, units, api_codes, file_number, size, samples, rc,
                     process_level=0):
    """LIS-79 3.3.3.2, sub type 0, 40 bytes: mnemonic 4, service id 6, service order number 8, units 4, API codes 4,
    file number 2, size 2, 2 spare, process level 1, number of samples 1, representation code 1, 5 spare."""
    b = (_field(mnem, 4) + _field(service_id, 6) + _field(service_order, 8) + _field(units, 4) + bytes(api_codes)
         + struct.pack('>hH', file_number, size) + b'\x00\x00' + bytes([process_level, samples, rc]) + b'\x00' * 5)
    assert len(b) == 40
    return b


def dfsr(entry_blocks, datum_spec_blocks):
    """entry_blocks: list of bytes from entry_block() WITHOUT the terminator; a terminator (type 0) is appended, with
    a one byte entry when that is needed to make the entry block section an even number of bytes (LIS-79 note)."""
    ebs = b''.join(entry_blocks)
    if (len(ebs) + 3) % 2:
        ebs += bytes([0, 1, 66, 0])
    else:
        ebs += bytes([0, 0, 66])
    return lrh(LR_DFSR) + ebs + b''.join(datum_spec_blocks)


def data_record(lr_type, frames, implied_x=None):
    """frames: list of bytes (one per frame); implied_x: bytes of the X value of the first frame when depth recording
    mode is 1 (the value precedes the frames), else None."""
    assert lr_type in (LR_NORMAL_DATA, LR_ALTERNATE_DATA)
    return lrh(lr_type) + (implied_x or b'') + b''.join(frames)


def _selftest():
    assert enc68(153.0) == bytes.fromhex('444C8000')
    assert enc68(-153.0) == bytes.fromhex('BBB38000')
    assert enc68(-999.25) == bytes.fromhex('BA831800')
    assert enc49(153.0) == bytes.fromhex('4C88') and enc49(-153.0) == bytes.fromhex('B388')
    assert enc50(153.0) == bytes.fromhex('00084C80') and enc50(-153.0) == bytes.fromhex('0008B380')
    assert enc70(153.25) == bytes.fromhex('00994000') and enc70(-153.25) == bytes.fromhex('FF66C000')
    assert enc73(-153) == bytes.fromhex('FFFFFF67') and enc79(-153) == bytes.fromhex('FF67') and enc56(-89) == b'\xa7'
    for v in (0.0, 1.0, -1.0, 0.5, -0.5, 1e-3 * 1024 // 1 / 1024, 12345.625, -12345.625, 2.0 ** 100, -2.0 ** -100):
        assert dec68_spec(enc68(v)) == v, v


_selftest()
