"""A binary file object that records the footprint of its reads; it has the attributes the file model of the
contracts talks about (data, pos, rd_lo, rd_hi)."""
import io


class CountingFile(io.BytesIO):
    def __init__(self, data):
        super().__init__(data)
        self.data = bytes(data)
        self.rd_lo = len(data)
        self.rd_hi = 0

    @property
    def pos(self):
        return self.tell()

    def read(self, n=-1):
        p = self.tell()
        r = super().read(n)
        if r:
            self.rd_lo = min(self.rd_lo, p)
            self.rd_hi = max(self.rd_hi, p + len(r))
        return r

    def reset_footprint(self):
        self.rd_lo = len(self.data)
        self.rd_hi = 0

    def __deepcopy__(self, memo):
        c = CountingFile(self.data)
        c.seek(self.tell())
        c.rd_lo, c.rd_hi = self.rd_lo, self.rd_hi
        return c
