"""Source files for the C11 / C12 stand-in (conversion of RP66V1, LIS and BIT files to LAS).

Builds complete RP66V1, LIS and BIT files with the independent encoders of this package (gen.dlis + gen.dlis_logical,
gen.lis + gen.lis_logical, gen.bit) and returns, next to the bytes, a neutral model of every log pass in the file: what
a converter has to find in it.  Shares no code with the repository under test.

The files are "friendly" to a LAS rendering: channel mnemonics, units, frame array names and the texts that end up in
LAS header lines are drawn from alphabets without '.', ':', '#', '~' and blanks, so that a failure of the conversion
check is about frames, channels and values and not about LAS quoting.

Model
-----
Source.data      the file bytes
Source.kind      'RP66V1' | 'LIS' | 'BIT'
Source.passes    list of PassModel in the order the converter has to number them

PassModel.suffix      what the converter appends to its `path_out` argument to name the LAS file of this pass
                      (RP66V1: callable on the path, because the extension is removed first)
PassModel.channels    list of ChanModel; channels[0] is the X axis (index) channel
PassModel.nframes     number of frames
PassModel.x_units     units of the X axis as written
ChanModel.name        mnemonic as it has to appear in LAS (stripped)
ChanModel.key         the string that selects the channel in the converter's `channels` argument
ChanModel.integer     True: the source values are integers (printed without decimals)
ChanModel.rel_eps     relative precision of the number type the reader holds the channel in (slack for mean / median)
ChanModel.frames      per frame: list of the element values (Fraction, exact) of the channel in that frame
ChanModel.columns     number of LAS columns the channel makes (1 except LIS dipmeter-like sub channels: not generated)
"""
import math
import struct
from fractions import Fraction

from gen import bit as gbit
from gen import dlis as gdlis
from gen import dlis_logical as dl
from gen import lis as glis
from gen import lis_logical as L


class ChanModel:
    def __init__(self, name, key, integer, rel_eps, units=''):
        self.name, self.key, self.integer, self.rel_eps, self.units = name, key, integer, rel_eps, units
        self.frames = []
        self.dims = (1,)


class PassModel:
    def __init__(self):
        self.channels = []
        self.nframes = 0
        self.x_units = ''
        self.suffix = None
        self.info = {}

    def summary(self):
        d = dict(frames=self.nframes, channels=[[c.name, 'int' if c.integer else 'float', list(c.dims)] for c in self.channels])
        d.update(self.info)
        return d


class Source:
    def __init__(self, kind, data, passes, info=None):
        self.kind, self.data, self.passes, self.info = kind, data, passes, info or {}


LETTERS = 'ABCDEFGHIJKLMNOPQRSTUVWXYZ'
ALNUM = LETTERS + '0123456789'


def mnemonics(rnd, n, lo=2, hi=4, taken=()):
    """n distinct LAS-safe mnemonics: a letter followed by letters / digits; none that reads as a number or YES/NO."""
    out, seen = [], set(taken) | {'YES', 'NO', 'X', 'DATE', 'TIME', 'INF', 'NAN', 'NOSUCH'}
    while len(out) < n:
        m = rnd.choice(LETTERS) + ''.join(rnd.choice(ALNUM) for _ in range(rnd.randint(lo, hi) - 1))
        if m in seen or m[0] == 'E' and m[1:].isdigit() or m in ('INF', 'NAN'):
            continue
        seen.add(m)
        out.append(m)
    return out


def safe_text(rnd, lo=1, hi=12):
    return ''.join(rnd.choice(LETTERS + '   ') for _ in range(rnd.randint(lo, hi))).strip() or 'T'


# ----------------------------------------------------------------------------------------------------------------------
# RP66V1
DLIS_FLOAT_CODES = (dl.FSINGL, dl.ISINGL, dl.VSINGL, dl.FDOUBL)
DLIS_INT_CODES = (dl.SSHORT, dl.SNORM, dl.SLONG, dl.USHORT, dl.UNORM, dl.ULONG)
DLIS_UNITS = [b'm', b'ft', b'api', b'ohmm', b'us/ft', b'in', b's', b'ms', b'g/cm3', b'pu', b'degC']
_INT_RANGE = {dl.SSHORT: (-128, 127), dl.SNORM: (-32768, 32767), dl.SLONG: (-2 ** 31, 2 ** 31 - 1), dl.USHORT: (0, 255),
              dl.UNORM: (0, 65535), dl.ULONG: (0, 2 ** 32 - 1)}


def _f32(x):
    return struct.unpack('>f', struct.pack('>f', x))[0]


def dlis_value(rnd, code):
    """(exact value as Fraction, encoded bytes) of a frame value of the representation code: mostly of a magnitude where
    the number of printed decimals matters, sometimes tiny, huge or zero."""
    if code in _INT_RANGE:
        lo, hi = _INT_RANGE[code]
        v = rnd.choice([rnd.randint(lo, hi), rnd.randint(max(lo, -1000), min(hi, 1000)), lo, hi, 0])
        return Fraction(v), dl.enc_value(code, v)
    k = rnd.random()
    if code == dl.FSINGL:
        if k < 0.7:
            v = _f32(rnd.uniform(-5000, 5000))
        elif k < 0.8:
            v = _f32(rnd.randint(-80000, 80000) / 16.0)
        elif k < 0.9:
            v = _f32(rnd.uniform(-1, 1) * 10.0 ** rnd.randint(-8, 12))
        else:
            v = rnd.choice([0.0, -999.25, 1.0, 0.0005, 0.0015, 2.5, -0.5])
            v = _f32(v)
        return Fraction(v), struct.pack('>f', v)
    if code == dl.FDOUBL:
        if k < 0.7:
            v = rnd.uniform(-5000, 5000)
        elif k < 0.8:
            v = rnd.randint(-80000, 80000) / 16.0
        elif k < 0.9:
            v = rnd.uniform(-1, 1) * 10.0 ** rnd.randint(-8, 14)
        else:
            v = rnd.choice([0.0, -999.25, 1.0, 0.0005, 0.0015, 2.5, -0.5, 0.125, 0.0625])
        return Fraction(v), struct.pack('>d', v)
    if code == dl.ISINGL:
        if k < 0.08:
            v, b = dl.isingl_parts(0, 0, 0)
        else:
            v, b = dl.isingl_parts(rnd.randrange(2), rnd.randint(60, 70) if k < 0.85 else rnd.randint(50, 80),
                                   rnd.choice([rnd.getrandbits(24), rnd.getrandbits(24), 0x100000, 0xffffff, 0x990000]))
        return Fraction(v), b
    if code == dl.VSINGL:
        # a zero fraction field only: the repository's VSINGL decoder weighs the fraction bits wrongly (separate finding)
        if k < 0.1:
            return Fraction(0), b'\x00\x00\x00\x00'
        v, b = dl.vsingl_parts(rnd.randrange(2), rnd.randint(118, 142), 0)
        return Fraction(v), b
    raise ValueError(code)


def _dlis_x_values(rnd, code, n):
    """n strictly monotonic X values, exactly representable in the code."""
    if code in _INT_RANGE:
        lo, hi = _INT_RANGE[code]
        step = rnd.choice([1, 1, 2, 5, 10])
        if rnd.random() < 0.3:
            steps = [step * rnd.choice([1, 1, 2, 3]) for _ in range(n)]
        else:
            steps = [step] * n
        span = sum(steps)
        down = lo < 0 and rnd.random() < 0.5
        x0 = rnd.randint(max(lo, -20000) + (span if down else 0), min(hi, 60000) - (0 if down else span)) \
            if hi - lo > 2 * span + 2 else lo
        xs, x = [], x0
        for s in steps:
            xs.append(x)
            x += -s if down else s
        assert all(lo <= v <= hi for v in xs), (code, xs)
        return [Fraction(v) for v in xs]
    step = rnd.choice([0.125, 0.25, 0.5, 0.5, 1.0, 2.5, 6.0])
    if code == dl.VSINGL:
        # powers of two only (see dlis_value): 2**k, k rising or falling
        down = rnd.random() < 0.5
        k0 = (n - 1 + rnd.randint(-3, 3)) if down else rnd.randint(-3, 4)        # smallest value 2**-3: three decimals resolve it
        return [Fraction(2) ** (k0 + (-i if down else i)) for i in range(n)]
    down = rnd.random() < 0.5
    x0 = rnd.randint(800, 80000) / 8.0
    xs, x = [], x0
    for _ in range(n):
        xs.append(x)
        x += (-step if down else step) * (1 if rnd.random() < 0.85 else rnd.choice([2, 3]))
    return [Fraction(v) for v in xs]


def _dlis_encode_exact(code, v):
    """Bytes of a value known to be exactly representable in the code (used for the X axis)."""
    if code in _INT_RANGE:
        return dl.enc_value(code, int(v))
    f = float(v)
    assert Fraction(f) == v
    if code == dl.FSINGL:
        assert _f32(f) == f
        return struct.pack('>f', f)
    if code == dl.FDOUBL:
        return struct.pack('>d', f)
    if code == dl.ISINGL:
        b = gbit.ibm_bytes(v)
        return b
    if code == dl.VSINGL:
        m, e = math.frexp(f)       # f = m * 2**e, m = +-0.5 for powers of two
        assert abs(m) == 0.5
        val, b = dl.vsingl_parts(1 if f < 0 else 0, e + 128, 0)
        assert val == f
        return b
    raise ValueError(code)


_REL_EPS = {dl.FSINGL: 2.0 ** -23, dl.ISINGL: 2.0 ** -23, dl.VSINGL: 2.0 ** -23, dl.FDOUBL: 2.0 ** -52}

ORIGIN_LABELS = [(b'FILE-ID', dl.ASCII), (b'FILE-SET-NAME', dl.IDENT), (b'FILE-SET-NUMBER', dl.UVARI), (b'FILE-NUMBER', dl.UVARI),
                 (b'FILE-TYPE', dl.IDENT), (b'PRODUCT', dl.ASCII), (b'VERSION', dl.ASCII), (b'PROGRAMS', dl.ASCII),
                 (b'CREATION-TIME', dl.DTIME), (b'ORDER-NUMBER', dl.ASCII), (b'DESCENT-NUMBER', dl.ASCII), (b'RUN-NUMBER', dl.ASCII),
                 (b'WELL-ID', dl.ASCII), (b'WELL-NAME', dl.ASCII), (b'FIELD-NAME', dl.ASCII), (b'PRODUCER-CODE', dl.UNORM),
                 (b'PRODUCER-NAME', dl.ASCII), (b'COMPANY', dl.ASCII), (b'NAME-SPACE-NAME', dl.IDENT), (b'NAME-SPACE-VERSION', dl.UVARI)]


def dlis_origin_set(rnd):
    """5.2.1: an ORIGIN set with the complete standard template and one object (the defining origin)."""
    template = [dl.Attr('ATTRIB', lab, None, code) for lab, code in ORIGIN_LABELS]
    attrs = []
    for lab, code in ORIGIN_LABELS:
        if lab == b'CREATION-TIME':
            v = ('DTIME', 1950 + rnd.randrange(100), rnd.randrange(3), rnd.randint(1, 12), rnd.randint(1, 28), rnd.randrange(24),
                 rnd.randrange(60), rnd.randrange(60), rnd.randrange(1000))
            attrs.append(dl.Attr('ATTRIB', None, None, None, None, dl.make_val(code, [v])))
        elif lab in (b'PROGRAMS', b'DESCENT-NUMBER', b'WELL-ID', b'NAME-SPACE-VERSION') and rnd.random() < 0.6:
            attrs.append(dl.Attr('ATTRIB'))                      # no value
        elif code in (dl.ASCII, dl.IDENT):
            attrs.append(dl.Attr('ATTRIB', None, None, None, None, dl.make_val(code, [safe_text(rnd).encode('ascii')])))
        else:
            attrs.append(dl.Attr('ATTRIB', None, None, None, None, dl.make_val(code, [rnd.randrange(1, 500)])))
    return dl.SetModel(1, b'ORIGIN', None, template, [dl.Obj(('OBNAME', 1, 0, b'DEFINING_ORIGIN'), attrs)])


def dlis_parameter_set(rnd):
    """5.8.2: PARAMETER objects with LONG-NAME and VALUES (what the converter lists in the ~Parameter section)."""
    template = [dl.Attr('ATTRIB', b'LONG-NAME', None, dl.ASCII), dl.Attr('ATTRIB', b'VALUES', None, None)]
    objs = []
    for nm in mnemonics(rnd, rnd.randint(1, 3)):
        code = rnd.choice([dl.ASCII, dl.FDOUBL, dl.SLONG])
        if code == dl.ASCII:
            val = dl.make_val(code, [safe_text(rnd).encode('ascii')])
        elif code == dl.FDOUBL:
            val = dl.make_val(code, [rnd.randint(-8000, 8000) / 8.0])
        else:
            val = dl.make_val(code, [rnd.randint(-1000, 1000)])
        objs.append(dl.Obj(('OBNAME', 1, 0, nm.encode('ascii')),
                           [dl.Attr('ATTRIB', None, None, None, None, dl.make_val(dl.ASCII, [safe_text(rnd).encode('ascii')])),
                            dl.Attr('ATTRIB', None, None, code, rnd.choice([None, b'm', b'degC']), val)]))
    return dl.SetModel(5, b'PARAMETER', None, template, objs)


def dlis_source(rnd, max_frames=14, max_logical_files=2, name_pool=None):
    """An RP66V1 file of 1..max_logical_files logical files, each with 0..2 frame types of 1..5 channels.
    Returns Source; Source.passes lists one PassModel per (logical file, frame type) in file order.
    name_pool: None, or a list of mnemonics to draw the channel names from (distinct within the file, but files made
    from the same pool share names: the index channel of one file can be an ordinary channel of another)."""
    opt = dl.Options(absent=False)
    records, passes = [], []
    taken = set()
    n_lf = rnd.randint(1, max_logical_files)
    layout = []
    for q in range(n_lf):
        records.append((True, 0, dl.file_header_set(rnd, opt, q + 1).encode(), False))
        s = dlis_origin_set(rnd)
        records.append((True, s.lr_type, s.encode(), False))
        if rnd.random() < 0.5:
            s = dlis_parameter_set(rnd)
            records.append((True, s.lr_type, s.encode(), False))
        n_types = rnd.choice([1, 1, 1, 2, 2, 0])
        frame_types, all_channels = [], []
        for k in range(n_types):
            n_ch = rnd.randint(1, 5)
            names = mnemonics(rnd, n_ch + 1, 2, 6, taken)
            if name_pool is not None and len([x for x in name_pool if x not in taken]) >= n_ch:
                names[:n_ch] = rnd.sample([x for x in name_pool if x not in taken], n_ch)
            taken.update(names)
            n = rnd.randint(1, max_frames)
            chans, models = [], []
            for c in range(n_ch):
                code = rnd.choice(DLIS_FLOAT_CODES + DLIS_FLOAT_CODES + DLIS_INT_CODES) if c else \
                    rnd.choice([dl.FSINGL, dl.FSINGL, dl.FDOUBL, dl.FDOUBL, dl.ISINGL, dl.VSINGL, dl.SLONG, dl.ULONG, dl.UNORM, dl.SNORM])
                dims = [1] if c == 0 else rnd.choice([[1], [1], [1], [2], [3], [5], [2, 3], [4, 1, 2]])
                units = rnd.choice(DLIS_UNITS)
                nm = ('OBNAME', rnd.choice([0, 1, 2]), rnd.randrange(2), names[c].encode('ascii'))
                ch = dl.Channel(nm, code, dims, safe_text(rnd, 3, 16).encode('ascii'), units)
                chans.append(ch)
                m = ChanModel(names[c], names[c], code in _INT_RANGE, _REL_EPS.get(code, 0.0), units.decode('ascii'))
                m.dims = tuple(dims)
                m.code = code
                models.append(m)
            ft = dl.FrameType(('OBNAME', rnd.choice([0, 1, 2]), rnd.randrange(2), names[n_ch].encode('ascii')), chans,
                              safe_text(rnd, 3, 16).encode('ascii') if rnd.random() < 0.6 else None)
            xs = _dlis_x_values(rnd, chans[0].code, n)
            number = rnd.choice([1, 1, 1, 2, 100])
            for i in range(n):
                vals, raws = [], []
                for c, ch in enumerate(chans):
                    if c == 0:
                        items, raw = [xs[i]], _dlis_encode_exact(ch.code, xs[i])
                    else:
                        pairs = [dlis_value(rnd, ch.code) for _ in range(ch.count)]
                        items, raw = [p[0] for p in pairs], b''.join(p[1] for p in pairs)
                    vals.append(items)
                    raws.append(raw)
                    models[c].frames.append(items)
                ft.frames.append(dict(number=number, values=vals, raw=raws))
                number += rnd.choice([1, 1, 1, 2])
            frame_types.append(ft)
            all_channels.extend(chans)
            p = PassModel()
            p.channels, p.nframes, p.x_units = models, n, models[0].units
            ident = names[n_ch]
            p.suffix = (lambda path, q=q, ident=ident: _rp66_las_name(path, q, ident))
            p.info = dict(logical_file=q, frame_array=ident, x_code=dl.CODE_NAME[chans[0].code])
            passes.append(p)
        if frame_types:
            rnd.shuffle(all_channels)
            cs, fs = dl.channel_set(rnd, opt, all_channels), dl.frame_set(rnd, opt, frame_types)
            records.append((True, cs.lr_type, cs.encode(), False))
            records.append((True, fs.lr_type, fs.encode(), False))
            live = list(frame_types)
            cursor = {id(ft): 0 for ft in frame_types}
            while live:
                ft = rnd.choice(live)
                fr = ft.frames[cursor[id(ft)]]
                cursor[id(ft)] += 1
                if cursor[id(ft)] == len(ft.frames):
                    live.remove(ft)
                records.append((False, 0, dl.iflr(ft.name, fr['number'], fr['raw']), False))
        else:
            p = PassModel()          # a logical file without frame data: a LAS file without curve and data sections
            p.channels, p.nframes = [], 0
            p.suffix = (lambda path, q=q: _rp66_las_name(path, q, ''))
            p.info = dict(logical_file=q, frame_array=None)
            passes.append(p)
        layout.append(n_types)
    data, _lay = gdlis.build(records, rnd, seg_max=rnd.choice([None, None, 100, 4000]))
    return Source('RP66V1', data, passes, dict(logical_files=layout))


def _rp66_las_name(path_out, lf, ident):
    import os
    return os.path.join(os.path.dirname(path_out), os.path.splitext(os.path.basename(path_out))[0] + '_%d_%s.las' % (lf, ident))


# ----------------------------------------------------------------------------------------------------------------------
# LIS
LIS_UNITS = [b'FEET', b'M   ', b'GAPI', b'PU  ', b'G/C3', b'IN  ', b'MV  ', b'OHMM', b'US/F', b'LB  ', b'S   ', b'MS  ']
LIS_INT_CODES = (73, 79, 66, 56)


def lis_value(rnd, rc):
    if rc == 68:
        k = rnd.random()
        if k < 0.1:
            return 0.0
        if k < 0.7:
            # 23 bit fraction: any double rounded to 23 significant bits
            m, e = math.frexp(rnd.uniform(-5000, 5000))
            return math.ldexp(round(m * (1 << 23)) / float(1 << 23), e)
        if k < 0.85:
            return rnd.randint(-(1 << 20), 1 << 20) / 8.0
        v = math.ldexp(rnd.randint(1 << 22, (1 << 23) - 1), rnd.randint(-40, 30) - 23)
        return v if rnd.random() < 0.5 else -v
    if rc == 73:
        return rnd.choice([rnd.randint(-(1 << 31), (1 << 31) - 1), rnd.randint(-1000, 1000), -(1 << 31), (1 << 31) - 1])
    if rc == 79:
        return rnd.choice([rnd.randint(-32768, 32767), rnd.randint(-100, 100), -32768, 32767])
    if rc == 66:
        return rnd.randint(0, 255)
    if rc == 56:
        return rnd.randint(-128, 127)
    if rc == 49:
        return rnd.randint(-2048, 2047) / 2048.0 * (1 << rnd.randint(0, 15))
    if rc == 50:
        return rnd.randint(-(1 << 14), 1 << 14) / 16.0
    if rc == 70:
        return rnd.randint(0, (1 << 31) - 1) / 65536.0        # non-negative: negative code 70 cannot be read (separate finding)
    raise AssertionError(rc)


def lis_cons_table(rnd, well_site=True):
    rows = []
    for m in rnd.sample([b'WN  ', b'FN  ', b'CN  ', b'COUN', b'STAT', b'NATI', b'BS  ', b'BHT ', b'MDEN', b'DFT '], rnd.randint(1, 4)):
        rc = rnd.choice([65, 65, 68])
        v = safe_text(rnd, 2, 10).encode('ascii') if rc == 65 else rnd.randint(-8000, 8000) / 8.0
        rows.append([(b'MNEM', b'', 65, m), (b'STAT', b'', 65, b'ALLO'), (b'PUNI', b'', 65, rnd.choice([b'    ', b'FEET', b'DEGF'])),
                     (b'TUNI', b'', 65, b'    '), (b'VALU', b'', rc, v)])
    return L.table_record(L.LR_WELL_SITE, b'CONS', rows)


def lis_pass(rnd, max_records=4, force_cons=None):
    """One LIS log pass: DFSR bytes, data record bytes and the model.  Channels have one sub channel; 1..3 samples x
    1..2 bursts (the converter reduces the values of a frame to one number)."""
    implied = rnd.random() < 0.5
    up_down = rnd.choice([1, 255, 0])
    sgn = -1 if up_down == 1 else 1
    nch = rnd.choice([1, 2, 2, 3, 3, 4, 5, 6])
    names = mnemonics(rnd, nch, 2, 4)
    chans = []
    for i in range(nch):
        if i == 0 and not implied:
            rc = rnd.choice([68, 68, 68, 73, 79])
            sa = bu = 1
        else:
            rc = rnd.choice([68] * 8 + [73, 79, 66, 56, 49, 50, 70])
            sa = rnd.choice([1, 1, 1, 1, 2, 3])
            bu = rnd.choice([1, 1, 1, 2])
        chans.append(dict(mnem=names[i].encode('ascii').ljust(4), units=rnd.choice(LIS_UNITS), rc=rc, sa=sa, bu=bu,
                          n=sa * bu, size=sa * bu * L.RC_SIZE[rc]))
    nrec = rnd.randint(1, max_records)
    base = rnd.choice([1, 2, 3, 4, 5, 6])
    k = rnd.random()
    if k < 0.5:
        fpr = [base] * nrec
    elif k < 0.8:
        fpr = [base] * (nrec - 1) + [rnd.randint(1, base)]
    else:
        fpr = [rnd.randint(1, 6) for _ in range(nrec)]
    n = sum(fpr)
    rec_first, rec_of = [], []
    for r, c in enumerate(fpr):
        rec_first.append(len(rec_of))
        rec_of.extend([r] * c)
    x_units = rnd.choice([b'FEET', b'M   ', b'S   ', b'MS  '])
    if implied:
        x_rc = rnd.choice([68, 68, 73, 79])
    else:
        x_rc = chans[0]['rc']
        chans[0]['units'] = x_units
    if x_rc == 68:
        spacing = rnd.choice([0.125, 0.25, 0.5, 0.5, 1.0, 2.5, 6.0])
        x0 = rnd.randint(800, 80000) / 8.0
    elif x_rc == 73:
        spacing = rnd.choice([1, 2, 5, 6, 60])
        x0 = rnd.randint(1000, 100000)
    else:
        spacing = rnd.choice([1, 2, 6])
        x0 = rnd.randint(1000, 2000)
    step = sgn * spacing
    xs = [x0 + step * f for f in range(n)]          # evenly spaced, no gaps between records
    frame_bytes = []
    models = []
    if implied:
        xm = ChanModel('X', None, x_rc != 68, 0.0, x_units.decode('ascii').strip())
        xm.frames = [[Fraction(v)] for v in xs]
        models.append(xm)
    for i, c in enumerate(chans):
        m = ChanModel(c['mnem'].decode('ascii').strip(), c['mnem'].decode('ascii').strip(), c['rc'] in LIS_INT_CODES, 2.0 ** -52,
                      c['units'].decode('ascii').strip())
        m.dims = (c['sa'], c['bu'])
        m.rc = c['rc']
        models.append(m)
    for f in range(n):
        fb = b''
        for i, c in enumerate(chans):
            items = []
            for v in range(c['n']):
                val = xs[f] if (i == 0 and not implied) else lis_value(rnd, c['rc'])
                fb += L.encode(c['rc'], val)
                items.append(Fraction(val))
            models[i + (1 if implied else 0)].frames.append(items)
        frame_bytes.append(fb)
    absent = -999.25
    ebs = [(1, 66, 0), (2, 66, 0), (4, 66, up_down), (13, 66, 1 if implied else 0),
           (8, 68 if isinstance(spacing, float) else rnd.choice([68, 73]), spacing), (9, 65, x_units), (12, 68, absent)]
    if implied:
        ebs += [(14, 65, x_units), (15, 66, x_rc)]
    ebs.sort()
    dfsr = L.dfsr([L.entry_block(*e) for e in ebs],
                  [L.datum_spec_block(c['mnem'], b'SRVC', b'1', c['units'], bytes([rnd.randint(0, 99) for _ in range(4)]), 1,
                                      c['size'], c['sa'], c['rc']) for c in chans])
    records = []
    for r, c in enumerate(fpr):
        ix = L.encode(x_rc, xs[rec_first[r]]) if implied else None
        records.append(L.data_record(0, frame_bytes[rec_first[r]:rec_first[r] + c], ix))
    p = PassModel()
    p.channels, p.nframes, p.x_units = models, n, x_units.decode('ascii').strip()
    p.info = dict(implied_x=implied, frames_per_record=fpr, x_rc=x_rc, up_down=up_down)
    p.implied, p.rec_first, p.rec_of = implied, rec_first, rec_of
    return dfsr, records, p


def lis_source(rnd, max_logical_files=2, cons='mostly'):
    """A LIS file: per logical file  header, 0..2 CONS tables, DFSR, data records, trailer.
    cons: 'always' every logical file has a CONS table before its DFSR; 'mostly' about 3 in 4."""
    lrs, passes, with_cons = [], [], []
    n_lf = rnd.randint(1, max_logical_files)
    for q in range(n_lf):
        name = b'FILE  .%03d' % (q + 1)
        fields = (name, b'SUBLVL', b'VERS 1.0', b'83/12/31', b' 1024', b'LO')
        lrs.append(L.file_header_trailer(128, *fields, b''))
        has = cons == 'always' or rnd.random() < 0.75
        with_cons.append(has)
        if has:
            for _ in range(rnd.choice([1, 1, 2])):
                lrs.append(lis_cons_table(rnd))
        dfsr, records, p = lis_pass(rnd)
        lrs.append(dfsr)
        lrs.extend(records)
        p.info['logical_file'] = q
        p.info['cons_table'] = has
        passes.append(p)
        lrs.append(L.file_header_trailer(129, *fields, b''))
    for i, p in enumerate(passes):
        p.suffix = '_%d.las' % i
    has_rec = rnd.random() < 0.3
    has_check = rnd.random() < 0.3
    file_num = rnd.choice([None, None, 3])
    tlen = (2 if has_rec else 0) + (2 if file_num is not None else 0) + (2 if has_check else 0)
    pr_len = rnd.choice([32 + tlen, 128, 1024, 65535, 65535])
    tif = rnd.choice(['none', 'none', 'tif', 'tif-reversed'])
    data, _starts = glis.build(lrs, pr_len, has_rec, file_num, has_check, tif != 'none', tif == 'tif-reversed')
    return Source('LIS', data, passes, dict(pr_len=pr_len, tif=tif, cons=with_cons))


# ----------------------------------------------------------------------------------------------------------------------
# BIT
def bit_value(rnd):
    """A number with at most 21 significant bits (always exactly representable as an IBM single)."""
    k = rnd.random()
    if k < 0.1:
        return Fraction(0)
    if k < 0.8:
        return Fraction(rnd.randint(-(1 << 20), 1 << 20), 1 << rnd.randint(0, 12))
    return Fraction(rnd.randint(-(1 << 20), 1 << 20)) * Fraction(2) ** rnd.randint(-30, 20)


def bit_source(rnd, max_passes=2, max_frames=14):
    passes, models = [], []
    for f in range(rnd.randint(1, max_passes)):
        nch = rnd.choice([1, 2, 3, 4, 5, 8, 20]) if rnd.random() < 0.9 else rnd.randint(1, 20)
        names = mnemonics(rnd, nch, 2, 4)
        n = rnd.randint(1, max_frames)
        spacing = rnd.choice([Fraction(1, 8), Fraction(1, 4), Fraction(1, 2), Fraction(1), Fraction(5, 2)])
        down = rnd.random() < 0.5
        x0 = Fraction(rnd.randint(800, 80000), 8)
        xs = [x0 + (-spacing if down else spacing) * i for i in range(n)]
        x_to = xs[-1] if n > 1 else (x0 - spacing if down else x0 + spacing)
        frames = [[bit_value(rnd) for _ in range(nch)] for _ in range(n)]
        passes.append(dict(names=[nm.encode('ascii') for nm in names], depth_from=x0, depth_to=x_to, spacing=spacing, frames=frames,
                           block_frames=rnd.choice([1, 2, 3, 5, 8, 100])))
        p = PassModel()
        xm = ChanModel('X', 'X   ', False, 0.0)
        xm.frames = [[v] for v in xs]
        p.channels = [xm]
        for c, nm in enumerate(names):
            m = ChanModel(nm, nm.ljust(4), False, 0.0)
            m.frames = [[frames[i][c]] for i in range(n)]
            p.channels.append(m)
        p.nframes = n
        p.suffix = '_%04d.las' % f
        p.info = dict(log_pass=f, block_frames=passes[-1]['block_frames'], down=down)
        models.append(p)
    return Source('BIT', gbit.build(passes, rnd), models)
