"""Independent LIS-79 physical record / TIF encoder (from LIS-79 section 2.3.1 and the TIF description in
LIS/core/TifMarker.py's docstring).  Shares no code with the repository."""
import struct


def physical_records(lr, pr_len, has_rec, file_num, has_check, rec_start=0):
    """Cut one logical record into physical records.  Returns list of bytes (one per PR) and the next record number."""
    tlen = (2 if has_rec else 0) + (2 if file_num is not None else 0) + (2 if has_check else 0)
    maxpay = pr_len - 4 - tlen
    assert maxpay >= 1
    out = []
    ofs = 0
    recno = rec_start
    base_attr = (0x0200 if has_rec else 0) | (0x0400 if file_num is not None else 0) | (0x1000 if has_check else 0)
    while ofs < len(lr):
        pay = lr[ofs:ofs + maxpay]
        attr = base_attr | (0x0001 if ofs + maxpay < len(lr) else 0) | (0x0002 if ofs > 0 else 0)
        b = struct.pack('>HH', 4 + len(pay) + tlen, attr) + pay
        if has_rec:
            b += struct.pack('>H', recno % 65536)
            recno += 1
        if file_num is not None:
            b += struct.pack('>H', file_num % 65536)
        if has_check:
            b += b'\x00\x00'          # checksum value is not checked by readers
        out.append(b)
        ofs += len(pay)
    return out, recno


def build(lrs, pr_len=65535, has_rec=False, file_num=None, has_check=False, tif=False, tif_big_endian=False):
    """Returns (file bytes, list of LR start positions)."""
    data = bytearray()
    starts = []
    recno = 0
    prev = 0
    fmt = '>3L' if tif_big_endian else '<3L'
    for lr in lrs:
        prs, recno = physical_records(lr, pr_len, has_rec, file_num, has_check, recno)
        starts.append(len(data))
        for pr in prs:
            if tif:
                tell = len(data)
                data += struct.pack(fmt, 0, prev, tell + 12 + len(pr))
                prev = tell
            data += pr
    if tif:
        for _ in range(2):
            tell = len(data)
            data += struct.pack(fmt, 1, prev, tell + 12)
            prev = tell
    return bytes(data), starts
