"""Independent RP66V1 *logical* layer writer used by standins/c18_xml.py: representation codes (Appendix B),
Explicitly Formatted Logical Records (section 3.2: set, template, objects, attributes) and Indirectly Formatted Logical
Records (section 3.3: frame data).  Written from the standard; shares no code with the repository.  The physical layer
is gen.dlis.  (gen/dlis_logical.py is a different, unrelated module that belongs to another stand-in.)

An EFLR is described by plain data:

    eflr = dict(lr_type=3, set_type=b'CHANNEL', set_name=b'' or None,
                template=[dict(label=b'UNITS', count=1, rc=27, units=b'', values=None), ...],
                objects=[dict(name=(O, C, I), attrs=[dict(count=..., rc=..., units=..., values=[...]) | None | 'absent', ...])])

encode_eflr() returns the bytes and resolve_eflr() returns, independently of the encoding choices, what a conformant
reader must see: per object the list of (label, count, rc, units, values-or-None) (None entry for an absent attribute).
"""
import math
import struct

# Representation codes
FSINGL, ISINGL, VSINGL, FDOUBL = 2, 5, 6, 7
SSHORT, SNORM, SLONG, USHORT, UNORM, ULONG, UVARI, IDENT, ASCII, DTIME, ORIGIN, OBNAME, OBJREF, STATUS, UNITS = \
    12, 13, 14, 15, 16, 17, 18, 19, 20, 21, 22, 23, 24, 26, 27

REP_CODE_NAME = {2: 'FSINGL', 5: 'ISINGL', 6: 'VSINGL', 7: 'FDOUBL', 12: 'SSHORT', 13: 'SNORM', 14: 'SLONG', 15: 'USHORT',
                 16: 'UNORM', 17: 'ULONG', 18: 'UVARI', 19: 'IDENT', 20: 'ASCII', 21: 'DTIME', 22: 'ORIGIN', 23: 'OBNAME',
                 24: 'OBJREF', 26: 'STATUS', 27: 'UNITS'}


def uvari(n, width=None):
    """B.18: 1, 2 or 4 bytes; width forces a (legal) longer form."""
    assert 0 <= n < 2 ** 30
    if width is None:
        width = 1 if n < 0x80 else 2 if n < 0x4000 else 4
    if width == 1:
        assert n < 0x80
        return bytes([n])
    if width == 2:
        assert n < 0x4000
        return struct.pack('>H', 0x8000 | n)
    return struct.pack('>L', 0xC0000000 | n)


def ident(b):
    assert len(b) < 256
    return bytes([len(b)]) + bytes(b)


def ascii_(b):
    return uvari(len(b)) + bytes(b)


def obname(name):
    o, c, i = name
    return uvari(o) + bytes([c]) + ident(i)


def objref(v):
    t, name = v
    return ident(t) + obname(name)


def dtime(v):
    """v = (year, tz, month, day, hour, minute, second, millisecond)"""
    y, tz, mo, d, h, mi, s, ms = v
    return bytes([y - 1900, (tz << 4) | mo, d, h, mi, s]) + struct.pack('>H', ms)


def vsingl(v):
    """B.6 VAX F floating: value = (-1)^S * 0.1M * 2^(E-128); stored as two little-endian 16 bit words.
    Only exactly representable values are accepted."""
    if v == 0:
        return b'\x00\x00\x00\x00'
    m, e = math.frexp(abs(v))      # abs(v) = m * 2**e, 0.5 <= m < 1
    frac = m * 2 ** 24            # 24 bit mantissa including the hidden leading 1
    assert frac == int(frac), 'not representable'
    frac = int(frac) & 0x7FFFFF
    word = ((1 if v < 0 else 0) << 31) | ((e + 128) << 23) | frac
    b = struct.pack('>L', word)
    return bytes([b[1], b[0], b[3], b[2]])


def isingl(v):
    """B.5 IBM single: (-1)^S * 0.M * 16^(E-64).  Only exactly representable values are accepted."""
    if v == 0:
        return b'\x00\x00\x00\x00'
    a = abs(v)
    e = 64
    while a >= 1:
        a /= 16
        e += 1
    while a < 1 / 16:
        a *= 16
        e -= 1
    m = a * 2 ** 24
    assert m == int(m), 'not representable'
    return struct.pack('>L', ((1 if v < 0 else 0) << 31) | (e << 24) | int(m))


ENCODERS = {
    FSINGL: lambda v: struct.pack('>f', v),
    ISINGL: isingl,
    VSINGL: vsingl,
    FDOUBL: lambda v: struct.pack('>d', v),
    SSHORT: lambda v: struct.pack('>b', v),
    SNORM: lambda v: struct.pack('>h', v),
    SLONG: lambda v: struct.pack('>l', v),
    USHORT: lambda v: struct.pack('>B', v),
    UNORM: lambda v: struct.pack('>H', v),
    ULONG: lambda v: struct.pack('>L', v),
    UVARI: uvari,
    IDENT: ident,
    ASCII: ascii_,
    DTIME: dtime,
    ORIGIN: uvari,
    OBNAME: obname,
    OBJREF: objref,
    STATUS: lambda v: bytes([v]),
    UNITS: ident,
}


def encode_value(rc, v):
    return ENCODERS[rc](v)


# ---- EFLR (section 3.2.2) ----
ROLE_ABSATR, ROLE_ATTRIB, ROLE_INVATR, ROLE_OBJECT, ROLE_SET = 0x00, 0x20, 0x40, 0x60, 0xE0
DEFAULT = dict(label=b'', count=1, rc=IDENT, units=b'', values=None)


def _attribute_component(role, label=None, count=None, rc=None, units=None, values=None, value_rc=None):
    """One attribute component: only the characteristics that are not None are written."""
    d = role | (0x10 if label is not None else 0) | (0x08 if count is not None else 0) | (0x04 if rc is not None else 0) \
        | (0x02 if units is not None else 0) | (0x01 if values is not None else 0)
    out = bytes([d])
    if label is not None:
        out += ident(label)
    if count is not None:
        out += uvari(count)
    if rc is not None:
        out += bytes([rc])
    if units is not None:
        out += ident(units)
    if values is not None:
        for v in values:
            out += encode_value(value_rc, v)
    return out


def encode_eflr(eflr, rnd=None):
    """Returns the logical record body.  rnd (random.Random) varies the legal encoding choices: whether a characteristic
    equal to the inherited one is written explicitly, and whether trailing attributes equal to the template are omitted."""
    out = bytearray()
    if eflr.get('set_name') is None:
        out += bytes([ROLE_SET | 0x10]) + ident(eflr['set_type'])
    else:
        out += bytes([ROLE_SET | 0x18]) + ident(eflr['set_type']) + ident(eflr['set_name'])
    for t in eflr['template']:
        # label always written; the others only when they differ from the global default (or at random)
        def pick(key):
            if t[key] != DEFAULT[key] or (rnd is not None and rnd.random() < 0.3):
                return t[key]
            return None
        out += _attribute_component(ROLE_ATTRIB, t['label'], pick('count'), pick('rc'), pick('units'), t['values'], t['rc'])
    for obj in eflr['objects']:
        out += bytes([ROLE_OBJECT | 0x10]) + obname(obj['name'])
        attrs = list(obj['attrs'])
        # trailing attributes that are None (= as template) may be omitted altogether; at least one component is kept
        keep = len(attrs)
        while keep > 1 and attrs[keep - 1] is None and (rnd is None or rnd.random() < 0.7):
            keep -= 1
        for k in range(keep):
            a, t = attrs[k], eflr['template'][k]
            if a == 'absent':
                out += bytes([ROLE_ABSATR])
            elif a is None:
                out += bytes([ROLE_ATTRIB])         # all characteristics from the template
            else:
                def pick(key):
                    if key in a and (a[key] != t[key] or (rnd is not None and rnd.random() < 0.3)):
                        return a[key]
                    return None
                rc = a.get('rc', t['rc'])
                cnt = a.get('count', t['count'])
                values = a.get('values')
                if values is not None:
                    assert len(values) == cnt, (values, cnt)
                out += _attribute_component(ROLE_ATTRIB, None, pick('count'), pick('rc'), pick('units'), values, rc)
    return bytes(out)


def resolve_eflr(eflr):
    """What the table says: list over objects of (name, [(label, count, rc, units, values) | None])."""
    res = []
    for obj in eflr['objects']:
        row = []
        for k, t in enumerate(eflr['template']):
            a = obj['attrs'][k] if k < len(obj['attrs']) else None
            if a == 'absent':
                row.append(None)
            elif a is None:
                row.append((t['label'], t['count'], t['rc'], t['units'], t['values']))
            else:
                row.append((t['label'], a.get('count', t['count']), a.get('rc', t['rc']), a.get('units', t['units']),
                            a['values'] if a.get('values') is not None else t['values']))
        res.append((obj['name'], row))
    return res


# ---- IFLR (section 3.3) ----
def encode_iflr(frame_name, frame_number, channel_values):
    """channel_values: list of (rep code, [values...]) in channel order."""
    out = bytearray(obname(frame_name) + uvari(frame_number))
    for rc, vals in channel_values:
        for v in vals:
            out += encode_value(rc, v)
    return bytes(out)


def storage_unit_label(seq=1, maxlen=8192, ident_=b'Default Storage Set'):
    """2.3.2: 4 + 5 + 6 + 5 + 60 = 80 bytes."""
    assert len(ident_) <= 60
    b = (b'%4d' % seq) + b'V1.00' + b'RECORD' + (b'%5d' % maxlen) + ident_.ljust(60)
    assert len(b) == 80
    return b
