"""Independent RP66V1 physical-layer writer (from the standard, sections 2.2.2, 2.3.2, 2.3.6): builds a file
from logical records and a segmentation plan and returns the bytes together with the layout it encoded.
Used as replay / cross-check oracle; shares no code with the repository."""
import random


def sul(seq=1, maxlen=8192, ident=b'Default Storage Set'):
    return (b'%4d' % seq) + b'V1.00' + b'RECORD' + (b'%5d' % maxlen) + ident.ljust(60)[:60]


def build(records, rnd, vr_max=None, seg_max=None):
    """records: list of (is_eflr, lr_type, payload bytes, encrypted).  Returns (file bytes, layout dict)."""
    segs = []   # (lr index, first, last, attr, type, payload, body bytes)
    for k, (eflr, lrtype, payload, enc) in enumerate(records):
        # cut the payload into pieces
        pieces = []
        rest = payload
        while True:
            lim = rnd.choice([12, 13, 16, 20, 40, 100]) if seg_max is None else seg_max
            if len(rest) <= lim:
                pieces.append(rest)
                break
            pieces.append(rest[:lim])
            rest = rest[lim:]
        for i, pc in enumerate(pieces):
            first, last = i == 0, i == len(pieces) - 1
            chk = rnd.random() < 0.3
            trl = rnd.random() < 0.3
            body = bytearray(pc)
            tail = (b'\xab\xcd' if chk else b'')
            # total = 4 + len(body) + pad + tail (+2 trailing length) must be even and >= 16
            total = 4 + len(body) + len(tail) + (2 if trl else 0)
            pad = 0
            want_pad = rnd.random() < 0.4
            while total + pad < 16 or (total + pad) % 2 or (want_pad and pad == 0):
                pad += 1
            if pad:
                body += bytes([1] * (pad - 1)) + bytes([pad])    # pad count in the last byte
            total += pad
            attr = (0x80 if eflr else 0) | (0 if first else 0x40) | (0 if last else 0x20) | (0x10 if enc else 0) \
                | (0x04 if chk else 0) | (0x02 if trl else 0) | (0x01 if pad else 0)
            seg = bytes([total >> 8, total & 0xff, attr, lrtype]) + bytes(body) + tail + (bytes([total >> 8, total & 0xff]) if trl else b'')
            assert len(seg) == total
            segs.append(dict(lr=k, first=first, last=last, attr=attr, type=lrtype, payload=bytes(pc), bytes=seg, pad=pad))
    # pack segments into visible records
    out = bytearray(sul())
    lay = dict(sg_pos=[], sg_len=[], sg_attr=[], sg_type=[], sg_vrp=[], sg_vrl=[], sg_lr=[], payload=[])
    i = 0
    while i < len(segs):
        lim = vr_max or rnd.choice([20, 40, 64, 200, 8192])
        group = [segs[i]]
        size = 4 + len(segs[i]['bytes'])
        i += 1
        while i < len(segs) and size + len(segs[i]['bytes']) <= lim:
            group.append(segs[i])
            size += len(segs[i]['bytes'])
            i += 1
        vrp = len(out)
        out += bytes([size >> 8, size & 0xff, 0xff, 0x01])
        for sg in group:
            lay['sg_pos'].append(len(out))
            lay['sg_len'].append(len(sg['bytes']))
            lay['sg_attr'].append(sg['attr'])
            lay['sg_type'].append(sg['type'])
            lay['sg_vrp'].append(vrp)
            lay['sg_vrl'].append(size)
            lay['sg_lr'].append(sg['lr'])
            lay['payload'].append(sg['payload'] if not (sg['attr'] & 0x10) else sg['payload'] + sg['bytes'][4 + len(sg['payload']):4 + len(sg['payload']) + sg['pad']])
            out += sg['bytes']
    return bytes(out), lay


def random_records(rnd, n=None):
    recs = []
    for _ in range(n or rnd.randint(1, 5)):
        ln = rnd.choice([0, 1, 5, 12, 24, 30, 57, 130])
        recs.append((rnd.random() < 0.5, rnd.randint(0, 5), bytes(rnd.randrange(256) for _ in range(ln)), False))
    return recs
