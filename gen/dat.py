"""Independent generator of DAT mud-log text (the informal format described in the module docstring of
TotalDepth/DAT/DAT_parser.py and illustrated by example_data/DAT/data/example.dat).  Shares no code with the repository.

A file is three sections:

1. channel declarations, one per line:  MNEM <free text description> UNITS   (whitespace separated, any order),
2. one header line:  UTIM DATE TIME <non-empty list of other declared mnemonics>   (defines the column order),
3. data rows: one whitespace separated value per header name.  UTIM is integer Unix seconds, DATE is written
   09Dec06 or 09-Dec-06 (day possibly unpadded, two digit year, 51..99 -> 19xx, 00..50 -> 20xx), TIME is hh-mm-ss, everything
   else is a decimal number.

The model (Model) is the ground truth; model_lines() lays it out as structured lines (tokens + separators) so that
corruptions() can damage exactly one line in a controlled way; render() gives the text.
"""
import datetime
import re
from fractions import Fraction

MONTHS = ['Jan', 'Feb', 'Mar', 'Apr', 'May', 'Jun', 'Jul', 'Aug', 'Sep', 'Oct', 'Nov', 'Dec']
EPOCH = datetime.datetime(1970, 1, 1)
#: Dates that a two digit year can express under the 51..99 -> 19xx, 00..50 -> 20xx reading.
DATE_MIN = datetime.date(1951, 1, 1)
DATE_MAX = datetime.date(2050, 12, 31)
UTIM_MAX_CONSISTENT = int((datetime.datetime(2050, 12, 31, 23, 59, 59) - EPOCH).total_seconds())

FIXED = {'UTIM': 'sec', 'DATE': 'ddmmyy', 'TIME': 'hhmmss'}

_WORDS = ['Unix', 'Time', 'Date', 'Wits', 'Activity', 'Code', 'Bit', 'Diameter', 'Measured', 'Depth', 'Hole', 'Vertical',
          'Pulling', 'Speed', 'Swab', 'Pressure', 'Gradient', 'ROP', 'Block', 'Position', 'Hookload', 'Weight', 'on',
          'Torque', 'String', 'RPM', 'Pump', 'at', 'Weakest', 'Tank', 'Volume', 'Pit', '1', '2', 'n-Pentane',
          'iso-Butane', 'Flow', 'In', 'Out', '(avg)', 'ECD', 'H2S', 'Total', 'm3', 'C1/C2', '%', '#3', "Driller's"]
_UNITS = ['unitless', 'inch', 'm', 'm/sec', 'g/cc', 'm/hr', 'tons', 'kNm', 'rpm', 'hr', 'bar', 'm3', 'l/min', 'ppm', '%',
          'degC', 'sec', 'ddmmyy', 'hhmmss', 'ft', 'psi', 'kPa', '1/min', 'S/m', 'us/ft', 'API', '-', 'M', 'UTIM']
_PRINTABLE_WORD_CHARS = ''.join(chr(c) for c in range(33, 127))


class Channel:
    def __init__(self, name, desc_words, units):
        self.name, self.desc_words, self.units = name, list(desc_words), units

    @property
    def description(self):
        return ' '.join(self.desc_words)


class Num:
    """A numeric value as written (text) and its correctly rounded double (value), computed from the exact rational."""
    def __init__(self, text, value):
        self.text, self.value = text, value


class Row:
    def __init__(self, utim, date, time, date_style, day_pad, nums):
        self.utim, self.date, self.time, self.date_style, self.day_pad, self.nums = utim, date, time, date_style, day_pad, nums

    @property
    def utim_text(self):
        return str(self.utim)

    @property
    def date_text(self):
        return date_text(self.date, self.date_style, self.day_pad)

    @property
    def time_text(self):
        return '%02d-%02d-%02d' % (self.time.hour, self.time.minute, self.time.second)

    @property
    def utim_value(self):
        return EPOCH + datetime.timedelta(seconds=self.utim)


class Model:
    def __init__(self, declared, header, rows):
        self.declared = declared      # list of Channel in declaration order (includes UTIM, DATE, TIME)
        self.header = header          # list of names: UTIM DATE TIME + non-empty selection of the others
        self.rows = rows              # list of Row; row.nums is aligned with header[3:]

    def channel(self, name):
        for c in self.declared:
            if c.name == name:
                return c
        raise KeyError(name)

    def expected(self):
        """[(name, description, units, kind, [values...])] in header order; kind in utim/date/time/num."""
        out = []
        for i, name in enumerate(self.header):
            c = self.channel(name)
            if i == 0:
                kind, vals = 'utim', [r.utim_value for r in self.rows]
            elif i == 1:
                kind, vals = 'date', [r.date for r in self.rows]
            elif i == 2:
                kind, vals = 'time', [r.time for r in self.rows]
            else:
                kind, vals = 'num', [r.nums[i - 3].value for r in self.rows]
            out.append((name, c.description, c.units, kind, vals))
        return out


def date_text(d, style, pad):
    day = ('%02d' if pad else '%d') % d.day
    yy = '%02d' % (d.year % 100)
    if style == 'A':
        return day + MONTHS[d.month - 1] + yy
    return day + '-' + MONTHS[d.month - 1] + '-' + yy


def num_token(rng):
    """A decimal number in one of the spellings seen in mud-log files, with its exact value rounded once to double."""
    style = rng.choice(['int', 'int', 'fixed', 'fixed', 'fixed', 'fixed', 'exp', 'zero', 'bare'])
    sign = rng.choice(['', '', '', '', '-', '-', '+'])
    e = 0
    if style == 'int':
        digits = str(rng.randrange(10 ** rng.randint(1, 9)))
        if rng.random() < 0.1:
            digits = '0' * rng.randint(1, 2) + digits
        text, m, k = digits, int(digits), 0
    elif style == 'zero':
        text = rng.choice(['0', '0.0', '0.00', '0.0000', '00'])
        m, k = 0, 0
    elif style == 'bare':
        d = ''.join(rng.choice('0123456789') for _ in range(rng.randint(1, 4)))
        if rng.random() < 0.5:
            text, m, k = '.' + d, int(d), len(d)
        else:
            text, m, k = d + '.', int(d), 0
    else:
        ip = str(rng.randrange(10 ** rng.randint(1, 7)))
        fp = ''.join(rng.choice('0123456789') for _ in range(rng.randint(1, rng.choice([2, 4, 10]))))
        text, m, k = ip + '.' + fp, int(ip + fp), len(fp)
        if style == 'exp':
            e = rng.randint(-30, 30)
            text += rng.choice('eE') + rng.choice(['', '+'] if e >= 0 else ['-']) + ('%02d' if rng.random() < 0.5 else '%d') % abs(e)
    q = Fraction(m, 10 ** k) * Fraction(10) ** e
    value = float(q)
    if sign == '-':
        value = -value     # gives -0.0 for zero, as IEEE sign of "-0" demands
    return Num(sign + text, value)


def _name(rng, taken):
    while True:
        n = rng.choice('ABCDEFGHIJKLMNOPQRSTUVWXYZ') + ''.join(
            rng.choice('ABCDEFGHIJKLMNOPQRSTUVWXYZ0123456789') for _ in range(rng.randint(0, 5)))
        if n not in taken:
            return n


def _word(rng):
    if rng.random() < 0.8:
        return rng.choice(_WORDS)
    return ''.join(rng.choice(_PRINTABLE_WORD_CHARS) for _ in range(rng.randint(1, 8)))


def _desc(rng, name):
    while True:
        words = [_word(rng) for _ in range(rng.randint(1, 5))]
        # A declaration must not itself read as the section 2 header ("UTIM DATE TIME ...").
        if not (name == 'UTIM' and words[0] == 'DATE'):
            return words


def random_row(rng, n_num, date_styles):
    if rng.random() < 0.5:
        utim = rng.randrange(0, UTIM_MAX_CONSISTENT + 1)
        dt = EPOCH + datetime.timedelta(seconds=utim)
        date, time = dt.date(), dt.time()
    else:
        # The three columns are independent text columns; unrelated values expose any cross-column confusion.
        utim = rng.choice([0, 1, 2 ** 31 - 1, 2 ** 31, 2 ** 32, rng.randrange(0, 2 ** 32), rng.randrange(0, 2 ** 32)])
        date = rng.choice([DATE_MIN, DATE_MAX, datetime.date(2000, 2, 29), datetime.date(1999, 12, 31),
                           datetime.date(2050, 1, 1), datetime.date(1951, 12, 31)] +
                          [DATE_MIN + datetime.timedelta(days=rng.randrange((DATE_MAX - DATE_MIN).days + 1))] * 6)
        time = rng.choice([datetime.time(0, 0, 0), datetime.time(23, 59, 59),
                           datetime.time(rng.randrange(24), rng.randrange(60), rng.randrange(60))])
    return Row(utim, date, time, rng.choice(date_styles), rng.random() < 0.7, [num_token(rng) for _ in range(n_num)])


def random_model(rng, max_other=12, max_rows=12):
    n_other = rng.randint(1, max_other)
    taken = set(FIXED)
    others = []
    for _ in range(n_other):
        n = _name(rng, taken)
        taken.add(n)
        others.append(Channel(n, _desc(rng, n), rng.choice(_UNITS)))
    fixed = [Channel(n, ['Unix', 'Time'] if n == 'UTIM' and rng.random() < 0.5 else _desc(rng, n), u) for n, u in FIXED.items()]
    declared = fixed + others
    if rng.random() < 0.7:
        rng.shuffle(declared)          # "Order of this section is ignored."
    k = n_other if rng.random() < 0.3 else rng.randint(1, n_other)
    chosen = rng.sample([c.name for c in others], k)     # any non-empty subset, any order
    header = ['UTIM', 'DATE', 'TIME'] + chosen
    r = rng.random()
    n_rows = 0 if r < 0.1 else 1 if r < 0.25 else rng.randint(2, max_rows)
    date_styles = rng.choice([['A'], ['B'], ['A', 'B']])
    rows = [random_row(rng, k, date_styles) for _ in range(n_rows)]
    return Model(declared, header, rows)


# ---------------------------------------------------------------------------------------------------------------- layout
class Line:
    """kind: decl/header/row; ref: declared channel name or row index; text is lead + tokens joined by seps + trail."""
    def __init__(self, kind, tokens, seps, lead='', trail='', ref=None):
        assert len(seps) == max(len(tokens) - 1, 0)
        self.kind, self.tokens, self.seps, self.lead, self.trail, self.ref = kind, list(tokens), list(seps), lead, trail, ref

    def copy(self):
        return Line(self.kind, self.tokens, self.seps, self.lead, self.trail, self.ref)

    def text(self):
        s = self.lead
        for i, t in enumerate(self.tokens):
            if i:
                s += self.seps[i - 1]
            s += t
        return s + self.trail


def _sep(rng, style):
    if style == 'space':
        return ' '
    if style == 'tab':
        return '\t'
    if style == 'spaces':
        return ' ' * rng.randint(1, 4)
    return ''.join(rng.choice(' \t') for _ in range(rng.randint(1, 3)))


def model_lines(model, rng):
    style = rng.choice(['space', 'space', 'tab', 'spaces', 'mixed'])
    trail = rng.choice(['', '', ' ', '\t', '  '])

    def line(kind, tokens, ref):
        lead = rng.choice(['', ' ', '\t']) if rng.random() < 0.05 else ''
        return Line(kind, tokens, [_sep(rng, style) for _ in tokens[1:]], lead, trail if rng.random() < 0.8 else '', ref)

    lines = [line('decl', [c.name] + c.desc_words + [c.units], c.name) for c in model.declared]
    lines.append(line('header', model.header, None))
    for i, r in enumerate(model.rows):
        lines.append(line('row', [r.utim_text, r.date_text, r.time_text] + [n.text for n in r.nums], i))
    return lines


def render(lines, eol='\n', final_eol=True):
    s = eol.join(l.text() for l in lines)
    return s + eol if final_eol and lines else s


# ----------------------------------------------------------------------------------------------------------- corruptions
RE_LEX = {
    'utim': re.compile(r'^[+-]?[0-9]+$'),
    'date': re.compile(r'^[0-9]{1,2}(-?)(?:Jan|Feb|Mar|Apr|May|Jun|Jul|Aug|Sep|Oct|Nov|Dec)\1[0-9]{2}$'),
    'time': re.compile(r'^[0-9]{2}-[0-9]{2}-[0-9]{2}$'),
    'num': re.compile(r'^[+-]?(?:[0-9]+\.?[0-9]*|\.[0-9]+)(?:[eE][+-]?[0-9]+)?$'),
}

JUNK = {
    'utim': ['abc', '1.5', '12e3', '11-50-17', '09Dec06', '--', '0x10', '1,165'],
    'date': ['31Feb06', '00Jan06', '32-Dec-06', '09Dez06', '9Dec', '091206', '2006-12-09', '09/Dec/06', '09-Dec06', 'Dec0906',
             '29Feb01', '09dec06'],
    'time': ['24-00-00', '11-60-17', '11-50-60', '115017', '11:50:17', '11-50', '11-50-17-00', 'noon', '1e3'],
    'num': ['abc', '1.2.3', '0x10', '1,5', '--1', '1e', 'e5', '09Dec06', '11-50-17', '1.5m', '-', '.'],
}


def col_kind(i):
    return ['utim', 'date', 'time'][i] if i < 3 else 'num'


def _replace(lines, idx, new_line):
    out = list(lines)
    if new_line is None:
        del out[idx]
    else:
        out[idx] = new_line
    return out


def _without_token(line, j):
    l = line.copy()
    del l.tokens[j]
    if l.seps:
        del l.seps[min(j, len(l.seps) - 1)]
    return l


def _with_token(line, j, tok, sep=' '):
    l = line.copy()
    l.tokens.insert(j, tok)
    l.seps.insert(min(j, len(l.seps)), sep)
    return l


def _fresh_name(rng, model):
    return _name(rng, set(c.name for c in model.declared))


def corruptions(model, lines, rng, per_class=2):
    """Yields (class, detail, new_lines, first_damaged_line_index).  Every yielded text differs from the valid one in exactly
    one line (changed, blanked or deleted) and, by construction of the format, cannot be read as a DAT file: either a data
    row no longer matches the header (count or lexical type of a column), or the header names something not declared (or
    twice), or a needed declaration is gone / malformed."""
    n_decl = len(model.declared)
    h = n_decl                                   # index of the header line
    n_rows = len(model.rows)
    ncol = len(model.header)
    unused = [c.name for c in model.declared if c.name not in model.header]

    def rows_pick():
        if n_rows == 0:
            return []
        picks = {0, n_rows - 1}
        while len(picks) < min(per_class, n_rows):
            picks.add(rng.randrange(n_rows))
        return sorted(picks)

    # ---- data rows that do not match the header
    for r in rows_pick():
        i = h + 1 + r
        L = lines[i]
        j = rng.randrange(ncol)
        yield 'row_drop_token', {'row': r, 'col': j}, _replace(lines, i, _without_token(L, j)), i
        j = rng.randrange(ncol + 1)
        yield 'row_extra_token', {'row': r, 'pos': j}, _replace(lines, i, _with_token(L, j, num_token(rng).text)), i
        j = rng.randrange(ncol - 1)
        l = L.copy()
        l.tokens[j:j + 2] = [l.tokens[j] + l.tokens[j + 1]]
        del l.seps[j]
        yield 'row_merge_tokens', {'row': r, 'col': j}, _replace(lines, i, l), i
        cand = [j for j in range(ncol) if len(L.tokens[j]) >= 2]
        j = rng.choice(cand)
        p = rng.randrange(1, len(L.tokens[j]))
        l = L.copy()
        l.tokens[j:j + 1] = [L.tokens[j][:p], L.tokens[j][p:]]
        l.seps.insert(min(j, len(l.seps)), rng.choice([' ', '\t']))
        yield 'row_split_token', {'row': r, 'col': j, 'at': p}, _replace(lines, i, l), i
        # (a last line that is completely empty is no line at all when the file has no final newline: keep a blank in it)
        blank = rng.choice([' ', '\t ']) if r == n_rows - 1 else rng.choice(['', ' ', '\t '])
        yield 'row_blank', {'row': r, 'content': blank}, _replace(lines, i, Line('row', [], [], '', blank)), i
        yield 'row_is_header_again', {'row': r}, _replace(lines, i, lines[h].copy()), i
        # two columns exchanged so that at least one value is not of the lexical type of its new column
        pairs = [(a, b) for a in range(ncol) for b in range(a + 1, ncol)
                 if col_kind(a) != col_kind(b) and not (RE_LEX[col_kind(a)].match(L.tokens[b]) and RE_LEX[col_kind(b)].match(L.tokens[a]))]
        if pairs:
            a, b = rng.choice(pairs)
            l = L.copy()
            l.tokens[a], l.tokens[b] = l.tokens[b], l.tokens[a]
            yield 'row_swap_columns', {'row': r, 'cols': [a, b]}, _replace(lines, i, l), i
        for kind in ('utim', 'date', 'time', 'num'):
            cols = [j for j in range(ncol) if col_kind(j) == kind]
            j = rng.choice(cols)
            junk = rng.choice(JUNK[kind])
            assert not RE_LEX[kind].match(junk) or kind in ('date', 'time')
            l = L.copy()
            l.tokens[j] = junk
            yield 'row_bad_' + kind, {'row': r, 'col': j, 'value': junk}, _replace(lines, i, l), i
        # UTIM integers no calendar can hold
        # (67767976233532800 is the first second of year 2**31; -67768040609740800 the first second of year 1900-2**31, the
        # least that the C library's struct tm can express)
        for v in (253402300800, 10 ** 12, 67767976233532799, -62135596801, -10 ** 11, -67768040609740800,
                  67767976233532800, 67768036191676800, 10 ** 17, 2 ** 63, 10 ** 20, -67768040609740801, -10 ** 20):
            l = L.copy()
            l.tokens[0] = str(v)
            yield 'row_utim_out_of_range', {'row': r, 'value': v}, _replace(lines, i, l), i

    # ---- header naming something undeclared / twice / not matching the rows
    H = lines[h]
    for _ in range(per_class):
        j = rng.randrange(3, ncol)
        l = H.copy()
        l.tokens[j] = _fresh_name(rng, model)
        yield 'header_undeclared_replace', {'pos': j, 'name': l.tokens[j]}, _replace(lines, h, l), h
        j = rng.randrange(3, ncol + 1)
        nm = _fresh_name(rng, model)
        yield 'header_undeclared_insert', {'pos': j, 'name': nm}, _replace(lines, h, _with_token(H, j, nm)), h
        j = rng.randrange(3, ncol)
        l = H.copy()
        l.tokens[j] = l.tokens[j].lower()
        yield 'header_lowercase_name', {'pos': j}, _replace(lines, h, l), h
        j = rng.randrange(3, ncol + 1)
        nm = rng.choice(model.header)
        yield 'header_duplicate_name', {'pos': j, 'name': nm}, _replace(lines, h, _with_token(H, j, nm)), h
        j = rng.randrange(3)
        l = H.copy()
        l.tokens[j] = rng.choice(['XTIM', 'DATES', 'TIM', 'utim', 'Date'])
        yield 'header_bad_fixed_name', {'pos': j, 'name': l.tokens[j]}, _replace(lines, h, l), h
        if n_rows >= 1 or ncol == 4:
            j = rng.randrange(3, ncol)
            yield 'header_drop_name', {'pos': j}, _replace(lines, h, _without_token(H, j)), h
        if n_rows >= 1 and unused:
            j = rng.randrange(3, ncol + 1)
            nm = rng.choice(unused)
            yield 'header_extra_declared_name', {'pos': j, 'name': nm}, _replace(lines, h, _with_token(H, j, nm)), h
    yield 'header_blank', {}, _replace(lines, h, Line('header', [], [])), h
    yield 'header_deleted', {}, _replace(lines, h, None), h
    yield 'header_only_fixed', {}, _replace(lines, h, Line('header', H.tokens[:3], H.seps[:2], H.lead, H.trail)), h

    # ---- declarations of channels that the header names
    named = [i for i in range(n_decl) if lines[i].ref in model.header]
    for _ in range(per_class):
        i = rng.choice(named)
        D = lines[i]
        yield 'decl_deleted', {'name': D.ref}, _replace(lines, i, None), i
        yield 'decl_blank', {'name': D.ref}, _replace(lines, i, Line('decl', [], [])), i
        l = D.copy()
        l.tokens[0] = _fresh_name(rng, model)
        yield 'decl_renamed', {'name': D.ref, 'to': l.tokens[0]}, _replace(lines, i, l), i
        l = D.copy()
        l.tokens[0] = l.tokens[0].lower()
        yield 'decl_lowercase_name', {'name': D.ref}, _replace(lines, i, l), i
        # fewer than the three fields "A B C" (a single blank between the two that remain, so nothing can pass for B)
        toks = [D.tokens[0]] + ([D.tokens[-1]] if rng.random() < 0.5 else [])
        l = Line('decl', toks, [' '] * (len(toks) - 1), D.lead, '')
        yield 'decl_truncated', {'name': D.ref, 'tokens': len(l.tokens)}, _replace(lines, i, l), i


def fuzz_line(lines, rng):
    """One line damaged by 1..3 random character edits; nothing is known about the result except that it is still text."""
    i = rng.randrange(len(lines))
    s = list(lines[i].text())
    alphabet = _PRINTABLE_WORD_CHARS + '  \t\t--..0123456789eE'
    for _ in range(rng.randint(1, 3)):
        op = rng.choice(['ins', 'del', 'rep'])
        if op == 'ins' or not s:
            s.insert(rng.randrange(len(s) + 1), rng.choice(alphabet))
        elif op == 'del':
            del s[rng.randrange(len(s))]
        else:
            s[rng.randrange(len(s))] = rng.choice(alphabet)
    out = list(lines)
    out[i] = Line(lines[i].kind, [''.join(s)], [], '', '', lines[i].ref)
    return out, i
