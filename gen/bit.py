"""Independent Western Atlas BIT writer (from the format notes in BIT/ReadBIT.py's module docstring and the IBM
hexadecimal floating point definition).  Shares no code with the repository."""
import struct
from fractions import Fraction


def ibm_bytes(x):
    """IBM System/360 single precision bytes of a number that is exactly representable (fraction with 24 bits)."""
    x = Fraction(x)
    if x == 0:
        return b'\x00\x00\x00\x00'
    sign = 0x80 if x < 0 else 0
    x = abs(x)
    e = 64
    while x >= 1:
        x /= 16
        e += 1
    while x < Fraction(1, 16):
        x *= 16
        e -= 1
    m = x * (1 << 24)
    assert m.denominator == 1 and 0 <= e <= 127, 'not exactly representable'
    m = int(m)
    return bytes([sign | e, (m >> 16) & 0xff, (m >> 8) & 0xff, m & 0xff])


def ibm_value(b):
    """Exact rational value of four IBM float bytes."""
    m = (b[1] << 16) | (b[2] << 8) | b[3]
    v = Fraction(m, 1 << 24) * Fraction(16) ** ((b[0] & 0x7f) - 64)
    return -v if b[0] & 0x80 else v


def header(names, depth_from, depth_to, spacing, description=b'TEST WELL'):
    assert len(names) <= 20
    h = b'\x00\x02\x00\x00' + description.ljust(72)[:72] + b'\x00\x0a\x00\x18\x00' + b' ' * 75 + b'\x00\x12\x00\x0b\x00\x06  '
    h += struct.pack('>H', len(names)) + b'\x00\x00'
    for n in names:
        h += n.ljust(4)[:4]
    h += b'    ' * (20 - len(names))
    for v in (depth_from, depth_to, spacing, 0, 16):
        h += ibm_bytes(v)
    h += b'MN239J 1'
    assert len(h) == 276
    return h


def build(passes, rnd):
    """passes: list of dict(names, depth_from, depth_to, spacing, frames=[[v per channel] per frame], block_frames).
    Returns file bytes."""
    blocks = []   # (type, payload)
    for p in passes:
        blocks.append((0, header(p['names'], p['depth_from'], p['depth_to'], p['spacing'])))
        fr = p['frames']
        C = len(p['names'])
        i = 0
        while i < len(fr):
            chunk = fr[i:i + p['block_frames']]
            i += p['block_frames']
            payload = b''
            for c in range(C):
                for row in chunk:
                    payload += ibm_bytes(row[c])
            blocks.append((0, payload))
        blocks.append((1, b''))
    blocks.append((1, b''))
    out = bytearray()
    prev = 0
    for typ, payload in blocks:
        tell = len(out)
        nxt = tell + 12 + len(payload)
        out += struct.pack('<3L', typ, prev, nxt) + payload
        prev = tell
    return bytes(out)
